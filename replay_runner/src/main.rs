//! Replay runner: executes the REAL penne library (path dependency on /repo's working tree) on a
//! concrete input, so that a witness attached to a violation can be demonstrated on the code that runs.
//! Uses only the public library API.  Output: one line `RESULT <json-ish>`; exit 0 always unless usage error;
//! panics inside penne are caught and reported as `PANIC <message>`.
use std::panic;

fn alpha_front(src: &str) -> Vec<penne::alpha::common::Declaration> {
    let tokens = penne::alpha::lexer::lex(src, "replay.pn");
    penne::alpha::parser::parse(tokens)
}

fn count(hay: &str, needle: &str) -> usize { hay.matches(needle).count() }

/// whole first-generation pipeline after expansion, without the LLVM generator, in the order of
/// alpha::Compiler::analyze_and_resolve: the sorted error codes and the lint codes
fn alpha_rest(decls: Vec<penne::alpha::common::Declaration>) -> String { alpha_rest_full(decls).0 }

// C06 on the RESOLVED tree (what the generator consumes): a `loop` that is not the last statement of a block
fn misplaced_loops_in(stmt: &penne::alpha::resolved::Statement, allowed: bool) -> usize {
    use penne::alpha::resolved::Statement;
    match stmt {
        Statement::Loop => if allowed { 0 } else { 1 },
        Statement::If { then_branch, else_branch, .. } =>
            misplaced_loops_in(then_branch, false) + else_branch.as_ref().map(|e| misplaced_loops_in(e, false)).unwrap_or(0),
        Statement::Block(block) => {
            let n = block.statements.len();
            block.statements.iter().enumerate().map(|(i, s)| misplaced_loops_in(s, i + 1 == n)).sum()
        }
        _ => 0,
    }
}

fn misplaced_loops(decls: &[penne::alpha::resolved::Declaration]) -> usize {
    decls.iter().map(|d| match d {
        penne::alpha::resolved::Declaration::Function { body, .. } => body.statements.iter().map(|s| misplaced_loops_in(s, false)).sum(),
        _ => 0,
    }).sum()
}

fn alpha_rest_full(decls: Vec<penne::alpha::common::Declaration>) -> (String, Vec<penne::alpha::error::Error>) {
    if let Err(errors) = penne::alpha::resolver::check_surface_level_errors(&decls) {
        let errors = errors.sorted();
        return (format!("errors={:?} lints=[] stage=surface", errors.codes()).replace(' ', ""), errors.errors);
    }
    let mut decls = penne::alpha::scoper::analyze(decls);
    decls.sort_by_key(|x| penne::alpha::scoper::get_container_depth(x, u32::MAX));
    let offset = decls.partition_point(|x| penne::alpha::scoper::is_container(x));
    let functions = decls.split_off(offset);
    let containers = decls;
    let mut typer = penne::alpha::typer::Typer::default();
    let mut analyzer = penne::alpha::analyzer::Analyzer::default();
    let mut linter = penne::alpha::linter::Linter::default();
    // exactly as Compiler::analyze_and_resolve: containers and functions are accumulated separately and then combined; the
    // diagnostics are reported in the order the library returns them (no sorting here: their order is part of C13)
    let mut parts: Vec<Result<Vec<penne::alpha::resolved::Declaration>, penne::alpha::error::Errors>> = Vec::new();
    for (group, are_containers) in [(containers, true), (functions, false)] {
        let mut acc: Result<Vec<penne::alpha::resolved::Declaration>, penne::alpha::error::Errors> = Ok(Vec::new());
        for d in &group { typer.forward_declare_structure(d); }
        let group: Vec<_> = if are_containers { group } else {
            let g: Vec<_> = group.into_iter().map(|x| typer.declare(x)).collect();
            for d in &g { analyzer.declare(d); }
            g
        };
        for d in group {
            let d = if are_containers { typer.declare(d) } else { d };
            let d = typer.analyze(d);
            let d = analyzer.analyze(d);
            linter.lint(&d);
            let resolved = penne::alpha::resolver::resolve(d);
            // the compiler fetches the value of every usize constant from the LLVM generator (Compiler::fetch_declared_constants)
            // so that it can serve as an array length; without the generator this is emulated for constants whose value is
            // a plain integer literal
            if let Ok(penne::alpha::resolved::Declaration::Constant { name, value, value_type: penne::alpha::value_type::ValueType::Usize, .. }) = &resolved {
                match value {
                    penne::alpha::resolved::Expression::SignedIntegerLiteral { value, .. } if *value >= 0 => typer.resolve_named_length(name.resolution_id, *value as usize),
                    penne::alpha::resolved::Expression::BitIntegerLiteral { value, .. } => typer.resolve_named_length(name.resolution_id, *value as usize),
                    _ => (),
                }
            }
            acc = penne::alpha::resolver::accumulate(acc, resolved);
        }
        parts.push(acc);
    }
    let functions_part = parts.pop().unwrap();
    let containers_part = parts.pop().unwrap();
    let acc = penne::alpha::resolver::combine(containers_part, functions_part);
    let lints: Vec<penne::alpha::linter::Lint> = linter.into();
    let lint_codes: Vec<u16> = lints.iter().map(|x| x.code()).collect();
    // diag: FNV-1a hash of the complete diagnostics (variants, names, locations) in their reported order (C13: determinism)
    let loops = match &acc { Ok(decls) => misplaced_loops(decls), Err(_) => 0 };
    let (codes, dump, errs) = match acc { Ok(_) => (Vec::new(), String::new(), Vec::new()), Err(e) => (e.codes(), format!("{:?}", e), e.errors) };
    let dump = format!("{}|{:?}", dump, lints);
    let mut h: u64 = 0xcbf29ce484222325;
    for b in dump.bytes() { h ^= b as u64; h = h.wrapping_mul(0x100000001b3); }
    (format!("errors={:?} lints={:?} stage=resolved diag={:016x} misplaced_loops={}", codes, lint_codes, h, loops).replace(", ", ","), errs)
}

fn main() {
    let args: Vec<String> = std::env::args().collect();
    if args.len() < 3 { eprintln!("usage: replay_runner <mode> <file>"); std::process::exit(64); }
    let mode = args[1].clone();
    let bytes = std::fs::read(&args[2]).expect("read input");
    let r = panic::catch_unwind(move || {
        match mode.as_str() {
            // C06: placement rules through the real analyzer stage (syntax::analyze is private; Analyzer::analyze runs it)
            "syntax" => {
                let src = String::from_utf8(bytes).unwrap();
                let decls = alpha_front(&src);
                let decls = penne::alpha::scoper::analyze(decls);
                let mut out = String::new();
                for d in decls {
                    let mut a = penne::alpha::analyzer::Analyzer::default();
                    let d = a.analyze(d);
                    out.push_str(&format!("{:?}\n", d));
                }
                format!("E840={} E800={} E801={} parse_errors={}", count(&out, "MissingBraces"), count(&out, "NonFinalLoopStatement"),
                    count(&out, "MisplacedLoopStatement"), count(&out, "UnexpectedToken") + count(&out, "UnexpectedEndOfFile"))
            }
            // C04: label scoping
            "labels" => {
                let src = String::from_utf8(bytes).unwrap();
                let decls = alpha_front(&src);
                let decls = penne::alpha::scoper::analyze(decls);
                let out = format!("{:?}", decls);
                format!("E400={} E420={} parse_errors={}", count(&out, "UndefinedLabel"), count(&out, "DuplicateDeclarationLabel"),
                    count(&out, "UnexpectedToken") + count(&out, "UnexpectedEndOfFile"))
            }
            // whole first-generation pipeline without the LLVM generator, in the order of alpha::Compiler::analyze_and_resolve:
            // prints the sorted error codes and the lint codes
            "alpha" => {
                let src = String::from_utf8(bytes).unwrap();
                let decls = alpha_front(&src);
                let decls = penne::alpha::expander::expand_one("replay.pn", decls);
                alpha_rest(decls)
            }
            // C13: every diagnostic of the input rendered in the four colour/charset configurations (as StdOut::new builds them,
            // index type Char): no panic, no escape sequence when colour is off, plain ASCII when colour is off and arrows are ascii
            "alpharender" => {
                let src = String::from_utf8(bytes).unwrap();
                let decls = alpha_front(&src);
                let decls = penne::alpha::expander::expand_one("replay.pn", decls);
                let (_line, errors) = alpha_rest_full(decls);
                let mut reports = 0; let mut panics = 0; let mut esc = 0; let mut nonascii = 0; let mut failed = 0;
                for error in &errors {
                    for (color, ascii) in [(true, false), (true, true), (false, false), (false, true)] {
                        let cfg = ariadne::Config::default().with_index_type(ariadne::IndexType::Char).with_color(color)
                            .with_char_set(if ascii { ariadne::CharSet::Ascii } else { ariadne::CharSet::Unicode });
                        let config = penne::alpha::error::Config::from(cfg).with_color(color);
                        let source = src.clone();
                        let r = panic::catch_unwind(panic::AssertUnwindSafe(|| {
                            let mut buf: Vec<u8> = Vec::new();
                            let report = error.build_report(config);
                            let ok = report.write(ariadne::sources(vec![("replay.pn".to_string(), source)]), &mut buf).is_ok();
                            (ok, buf)
                        }));
                        reports += 1;
                        match r {
                            Err(_) => panics += 1,
                            Ok((ok, buf)) => {
                                if !ok { failed += 1; }
                                if !color && buf.contains(&0x1b) { esc += 1; }
                                if !color && ascii && src.is_ascii() && !buf.is_ascii() { nonascii += 1; }
                            }
                        }
                    }
                }
                format!("diagnostics={} reports={} panics={} write_errors={} escapes_when_colourless={} nonascii_when_ascii={}", errors.len(), reports, panics, failed, esc, nonascii)
            }
            // C13: the complete diagnostics (Debug form, hex-encoded) so that every Location in them can be checked against the source
            "alphadump" => {
                let src = String::from_utf8(bytes).unwrap();
                let decls = alpha_front(&src);
                let decls = penne::alpha::expander::expand_one("replay.pn", decls);
                let (line, errors) = alpha_rest_full(decls);
                let dump = format!("{:?}", errors);
                let hex: String = dump.bytes().map(|b| format!("{:02x}", b)).collect();
                format!("{} dump={}", line, hex)
            }
            // several modules in one input (sections introduced by lines `//// FILE: <path>`), expanded together as the
            // compiler does for one invocation; every module is then analysed on its own; prints the codes per module
            "alphamulti" => {
                let src = String::from_utf8(bytes).unwrap();
                let mut modules: Vec<(std::path::PathBuf, Vec<penne::alpha::common::Declaration>)> = Vec::new();
                let mut cur: Option<(String, String)> = None;
                for line in src.lines() {
                    if let Some(p) = line.strip_prefix("//// FILE: ") {
                        if let Some((path, text)) = cur.take() {
                            let toks = penne::alpha::lexer::lex(&text, &path);
                            modules.push((path.parse().unwrap(), penne::alpha::parser::parse(toks)));
                        }
                        cur = Some((p.trim().to_string(), String::new()));
                    } else if let Some((_, text)) = cur.as_mut() { text.push_str(line); text.push('\n'); }
                }
                if let Some((path, text)) = cur.take() {
                    let toks = penne::alpha::lexer::lex(&text, &path);
                    modules.push((path.parse().unwrap(), penne::alpha::parser::parse(toks)));
                }
                penne::alpha::expander::expand(&mut modules[..]);
                let mut out = Vec::new();
                for (i, (_path, decls)) in modules.into_iter().enumerate() {
                    let r = alpha_rest(decls);
                    let codes = r.split_whitespace().next().unwrap_or("").replace("errors=", "");
                    let diag = r.split_whitespace().find(|x| x.starts_with("diag=")).unwrap_or("diag=").replace("diag=", "");
                    out.push(format!("m{}={} d{}={}", i, codes, i, diag));
                }
                out.join(" ")
            }
            // first-generation lexer: spans of all tokens (C14/C13: spans lie inside the source and cover the token)
            "alphalex" => {
                let src = String::from_utf8(bytes).unwrap();
                let nchars = src.chars().count();
                let toks = penne::alpha::lexer::lex(&src, "replay.pn");
                let maxend = toks.iter().map(|t| t.location.span.end).max().unwrap_or(0);
                let spans: Vec<String> = toks.iter().map(|t| format!("{}..{}{}", t.location.span.start, t.location.span.end, if t.result.is_err() { "!" } else { "" })).collect();
                format!("chars={} tokens={} maxend={} out_of_source={} spans={}", nchars, toks.len(), maxend, (maxend > nchars) as u8, spans.join("|"))
            }
            // first-generation lexer: every token with span, line and payload (C09/C14: exact tokens, values and spans)
            "alphatok" => {
                use penne::alpha::lexer::Token;
                let src = String::from_utf8(bytes).unwrap();
                let toks = penne::alpha::lexer::lex(&src, "replay.pn");
                let items: Vec<String> = toks.iter().map(|t| {
                    let d = match &t.result {
                        Ok(Token::StringLiteral { bytes }) => format!("str:{}", bytes.iter().map(|b| format!("{:02x}", b)).collect::<String>()),
                        Ok(Token::CharLiteral(b)) => format!("chr:{:02x}", b),
                        Ok(Token::NakedDecimal(v)) => format!("dec:{}", v),
                        Ok(Token::BitInteger(v)) => format!("bit:{}", v),
                        Ok(Token::SuffixedInteger { value, suffix_type }) => format!("suf:{}:{:?}", value, suffix_type),
                        Ok(Token::Identifier(s)) => format!("id:{}", s),
                        Ok(Token::Builtin(s)) => format!("bi:{}", s),
                        Ok(Token::Bool(b)) => format!("bool:{}", b),
                        Ok(Token::Type(t)) => format!("ty:{:?}", t),
                        Ok(other) => format!("{:?}", other),
                        Err(e) => format!("err:{:?}", e),
                    };
                    format!("{}-{}-{}-{}", t.location.span.start, t.location.span.end, t.location.line_number, d.replace(' ', ""))
                }).collect();
                format!("n={} toks={}", toks.len(), items.join("|"))
            }
            // second-generation lexer: every token as its XML element (kind, value type, payload, source text), hex-encoded,
            // and the lexing errors with their codes (C14: tokens by construction, agreement of the two lexers)
            "deltatok" => {
                let tokens = penne::delta::lexer::lex(&bytes, "replay.pn");
                let src = String::from_utf8_lossy(&bytes).to_string();
                let codes: Vec<u16> = tokens.errors().map(|e| e.codes()).unwrap_or_default();
                let hex = |s: String| s.bytes().map(|b| format!("{:02x}", b)).collect::<String>();
                let valid_utf8 = std::str::from_utf8(&bytes).is_ok();
                let lines: Vec<String> = if valid_utf8 { tokens.as_xml(&src).collect() } else { Vec::new() };
                // byte span, line number and column of every token (TokenIds are walked with the public advance())
                let mut locs: Vec<String> = Vec::new();
                let mut id = tokens.first_token_id();
                for _ in 0..tokens.base_tokens().len() {
                    let l = tokens.get_location(id);
                    locs.push(format!("{}-{}-{}-{}", l.span.start, l.span.end, l.line_number, l.line_offset));
                    tokens.advance(&mut id);
                }
                format!("n={} errors={:?} toks={} locs={}", tokens.base_tokens().len(), codes, hex(lines.join("\n")), locs.join("|")).replace(", ", ",")
            }
            // lexing, parsing, header extraction only (no XML dump): tells a crash of the parser from a crash of the printer
            "deltaparse" => {
                let tokens = penne::delta::lexer::lex(&bytes, "replay.pn");
                let nlex = tokens.errors().map(|e| e.errors.len()).unwrap_or(0);
                if nlex > 0 { return format!("lex_errors={} parse_errors=-", nlex); }
                let tree = penne::delta::parser::parse(&tokens);
                let npar = tree.errors(&tokens).map(|e| e.errors.len()).unwrap_or(0);
                if npar > 0 { return format!("lex_errors=0 parse_errors={} nodes={}", npar, tree.num_parse_nodes()); }
                let hdr = tree.build_header();
                format!("lex_errors=0 parse_errors=0 nodes={} header_nodes={} header_decls={}", tree.num_parse_nodes(), hdr.num_parse_nodes(), hdr.num_declarations())
            }
            // C15: delta front end totality
            "delta" => {
                let tokens = penne::delta::lexer::lex(&bytes, "replay.pn");
                let nlex = tokens.errors().map(|e| e.errors.len()).unwrap_or(0);
                if nlex > 0 { return format!("lex_errors={} parse_errors=-", nlex); }
                let tree = penne::delta::parser::parse(&tokens);
                let npar = tree.errors(&tokens).map(|e| e.errors.len()).unwrap_or(0);
                if npar > 0 { return format!("lex_errors=0 parse_errors={} nodes={}", npar, tree.num_parse_nodes()); }
                let hdr = tree.build_header();
                // the XML dumps (C15 names them; C16/C17: no MALFORMED element for an accepted module or its header)
                let (mal_tree, mal_hdr) = match std::str::from_utf8(&bytes) {
                    Ok(src) => (tree.as_xml(&tokens, src).filter(|l| l.contains("MALFORMED")).count(), hdr.as_xml(&tokens, src).filter(|l| l.contains("MALFORMED")).count()),
                    Err(_) => (0, 0),
                };
                format!("lex_errors=0 parse_errors=0 nodes={} header_nodes={} header_decls={} malformed={} header_malformed={}", tree.num_parse_nodes(), hdr.num_parse_nodes(), hdr.num_declarations(), mal_tree, mal_hdr)
            }
            // C17: the XML dumps of the tree and of its header, hex-encoded (compared structurally by vlib/witness_header.py)
            "deltaxml" => {
                let tokens = penne::delta::lexer::lex(&bytes, "replay.pn");
                let nlex = tokens.errors().map(|e| e.errors.len()).unwrap_or(0);
                if nlex > 0 { return format!("lex_errors={} parse_errors=-", nlex); }
                let tree = penne::delta::parser::parse(&tokens);
                let npar = tree.errors(&tokens).map(|e| e.errors.len()).unwrap_or(0);
                if npar > 0 { return format!("lex_errors=0 parse_errors={}", npar); }
                let hdr = tree.build_header();
                let src = std::str::from_utf8(&bytes).unwrap_or("");
                let hex = |s: String| s.bytes().map(|b| format!("{:02x}", b)).collect::<String>();
                let t: Vec<String> = tree.as_xml(&tokens, src).collect();
                let h: Vec<String> = hdr.as_xml(&tokens, src).collect();
                format!("lex_errors=0 parse_errors=0 tree={} header={}", hex(t.join("\n")), hex(h.join("\n")))
            }
            _ => "unknown-mode".to_string(),
        }
    });
    match r {
        Ok(s) => println!("RESULT {}", s),
        Err(e) => {
            let msg = if let Some(s) = e.downcast_ref::<&str>() { s.to_string() } else if let Some(s) = e.downcast_ref::<String>() { s.clone() } else { "?".to_string() };
            println!("PANIC {}", msg.replace('\n', " "));
        }
    }
}
