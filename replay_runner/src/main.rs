//! Replay runner: executes the REAL penne library (path dependency on /repo's working tree) on a
//! concrete input, so that a witness attached to a violation can be demonstrated on the code that runs.
//! Uses only the public library API.  Output: one line `RESULT <json-ish>`; exit 0 always unless usage error;
//! panics inside penne are caught and reported as `PANIC <message>`.
use std::panic;

fn alpha_front(src: &str) -> Vec<penne::alpha::common::Declaration> {
    let tokens = penne::alpha::lexer::lex(src, "replay.pn");
    penne::alpha::parser::parse(tokens)
}

fn count(hay: &str, needle: &str) -> usize { hay.matches(needle).count() }

fn main() {
    let args: Vec<String> = std::env::args().collect();
    if args.len() < 3 { eprintln!("usage: replay_runner <mode> <file>"); std::process::exit(64); }
    let mode = args[1].clone();
    let bytes = std::fs::read(&args[2]).expect("read input");
    let r = panic::catch_unwind(move || {
        match mode.as_str() {
            // C06: placement rules through the real analyzer stage (syntax::analyze is private; Analyzer::analyze runs it)
            "syntax" => {
                let src = String::from_utf8(bytes).unwrap();
                let decls = alpha_front(&src);
                let decls = penne::alpha::scoper::analyze(decls);
                let mut out = String::new();
                for d in decls {
                    let mut a = penne::alpha::analyzer::Analyzer::default();
                    let d = a.analyze(d);
                    out.push_str(&format!("{:?}\n", d));
                }
                format!("E840={} E800={} E801={} parse_errors={}", count(&out, "MissingBraces"), count(&out, "NonFinalLoopStatement"),
                    count(&out, "MisplacedLoopStatement"), count(&out, "UnexpectedToken") + count(&out, "UnexpectedEndOfFile"))
            }
            // C04: label scoping
            "labels" => {
                let src = String::from_utf8(bytes).unwrap();
                let decls = alpha_front(&src);
                let decls = penne::alpha::scoper::analyze(decls);
                let out = format!("{:?}", decls);
                format!("E400={} E420={} parse_errors={}", count(&out, "UndefinedLabel"), count(&out, "DuplicateDeclarationLabel"),
                    count(&out, "UnexpectedToken") + count(&out, "UnexpectedEndOfFile"))
            }
            // C15: delta front end totality
            "delta" => {
                let tokens = penne::delta::lexer::lex(&bytes, "replay.pn");
                let nlex = tokens.errors().map(|e| e.errors.len()).unwrap_or(0);
                if nlex > 0 { return format!("lex_errors={} parse_errors=-", nlex); }
                let tree = penne::delta::parser::parse(&tokens);
                let npar = tree.errors(&tokens).map(|e| e.errors.len()).unwrap_or(0);
                if npar > 0 { return format!("lex_errors=0 parse_errors={} nodes={}", npar, tree.num_parse_nodes()); }
                let hdr = tree.build_header();
                format!("lex_errors=0 parse_errors=0 nodes={} header_nodes={} header_decls={}", tree.num_parse_nodes(), hdr.num_parse_nodes(), hdr.num_declarations())
            }
            _ => "unknown-mode".to_string(),
        }
    });
    match r {
        Ok(s) => println!("RESULT {}", s),
        Err(e) => {
            let msg = if let Some(s) = e.downcast_ref::<&str>() { s.to_string() } else if let Some(s) = e.downcast_ref::<String>() { s.clone() } else { "?".to_string() };
            println!("PANIC {}", msg.replace('\n', " "));
        }
    }
}
