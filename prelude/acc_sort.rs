// U-ACC prelude (1/2): the std stable sort behind a trusted wrapper (rule ACC1 turns `V.sort_by(CMP)` into
// `vec_sort_by(&mut V, CMP, Ghost(LE))`).  vstd has no spec for `[T]::sort_by`; the wrapper calls that very std function
// and states what its documentation promises ("This sort is stable (i.e., does not reorder equal elements)"; the result is
// the input rearranged; elements end up ordered by the comparator), PROVIDED the comparator is a consistent total order
// - which is NOT assumed: it is a precondition, discharged by Verus at the call site against the real comparator closure.
use core::cmp::Ordering;

// `le` is reflexive-total and transitive (a total preorder: distinct elements may compare equal - two diagnostics at one place)
pub open spec fn total_preorder<T>(le: spec_fn(T, T) -> bool) -> bool {
	&&& forall|a: T, b: T| #[trigger] le(a, b) || le(b, a)
	&&& forall|a: T, b: T, c: T| #[trigger] le(a, b) && #[trigger] le(b, c) ==> le(a, c)
}

// `out` is `inp` rearranged by the index map p (out[i] == inp[p[i]], p injective on 0..n, hence a permutation),
// `out` is ordered by `le`, and elements that compare equal keep their input order (stability).
// For a total preorder `le` these conditions determine `out` uniquely.
pub open spec fn stable_sort_witness<T>(inp: Seq<T>, out: Seq<T>, le: spec_fn(T, T) -> bool, p: Seq<int>) -> bool {
	&&& out.len() == inp.len() && p.len() == inp.len()
	&&& forall|i: int| 0 <= i < p.len() ==> 0 <= #[trigger] p[i] < inp.len() && out[i] == inp[p[i]]
	&&& forall|i: int, j: int| 0 <= i < j < p.len() ==> #[trigger] p[i] != #[trigger] p[j]
	&&& forall|i: int, j: int| 0 <= i < j < out.len() ==> le(#[trigger] out[i], #[trigger] out[j])
	&&& forall|i: int, j: int| 0 <= i < j < p.len() && le(out[j], out[i]) ==> #[trigger] p[i] < #[trigger] p[j]
}

pub open spec fn is_stable_sort<T>(inp: Seq<T>, out: Seq<T>, le: spec_fn(T, T) -> bool) -> bool {
	exists|p: Seq<int>| stable_sort_witness(inp, out, le, p)
}

// TRUSTED wrapper around std `<[T]>::sort_by` (reached through Vec's deref, exactly as in the sliced code).
// requires: the comparator is total (callable on every pair) and decides the ghost preorder `le` consistently:
//           Greater <=> !(a le b), Less <=> !(b le a)   (hence Equal <=> both), `le` being a total preorder.
// ensures:  stable sort (see above); the two consequences every caller wants are spelled out as well
//           (same multiset of elements; pairwise ordered) - both follow from the witness, both are promised by std.
#[verifier::external_body] pub fn vec_sort_by<T, F: Fn(&T, &T) -> Ordering>(v: &mut Vec<T>, compare: F, Ghost(le): Ghost<spec_fn(T, T) -> bool>)
	requires
		total_preorder(le),
		forall|a: T, b: T| #[trigger] compare.requires((&a, &b)),
		forall|a: T, b: T, o: Ordering| #[trigger] compare.ensures((&a, &b), o)
			==> (o == Ordering::Greater <==> !le(a, b)) && (o == Ordering::Less <==> !le(b, a)),
	ensures
		is_stable_sort(old(v)@, final(v)@, le),
		final(v)@.to_multiset() == old(v)@.to_multiset(),
		forall|i: int, j: int| 0 <= i < j < final(v)@.len() ==> le(#[trigger] final(v)@[i], #[trigger] final(v)@[j]),
{
	v.sort_by(compare)
}
