// R5 target: VERIFIED shim equal to Peekable<Enumerate<Copied<slice::Iter<u8>>>> (next / peek / next_if),
// state = (src, pos).  Equality with the std adapter chain is validated by the rule-validation harness.
pub struct PeekIter<'a> { pub src: &'a [u8], pub pos: usize }
impl<'a> PeekIter<'a> {
	pub open spec fn wf(&self) -> bool { self.pos <= self.src@.len() }
	pub open spec fn head(&self) -> Option<(usize, u8)> { if self.pos < self.src@.len() { Some((self.pos, self.src@[self.pos as int])) } else { None } }
	pub fn new(src: &'a [u8]) -> (r: Self) ensures r.src@ == src@, r.pos == 0, r.wf() { PeekIter { src, pos: 0 } }
	pub fn next(&mut self) -> (r: Option<(usize, u8)>)
		requires old(self).wf(),
		ensures final(self).wf(), final(self).src@ == old(self).src@, r == old(self).head(),
			final(self).pos == (if old(self).pos < old(self).src@.len() { old(self).pos + 1 } else { old(self).pos as int }),
	{ if self.pos < self.src.len() { let i = self.pos; self.pos = self.pos + 1; Some((i, self.src[i])) } else { None } }
	pub fn peek(&mut self) -> (r: Option<(usize, u8)>)
		requires old(self).wf(),
		ensures *final(self) == *old(self), r == old(self).head(),
	{ if self.pos < self.src.len() { Some((self.pos, self.src[self.pos])) } else { None } }
	pub fn next_if<F: FnOnce(&(usize, u8)) -> bool>(&mut self, f: F) -> (r: Option<(usize, u8)>)
		requires old(self).wf(), forall|p: (usize, u8)| f.requires((&p,)),
		ensures final(self).wf(), final(self).src@ == old(self).src@,
			old(self).head() is None ==> r is None && final(self).pos == old(self).pos,
			old(self).head() is Some ==> (exists|b: bool| #[trigger] f.ensures((&old(self).head()->0,), b) && (if b { r == old(self).head() && final(self).pos == old(self).pos + 1 } else { r is None && final(self).pos == old(self).pos })),
	{
		let ghost h = self.head();
		if self.pos < self.src.len() {
			let p = (self.pos, self.src[self.pos]);
			assert(h == Some(p));
			let b = f(&p);
			assert(f.ensures((&h->0,), b));
			if b { self.pos = self.pos + 1; Some(p) } else { None }
		} else { None }
	}
}
// R7 target: VERIFIED byte-slice comparison
pub fn slice_eq(a: &[u8], b: &[u8]) -> (r: bool)
	ensures r == (a@ == b@)
{
	if a.len() != b.len() { return false; }
	let mut i: usize = 0;
	while i < a.len()
		invariant i <= a.len(), a.len() == b.len(), forall|k: int| 0 <= k < i ==> a@[k] == b@[k],
		decreases a.len() - i,
	{
		if a[i] != b[i] { return false; }
		i += 1;
	}
	assert(a@ =~= b@);
	true
}
