// U-EXTERN prelude (trusted text; everything here is ASSUMED, not proved).
//
// Trusted model of the third-party crate `enumset` (1.1.x), same model as prelude/export_enumset.rs: an `EnumSet<T>` is
// viewed as the mathematical set of the flags it holds.  The struct is opaque (the real one is a bit mask `T::Repr`);
// only the one operation the sliced code (`fix_type_for_flags`) calls is given a spec:
//    EnumSet::contains -- enumset/src/set.rs: `self.repr.has_bit(value.enum_into_u32())`: membership test, no effect
// The `T: EnumSetType` bound of the real struct is dropped together with the `EnumSetType` derive on `DeclarationFlag`.
#[verifier::external_body]
#[verifier::accept_recursive_types(T)]
pub struct EnumSet<T> { _p: core::marker::PhantomData<T> }

impl<T> View for EnumSet<T> {
	type V = Set<T>;
	uninterp spec fn view(&self) -> Set<T>;
}

impl<T> EnumSet<T> {
	#[verifier::external_body]
	pub fn contains(&self, value: T) -> (r: bool)
		ensures r == self@.contains(value),
	{ unimplemented!() }
}
