// U-RESNODE prelude, part 1 (trusted text; everything here is ASSUMED, not proved): third-party and derive-generated code.
// enumset::EnumSet<DeclarationFlag>: opaque, viewed as the set of its flags (same model as prelude/expand_types.rs);
// `set | flag` (enumset: `impl<T: EnumSetType, O: Into<EnumSet<T>>> BitOr<O> for EnumSet<T>`) is the union with that flag
#[verifier::external_body]
#[verifier::accept_recursive_types(T)]
pub struct EnumSet<T> { _p: core::marker::PhantomData<T> }
impl<T> View for EnumSet<T> {
	type V = Set<T>;
	uninterp spec fn view(&self) -> Set<T>;
}
impl core::ops::BitOr<DeclarationFlag> for EnumSet<DeclarationFlag> {
	type Output = EnumSet<DeclarationFlag>;
	#[verifier::external_body]
	fn bitor(self, flag: DeclarationFlag) -> (r: EnumSet<DeclarationFlag>)
		ensures r@ == self@.insert(flag)
	{ unimplemented!() }
}
// trusted: #[derive(Clone)] of resolved::Identifier is the identity (needed for the bound of `trait value_type::Identifier`)
impl Clone for resolved::Identifier { #[verifier::external_body] fn clone(&self) -> (r: Self) ensures r == *self { unimplemented!() } }
impl vstd::std_specs::cmp::PartialEqSpecImpl for resolved::Identifier {
	open spec fn obeys_eq_spec() -> bool { false }
	open spec fn eq_spec(&self, other: &Self) -> bool { true }
}
impl vstd::std_specs::ops::BitOrSpecImpl<DeclarationFlag> for EnumSet<DeclarationFlag> {
	open spec fn obeys_bitor_spec() -> bool { false }
	open spec fn bitor_req(self, rhs: DeclarationFlag) -> bool { true }
	open spec fn bitor_spec(self, rhs: DeclarationFlag) -> EnumSet<DeclarationFlag> { arbitrary() }
}
