// U-TYPST: target of rule TY1 (VERIFIED, not trusted): `steps.iter().rev().find_map(|step| step.get_member())`
pub open spec fn member_of(s: ReferenceStep) -> Option<Identifier> { match s { ReferenceStep::Member { member, .. } => Some(member), _ => None } }
// index of the last member-access step below n, or -1
pub open spec fn last_member_at(steps: Seq<ReferenceStep>, n: int) -> int
	decreases n
{
	if n <= 0 { -1 } else if steps[n - 1] is Member { n - 1 } else { last_member_at(steps, n - 1) }
}
pub open spec fn last_member(steps: Seq<ReferenceStep>) -> Option<Identifier> {
	if last_member_at(steps, steps.len() as int) >= 0 { member_of(steps[last_member_at(steps, steps.len() as int)]) } else { None }
}
pub fn steps_last_member(steps: &Vec<ReferenceStep>) -> (r: Option<Identifier>)
	ensures r == last_member(steps@),
{
	let mut i: usize = steps.len();
	while i > 0
		invariant i <= steps@.len(), last_member_at(steps@, steps@.len() as int) == last_member_at(steps@, i as int),
		decreases i
	{
		i = i - 1;
		let m = steps[i].get_member();
		if m.is_some() { return m; }
	}
	None
}
