// U-RES prelude: opaque stand-ins for the types the operator/cast checks never look into (DESIGN.md 2.2 item 4),
// and trusted one-line specs for the three callees that live outside the unit (DESIGN.md 2.2 item 5).
// ValueType / OperandValueType / Identifier / Error / Errors / Poison are NOT here: they are sliced from /repo.

// lexer::Location (src/alpha/lexer.rs: #[derive(Debug, Clone, PartialEq)] struct of String/Range/usize fields)
#[verifier::external_body] pub struct Location { _p: u8 }
// trusted: derived Clone is the identity
impl Clone for Location { #[verifier::external_body] fn clone(&self) -> (r: Self) ensures r == *self { unimplemented!() } }
// trusted: derived PartialEq is a deterministic relation on the (opaque) fields; nothing else is assumed about it
pub uninterp spec fn loc_eq(a: Location, b: Location) -> bool;
impl vstd::std_specs::cmp::PartialEqSpecImpl for Location {
	open spec fn obeys_eq_spec() -> bool { true }
	open spec fn eq_spec(&self, o: &Self) -> bool { loc_eq(*self, *o) }
}
impl PartialEq for Location { #[verifier::external_body] fn eq(&self, o: &Self) -> (r: bool) ensures r == loc_eq(*self, *o) { unimplemented!() } }

pub mod lexer { use vstd::prelude::*; #[verifier::external_body] pub struct Error { _p: u8 } pub use super::Location; }

// resolved::ValueType (src/alpha/resolved.rs): the output type of the resolver; only passed through
pub mod resolved { use vstd::prelude::*; #[verifier::external_body] pub struct ValueType { _p: u8 } }

// `common::ValueType` is how resolver.rs spells the return type of match_type_of_operands
pub mod common { pub use super::ValueType; }

// common::Expression: operand extraction is opaque (DESIGN.md section 4, C07): an expression has *a* location and
// *a* recorded type (None = ambiguous, Some(Err) = poisoned by an earlier stage); both are uninterpreted.
#[verifier::external_body] pub struct Expression { _p: u8 }
pub uninterp spec fn expr_loc(e: Expression) -> Location;
pub uninterp spec fn expr_type(e: Expression) -> Option<Poisonable<ValueType>>;
impl Expression {
	// trusted stand-in for common.rs `impl Expression :: fn location` (a field projection per variant)
	#[verifier::external_body] pub fn location(&self) -> (r: &Location) ensures *r == expr_loc(*self) { unimplemented!() }
}

// Assumed std spec (trusted): `[T]::to_vec` clones the slice element-wise
pub assume_specification<T: Clone>[ <[T]>::to_vec ](s: &[T]) -> (r: Vec<T>)
	ensures r@.len() == s@.len(), forall|i: int| 0 <= i < s@.len() ==> vstd::pervasive::cloned(#[trigger] s@[i], r@[i]);

// Assumed std spec (trusted): Option<Result<T, E>>::transpose
pub assume_specification<T, E>[ Option::<Result<T, E>>::transpose ](o: Option<Result<T, E>>) -> (r: Result<Option<T>, E>)
	ensures r == (match o { None => Ok::<Option<T>, E>(None), Some(Ok(x)) => Ok(Some(x)), Some(Err(e)) => Err(e) });
