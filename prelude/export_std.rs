// Assumed std spec (trusted): the derived-style `Clone` of `Result` clones the payload of whichever side is there.
// Same shape as vstd's own spec of `<Option<T> as Clone>::clone`; this vstd has none for `Result`, so without it the
// clones of the `Poisonable<..>` (= `Result<.., Poison>`) fields in `export` would be unconstrained.
pub assume_specification<T: Clone, E: Clone>[ <Result<T, E> as Clone>::clone ](a: &Result<T, E>) -> (r: Result<T, E>)
	ensures
		a is Ok ==> r is Ok && cloned::<T>(a->Ok_0, r->Ok_0),
		a is Err ==> r is Err && cloned::<E>(a->Err_0, r->Err_0);
