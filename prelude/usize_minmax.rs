// R21 targets (VERIFIED helpers): std::cmp::max / min on usize
pub fn usize_max(a: usize, b: usize) -> (r: usize)
	ensures r == (if a >= b { a } else { b }),
{ if a >= b { a } else { b } }
pub fn usize_min(a: usize, b: usize) -> (r: usize)
	ensures r == (if a <= b { a } else { b }),
{ if a <= b { a } else { b } }
