// U-VARS helper (VERIFIED, not assumed): `HashSet::from_iter(S.iter().flat_map(|layer| layer.iter().map(f)))` for a slice of vectors,
// re-stated as two nested loops that insert f(x) for every element x, layer by layer (std: FromIterator for HashSet inserts every
// item of the iterator; flat_map / map yield f(x) for the elements in order).  g is the ghost function the closure computes
// (checked by Verus at the call site against the closure's own verified `ensures`).  Rule VR1 puts this helper in place of the chain.
pub fn vars_collect<T, F: Fn(&T) -> u32>(s: &[Vec<T>], f: F, Ghost(g): Ghost<spec_fn(T) -> u32>) -> (r: std::collections::HashSet<u32>)
	requires
		forall|i: int, j: int| 0 <= i < s@.len() && 0 <= j < s@[i]@.len() ==> f.requires((&#[trigger] s@[i]@[j],)),
		forall|x: T, y: u32| #[trigger] f.ensures((&x,), y) ==> y == g(x),
	ensures
		forall|y: u32| #[trigger] r@.contains(y) <==> exists|i: int, j: int| 0 <= i < s@.len() && 0 <= j < s@[i]@.len() && g(#[trigger] s@[i]@[j]) == y,
{
	broadcast use vstd::std_specs::hash::group_hash_axioms;
	let mut r = std::collections::HashSet::new();
	let mut i: usize = 0;
	while i < s.len()
		invariant i <= s@.len(),
			forall|i: int, j: int| 0 <= i < s@.len() && 0 <= j < s@[i]@.len() ==> f.requires((&#[trigger] s@[i]@[j],)),
			forall|x: T, y: u32| #[trigger] f.ensures((&x,), y) ==> y == g(x),
			forall|y: u32| #[trigger] r@.contains(y) <==> exists|k: int, l: int| 0 <= k < i && 0 <= l < s@[k]@.len() && g(#[trigger] s@[k]@[l]) == y,
		decreases s@.len() - i,
	{
		let layer = &s[i];
		let mut j: usize = 0;
		while j < layer.len()
			invariant j <= layer@.len(), i < s@.len(), *layer == s@[i as int],
				forall|i: int, j: int| 0 <= i < s@.len() && 0 <= j < s@[i]@.len() ==> f.requires((&#[trigger] s@[i]@[j],)),
				forall|x: T, y: u32| #[trigger] f.ensures((&x,), y) ==> y == g(x),
				forall|y: u32| #[trigger] r@.contains(y) <==> ((exists|k: int, l: int| 0 <= k < i && 0 <= l < s@[k]@.len() && g(#[trigger] s@[k]@[l]) == y)
					|| (exists|l: int| 0 <= l < j && g(#[trigger] s@[i as int]@[l]) == y)),
			decreases layer@.len() - j,
		{
			let ghost r0 = r@;
			let y0 = f(&layer[j]);
			r.insert(y0);
			proof {
				assert(y0 == g(s@[i as int]@[j as int]));
				assert forall|y: u32| #[trigger] r@.contains(y) <==> ((exists|k: int, l: int| 0 <= k < i && 0 <= l < s@[k]@.len() && g(#[trigger] s@[k]@[l]) == y)
					|| (exists|l: int| 0 <= l < j + 1 && g(#[trigger] s@[i as int]@[l]) == y)) by {
					assert(r@.contains(y) <==> r0.contains(y) || y == y0);
					if exists|l: int| 0 <= l < j + 1 && g(#[trigger] s@[i as int]@[l]) == y {
						let l = choose|l: int| 0 <= l < j + 1 && g(#[trigger] s@[i as int]@[l]) == y;
						if l < j { assert(g(s@[i as int]@[l]) == y); }
					}
					if exists|l: int| 0 <= l < j && g(#[trigger] s@[i as int]@[l]) == y {
						let l = choose|l: int| 0 <= l < j && g(#[trigger] s@[i as int]@[l]) == y;
						assert(0 <= l < j + 1 && g(s@[i as int]@[l]) == y);
					}
					if y == y0 { assert(0 <= j < j + 1 && g(s@[i as int]@[j as int]) == y); }
				}
			}
			j += 1;
		}
		proof {
			assert forall|y: u32| #[trigger] r@.contains(y) <==> exists|k: int, l: int| 0 <= k < i + 1 && 0 <= l < s@[k]@.len() && g(#[trigger] s@[k]@[l]) == y by {
				if exists|k: int, l: int| 0 <= k < i + 1 && 0 <= l < s@[k]@.len() && g(#[trigger] s@[k]@[l]) == y {
					let (k, l) = choose|k: int, l: int| 0 <= k < i + 1 && 0 <= l < s@[k]@.len() && g(#[trigger] s@[k]@[l]) == y;
					if k < i { assert(g(s@[k]@[l]) == y); } else { assert(g(s@[i as int]@[l]) == y); }
				}
				if exists|k: int, l: int| 0 <= k < i && 0 <= l < s@[k]@.len() && g(#[trigger] s@[k]@[l]) == y {
					let (k, l) = choose|k: int, l: int| 0 <= k < i && 0 <= l < s@[k]@.len() && g(#[trigger] s@[k]@[l]) == y;
					assert(0 <= k < i + 1 && g(s@[k]@[l]) == y);
				}
				if exists|l: int| 0 <= l < j && g(#[trigger] s@[i as int]@[l]) == y {
					let l = choose|l: int| 0 <= l < j && g(#[trigger] s@[i as int]@[l]) == y;
					assert(0 <= i < i + 1 && 0 <= l < s@[i as int]@.len() && g(s@[i as int]@[l]) == y);
				}
			}
		}
		i += 1;
	}
	r
}
