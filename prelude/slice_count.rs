// R22 helper (VERIFIED): number of elements of a slice for which a predicate function returns true.
pub open spec fn count_true<T, F: Fn(T) -> bool>(s: Seq<T>, f: F, n: int) -> int
	decreases n
{
	if n <= 0 || n > s.len() { 0 } else { count_true(s, f, n - 1) + (if f.ensures((s[n - 1],), true) { 1int } else { 0int }) }
}
pub fn slice_count<T: Copy, F: Fn(T) -> bool>(s: &[T], f: F) -> (r: usize)
	requires forall|x: T| f.requires((x,)), forall|x: T| !(f.ensures((x,), true) && f.ensures((x,), false)),
	ensures r == count_true(s@, f, s@.len() as int), r <= s@.len(),
{
	let mut i: usize = 0;
	let mut n: usize = 0;
	while i < s.len()
		invariant i <= s@.len(), n <= i, n == count_true(s@, f, i as int),
			forall|x: T| f.requires((x,)), forall|x: T| !(f.ensures((x,), true) && f.ensures((x,), false)),
		decreases s@.len() - i,
	{
		let b = f(s[i]);
		if b { n += 1; }
		i += 1;
	}
	n
}
