// R22 helper (VERIFIED): number of elements of a slice for which a predicate function returns true.
// The ghost argument p is the mathematical predicate the exec function f is known to compute.
pub open spec fn count_p<T>(s: Seq<T>, p: spec_fn(T) -> bool, n: int) -> int
	decreases n
{
	if n <= 0 || n > s.len() { 0 } else { count_p(s, p, n - 1) + (if p(s[n - 1]) { 1int } else { 0int }) }
}
pub fn slice_count<T: Copy, F: Fn(T) -> bool>(s: &[T], f: F, Ghost(p): Ghost<spec_fn(T) -> bool>) -> (r: usize)
	requires forall|x: T| f.requires((x,)), forall|x: T, b: bool| f.ensures((x,), b) ==> b == p(x),
	ensures r == count_p(s@, p, s@.len() as int), r <= s@.len(),
{
	let mut i: usize = 0;
	let mut n: usize = 0;
	while i < s.len()
		invariant i <= s@.len(), n <= i, n == count_p(s@, p, i as int),
			forall|x: T| f.requires((x,)), forall|x: T, b: bool| f.ensures((x,), b) ==> b == p(x),
		decreases s@.len() - i,
	{
		let b = f(s[i]);
		if b { n += 1; }
		i += 1;
	}
	n
}
