// U-TYPARG: callees that stay OUTSIDE contracts - external bodies with ASSUMED contracts, as weak as the callers can live with
// (same text and same three thin facts as prelude/typst_callees.rs for Expression::analyze and analyze_type; see spec/u_typst_spec.rs):
impl Analyzable for Expression {
	open spec fn pre(self, t: Typer) -> bool { true }
	open spec fn post(self, r: Self, t0: Typer, t1: Typer) -> bool {
		&&& r == ea_result(self, abs(t0)) && abs(t1) == ea_state(self, abs(t0))
		&&& tab_wf(t0.symbols@) ==> tab_wf(t1.symbols@)
		&&& opt_wf(etype(r))
		&&& typed(etype(r)) ==> loc_ok(r)
	}
	#[verifier::external_body] fn analyze(self, typer: &mut Typer) -> (r: Self) { unimplemented!() }
}
impl Analyzable for Poisonable<ValueType> {
	open spec fn pre(self, t: Typer) -> bool { true }
	open spec fn post(self, r: Self, t0: Typer, t1: Typer) -> bool {
		&&& r == ta_result(self, abs(t0)) && abs(t1) == ta_state(self, abs(t0))
		&&& tab_wf(t0.symbols@) ==> tab_wf(t1.symbols@)
		&&& r is Ok ==> value_type::wf(r->Ok_0)
	}
	#[verifier::external_body] fn analyze(self, typer: &mut Typer) -> (r: Self) { unimplemented!() }
}
// Typer::analyze_member_access (looks the member up by NAME in the structure table, sets its resolution id, returns its index;
// E-undefined-member otherwise; unreachable!() when the structure is unknown): uninterpreted function of the abstract state
impl Typer {
	#[verifier::external_body]
	pub fn analyze_member_access(&self, base: &Identifier, access: &mut Identifier) -> (r: Result<usize, Poison>)
		ensures r == ama_result(abs(*self), *base, *old(access)), *final(access) == ama_name(abs(*self), *base, *old(access)),
	{ unimplemented!() }
}
