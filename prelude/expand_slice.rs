// U-EXPAND prelude, part 3: helpers for `S.iter().map(f).collect()` and `S.iter().filter_map(f).collect()` on a slice into a
// Vec (rule EX3).  VERIFIED, not assumed (analogous to prelude/slice_position.rs): the loops below are what the std iterator
// chains do - std: `map` "calls the closure on each element", `filter_map` "yields only the values for which the supplied
// closure returns Some(value)", `collect` into a Vec keeps the order of the iterator.  What is trusted is that restatement.
// The closures only capture shared references.
pub trait ExSlice<T> {
	spec fn ex_elems(&self) -> Seq<T>;

	// r[i] is what f returns on the i-th element
	fn ex_map_collect<U, F: Fn(&T) -> U>(&self, f: F) -> (r: Vec<U>)
		requires
			forall|i: int| 0 <= i < self.ex_elems().len() ==> f.requires((&#[trigger] self.ex_elems()[i],)),
		ensures
			r@.len() == self.ex_elems().len(),
			forall|i: int| 0 <= i < r@.len() ==> f.ensures((&self.ex_elems()[i],), #[trigger] r@[i]);

	// `sel` says on which elements f returns Some, `rel` relates such an element to the payload:
	// r is, item by item, rel-related to the subsequence of the selected elements
	fn ex_filter_map_collect<U, F: Fn(&T) -> Option<U>>(&self, f: F, sel: Ghost<spec_fn(T) -> bool>, rel: Ghost<spec_fn(T, U) -> bool>) -> (r: Vec<U>)
		requires
			forall|i: int| 0 <= i < self.ex_elems().len() ==> f.requires((&#[trigger] self.ex_elems()[i],)),
			forall|x: T, o: Option<U>| #[trigger] f.ensures((&x,), o) ==> (o is Some <==> (sel@)(x)) && (o is Some ==> (rel@)(x, o->Some_0)),
		ensures
			r@.len() == self.ex_elems().filter(sel@).len(),
			forall|k: int| 0 <= k < r@.len() ==> (rel@)(self.ex_elems().filter(sel@)[k], #[trigger] r@[k]);

	// `iter().take_while(f).count()`: the length of the longest prefix on which f holds (not used by the pinned code)
	fn ex_take_while_count<F: Fn(&T) -> bool>(&self, f: F, pred: Ghost<spec_fn(T) -> bool>) -> (r: usize)
		requires
			forall|i: int| 0 <= i < self.ex_elems().len() ==> f.requires((&#[trigger] self.ex_elems()[i],)),
			forall|x: T, b: bool| #[trigger] f.ensures((&x,), b) ==> b == (pred@)(x),
		ensures
			r <= self.ex_elems().len(),
			forall|i: int| 0 <= i < r ==> (pred@)(#[trigger] self.ex_elems()[i]),
			r < self.ex_elems().len() ==> !(pred@)(self.ex_elems()[r as int]);
}

impl<T> ExSlice<T> for [T] {
	open spec fn ex_elems(&self) -> Seq<T> { self@ }

	fn ex_map_collect<U, F: Fn(&T) -> U>(&self, f: F) -> (r: Vec<U>)
	{
		let mut out: Vec<U> = Vec::new();
		let mut i: usize = 0;
		assert forall|k: int| 0 <= k < self@.len() implies f.requires((&#[trigger] self@[k],)) by { assert(self@[k] == self.ex_elems()[k]); }
		while i < self.len()
			invariant
				i <= self@.len(), out@.len() == i,
				forall|k: int| 0 <= k < self@.len() ==> f.requires((&#[trigger] self@[k],)),
				forall|k: int| 0 <= k < i ==> f.ensures((&self@[k],), #[trigger] out@[k]),
			decreases self@.len() - i,
		{
			let y = f(&self[i]);
			out.push(y);
			i += 1;
		}
		out
	}

	fn ex_take_while_count<F: Fn(&T) -> bool>(&self, f: F, pred: Ghost<spec_fn(T) -> bool>) -> (r: usize)
	{
		let mut i: usize = 0;
		assert forall|k: int| 0 <= k < self@.len() implies f.requires((&#[trigger] self@[k],)) by { assert(self@[k] == self.ex_elems()[k]); }
		while i < self.len()
			invariant
				i <= self@.len(),
				forall|k: int| 0 <= k < self@.len() ==> f.requires((&#[trigger] self@[k],)),
				forall|x: T, b: bool| #[trigger] f.ensures((&x,), b) ==> b == (pred@)(x),
				forall|k: int| 0 <= k < i ==> (pred@)(#[trigger] self@[k]),
			decreases self@.len() - i,
		{
			if !f(&self[i]) { return i; }
			i += 1;
		}
		i
	}

	fn ex_filter_map_collect<U, F: Fn(&T) -> Option<U>>(&self, f: F, sel: Ghost<spec_fn(T) -> bool>, rel: Ghost<spec_fn(T, U) -> bool>) -> (r: Vec<U>)
	{
		let mut out: Vec<U> = Vec::new();
		let mut i: usize = 0;
		assert forall|k: int| 0 <= k < self@.len() implies f.requires((&#[trigger] self@[k],)) by { assert(self@[k] == self.ex_elems()[k]); }
		proof { lemma_ex_filter_take(self@, sel@, 0); }
		while i < self.len()
			invariant
				i <= self@.len(),
				forall|k: int| 0 <= k < self@.len() ==> f.requires((&#[trigger] self@[k],)),
				forall|x: T, o: Option<U>| #[trigger] f.ensures((&x,), o) ==> (o is Some <==> (sel@)(x)) && (o is Some ==> (rel@)(x, o->Some_0)),
				out@.len() == self@.take(i as int).filter(sel@).len(),
				forall|k: int| 0 <= k < out@.len() ==> (rel@)(self@.take(i as int).filter(sel@)[k], #[trigger] out@[k]),
			decreases self@.len() - i,
		{
			proof { lemma_ex_filter_take(self@, sel@, i as int + 1); }
			match f(&self[i])
			{
				Some(y) => { out.push(y); }
				None => {}
			}
			i += 1;
		}
		proof { assert(self@.take(i as int) =~= self@); }
		out
	}
}

// s[..n+1] filtered is s[..n] filtered, plus s[n] when it is selected
pub proof fn lemma_ex_filter_take<T>(s: Seq<T>, p: spec_fn(T) -> bool, n: int)
	requires 0 <= n <= s.len(),
	ensures
		n == 0 ==> s.take(n).filter(p).len() == 0,
		n > 0 ==> s.take(n).filter(p) == (if p(s[n - 1]) { s.take(n - 1).filter(p).push(s[n - 1]) } else { s.take(n - 1).filter(p) }),
{
	reveal(Seq::filter);
	if n > 0 {
		assert(s.take(n).drop_last() =~= s.take(n - 1));
		assert(s.take(n).last() == s[n - 1]);
	}
}
