// U-VARS prelude (trusted text; ASSUMED): the one std::collections::HashSet<u32> call of prepare_to_prune_at_goto that vstd does not
// specify.  WRAPPER whose body is the very std call it stands for (rule VR3 puts its name in place of `set.retain(closure)`).
// std: HashSet::retain "Retains only the elements specified by the predicate.  In other words, remove all elements e for which
// f(&e) returns false."  keep is the ghost predicate the closure computes (checked at the call site against the closure's `ensures`).
#[verifier::external_body]
pub fn vars_retain<F: FnMut(&u32) -> bool>(s: &mut std::collections::HashSet<u32>, f: F, Ghost(keep): Ghost<spec_fn(u32) -> bool>)
	requires
		forall|x: u32| #[trigger] f.requires((&x,)),
		forall|x: u32, b: bool| #[trigger] f.ensures((&x,), b) ==> b == keep(x),
	ensures
		forall|x: u32| #[trigger] final(s)@.contains(x) <==> old(s)@.contains(x) && keep(x),
{
	s.retain(f)
}
