// U-TYPAS: target of rule TS3 (VERIFIED; what is trusted is the restatement of `usize -> u8` try_into: Ok exactly when the value fits)
pub fn usize_to_u8_or(x: usize, d: u8) -> (r: u8)
	ensures r == (if x <= 255 { x as u8 } else { d }),
{
	if x <= 255 { x as u8 } else { d }
}
// analyze_assignment_steps only reads the typer (get_symbol) but takes it by `&mut`
