// U-EXPAND prelude, part 2 (trusted text; everything here is ASSUMED, not proved): std calls of `expander.rs::expand`.
// The ExVec / ExToString methods are WRAPPERS whose body is the very std call they stand for (rules EX3/EX5 put the wrapper's
// name in place of the std method's); HashSet is a model type (as Path/PathBuf in prelude/keyoff_path.rs).  Each `ensures` is
// the assumed meaning of the std call, taken from the std documentation.
// Closures are related to the ghost function they compute by `requires` (checked by Verus at the call site against the
// closure's own verified `ensures`).

// ---- std::collections::HashSet<T> (RandomState) -------------------------------------------------------------------------
// Trusted model: the mathematical set of its elements.  Sound for element types whose `Eq`/`Hash` are structural equality
// (here: T = (usize, usize)).  ITERATION ORDER IS ARBITRARY: `ex_into_vec` (= `self.into_iter().collect()`, what
// `for x in set` walks through) promises the elements, each exactly once, in SOME order - nothing relates that order to
// insertion order, to the values, or to another run.
#[verifier::external_body]
#[verifier::accept_recursive_types(T)]
pub struct HashSet<T> { _p: core::marker::PhantomData<T> }

impl<T> View for HashSet<T> {
	type V = Set<T>;
	uninterp spec fn view(&self) -> Set<T>;
}

impl<T> HashSet<T> {
	// std: "Creates an empty HashSet."
	#[verifier::external_body]
	pub fn new() -> (r: Self)
		ensures r@ == Set::<T>::empty(),
	{ unimplemented!() }

	// std: "Adds a value to the set.  Returns whether the value was newly inserted."
	#[verifier::external_body]
	pub fn insert(&mut self, value: T) -> (r: bool)
		ensures
			final(self)@ == old(self)@.insert(value),
			r == !old(self)@.contains(value),
	{ unimplemented!() }

	// std: "Retains only the elements specified by the predicate."
	#[verifier::external_body]
	pub fn ex_retain<F: FnMut(&T) -> bool>(&mut self, f: F, keep: Ghost<spec_fn(T) -> bool>)
		requires
			forall|x: T| #[trigger] f.requires((&x,)),
			forall|x: T, b: bool| #[trigger] f.ensures((&x,), b) ==> b == (keep@)(x),
		ensures
			final(self)@ == old(self)@.filter(keep@),
	{ unimplemented!() }

	// std: `impl IntoIterator for HashSet`: "visits all elements in arbitrary order"
	#[verifier::external_body]
	pub fn ex_into_vec(self) -> (r: Vec<T>)
		ensures
			r@.no_duplicates(),
			forall|x: T| #[trigger] r@.contains(x) <==> self@.contains(x),
	{ unimplemented!() }
}

// ---- Vec<T> / [T] methods that take closures, and splice ---------------------------------------------------------------------
// b is a[..] stably sorted by key: sorted, and for every key value the elements carrying it are the same, in the same order
// (std: "This sort is stable (i.e., does not reorder equal elements)").
pub open spec fn with_key<T>(key: spec_fn(T) -> int, c: int) -> spec_fn(T) -> bool { |x: T| key(x) == c }
#[verifier::opaque]
pub open spec fn sorted_by_key<T>(b: Seq<T>, key: spec_fn(T) -> int) -> bool {
	forall|i: int, j: int| 0 <= i <= j < b.len() ==> key(#[trigger] b[i]) <= key(#[trigger] b[j])
}
pub open spec fn stably_sorted_by_key<T>(a: Seq<T>, b: Seq<T>, key: spec_fn(T) -> int) -> bool {
	&&& b.len() == a.len()
	&&& sorted_by_key(b, key)
	&&& forall|c: int| #[trigger] b.filter(with_key(key, c)) == a.filter(with_key(key, c))
}
// (proved, not assumed) one instance of sortedness; the definition is opaque because its two-index quantifier is costly
pub proof fn lemma_sorted_pair<T>(b: Seq<T>, key: spec_fn(T) -> int, i: int, j: int)
	requires sorted_by_key(b, key), 0 <= i <= j < b.len(),
	ensures key(b[i]) <= key(b[j]),
{
	reveal(sorted_by_key);
}
// s is partitioned by p at m: p holds exactly on s[..m]
pub open spec fn partitioned_at<T>(s: Seq<T>, p: spec_fn(T) -> bool, m: int) -> bool {
	&&& 0 <= m <= s.len()
	&&& forall|i: int| 0 <= i < m ==> p(#[trigger] s[i])
	&&& forall|i: int| m <= i < s.len() ==> !p(#[trigger] s[i])
}

pub trait ExVec<T>: Sized {
	spec fn ex_view(&self) -> Seq<T>;

	// std `[T]::sort_by_key` (key type instantiated with the i32 of the call site): stable sort by the key
	fn ex_sort_by_key<F: FnMut(&T) -> i32>(&mut self, f: F, key: Ghost<spec_fn(T) -> int>)
		requires
			forall|x: T| #[trigger] f.requires((&x,)),
			forall|x: T, k: i32| #[trigger] f.ensures((&x,), k) ==> k as int == (key@)(x),
		ensures
			stably_sorted_by_key(old(self).ex_view(), final(self).ex_view(), key@);

	// std `[T]::partition_point`: "Returns the index of the partition point according to the given predicate (the index of
	// the first element of the second partition).  The slice is assumed to be partitioned according to the given predicate
	// ... If this slice is not partitioned, the returned result is unspecified and meaningless"
	fn ex_partition_point<F: FnMut(&T) -> bool>(&self, f: F, pred: Ghost<spec_fn(T) -> bool>) -> (r: usize)
		requires
			forall|x: T| #[trigger] f.requires((&x,)),
			forall|x: T, b: bool| #[trigger] f.ensures((&x,), b) ==> b == (pred@)(x),
		ensures
			r <= self.ex_view().len(),
			forall|m: int| #[trigger] partitioned_at(self.ex_view(), pred@, m) ==> r == m;

	// std `Vec::retain`: "Retains only the elements specified by the predicate ... This method operates in place,
	// visiting each element exactly once in the original order, and preserves the order of the retained elements."
	fn ex_retain<F: FnMut(&T) -> bool>(&mut self, f: F, keep: Ghost<spec_fn(T) -> bool>)
		requires
			forall|x: T| #[trigger] f.requires((&x,)),
			forall|x: T, b: bool| #[trigger] f.ensures((&x,), b) ==> b == (keep@)(x),
		ensures
			final(self).ex_view() == old(self).ex_view().filter(keep@);

	// std `Vec::splice(range, replace_with)` whose result is dropped at once: "Creates a splicing iterator that replaces the
	// specified range in the vector with the given replace_with iterator ... Panics if the starting point is greater than
	// the end point or if the end point is greater than the length of the vector."  (the replacement happens when the
	// Splice value is dropped, i.e. at the end of the statement)
	fn ex_splice(&mut self, range: core::ops::Range<usize>, replace_with: Vec<T>)
		requires
			range.start <= range.end <= old(self).ex_view().len(),
		ensures
			final(self).ex_view() == old(self).ex_view().subrange(0, range.start as int) + replace_with@
				+ old(self).ex_view().subrange(range.end as int, old(self).ex_view().len() as int);

	// std `Vec::drain(..)` consumed by `filter_map(f).collect()` (NOT used by the pinned code): "Removes the subslice indicated
	// by the given range from the vector, returning a double-ended iterator over the removed subslice" - the vector is left
	// empty, the result is as for ex_filter_map_collect (prelude/expand_slice.rs) with the elements passed by value
	fn ex_drain_filter_map_collect<U, F: FnMut(T) -> Option<U>>(&mut self, f: F, sel: Ghost<spec_fn(T) -> bool>, rel: Ghost<spec_fn(T, U) -> bool>) -> (r: Vec<U>)
		requires
			forall|x: T| #[trigger] f.requires((x,)),
			forall|x: T, o: Option<U>| #[trigger] f.ensures((x,), o) ==> (o is Some <==> (sel@)(x)) && (o is Some ==> (rel@)(x, o->Some_0)),
		ensures
			final(self).ex_view().len() == 0,
			r@.len() == old(self).ex_view().filter(sel@).len(),
			forall|k: int| 0 <= k < r@.len() ==> (rel@)(old(self).ex_view().filter(sel@)[k], #[trigger] r@[k]);
}

impl<T> ExVec<T> for Vec<T> {
	open spec fn ex_view(&self) -> Seq<T> { self@ }
	#[verifier::external_body]
	fn ex_sort_by_key<F: FnMut(&T) -> i32>(&mut self, f: F, key: Ghost<spec_fn(T) -> int>) { self.sort_by_key(f) }
	#[verifier::external_body]
	fn ex_partition_point<F: FnMut(&T) -> bool>(&self, f: F, pred: Ghost<spec_fn(T) -> bool>) -> (r: usize) { self.partition_point(f) }
	#[verifier::external_body]
	fn ex_retain<F: FnMut(&T) -> bool>(&mut self, f: F, keep: Ghost<spec_fn(T) -> bool>) { self.retain(f) }
	#[verifier::external_body]
	fn ex_splice(&mut self, range: core::ops::Range<usize>, replace_with: Vec<T>) { self.splice(range, replace_with); }
	#[verifier::external_body]
	fn ex_drain_filter_map_collect<U, F: FnMut(T) -> Option<U>>(&mut self, f: F, sel: Ghost<spec_fn(T) -> bool>, rel: Ghost<spec_fn(T, U) -> bool>) -> (r: Vec<U>) { self.drain(..).filter_map(f).collect() }
}

// ---- small std conversions ---------------------------------------------------------------------------------------------------
// std: `impl From<bool> for i32`: "false -> 0, true -> 1"
pub assume_specification[ <i32 as From<bool>>::from ](b: bool) -> (r: i32)
	ensures r == (if b { 1i32 } else { 0i32 });

// `x.to_string()` on a String / str: a copy of the text (rule EX5)
pub trait ExToString {
	spec fn ex_chars(&self) -> Seq<char>;
	fn ex_to_string(&self) -> (r: String)
		ensures r@ == self.ex_chars();
}
impl ExToString for String {
	open spec fn ex_chars(&self) -> Seq<char> { self@ }
	#[verifier::external_body]
	fn ex_to_string(&self) -> (r: String) { self.to_string() }
}
impl ExToString for str {
	open spec fn ex_chars(&self) -> Seq<char> { self@ }
	#[verifier::external_body]
	fn ex_to_string(&self) -> (r: String) { self.to_string() }
}

// std: `impl Clone for PathBuf` (on the abstract path model of prelude/keyoff_path.rs): the clone is the same path
impl Clone for PathBuf {
	#[verifier::external_body]
	fn clone(&self) -> (r: Self)
		ensures r@ == self@
	{ unimplemented!() }
}

// ---- expand_one (rule EX7) ---------------------------------------------------------------------------------------------------
// `s.parse().unwrap_or_default()` at type PathBuf: `impl FromStr for PathBuf` is infallible (`Ok(PathBuf::from(s))`), the
// result is the path spelled by s
#[verifier::external_body]
pub fn ex_parse_path_or_default(s: &str) -> (r: PathBuf)
	ensures r@ == path_of(s@),
{ unimplemented!() }
// `let [x] = a; x`
#[verifier::external_body]
pub fn ex_array1_into_inner<T>(a: [T; 1]) -> (r: T)
	ensures r == a@[0],
{ let [x] = a; x }
