// U-SCOPE helpers (VERIFIED, not assumed): the lazy iterator chains of variable_references.rs re-stated as loops.
// std: `filter`, `map`, `flat_map`, `skip` are lazy adapters; `find` pulls the elements of the underlying slice iterator
// one at a time, in order, through the adapters and stops at the first one for which its closure returns true.  The closures
// here are pure (they only read), so the only observable thing is WHICH element is returned: the first element, in slice
// order, that passes every stage.  Rule SC1 / SC3 of units/u_scope_rules.py put these helpers in place of the chains and
// keep every closure body verbatim.

// an element that `S.iter().filter(f).map(m).find(p)` has looked at and passed over
pub open spec fn scope_skipped_fm<'a, T, U: 'a, F: Fn(&&'a T) -> bool, M: Fn(&'a T) -> &'a U, P: Fn(&&'a U) -> bool>(x: &'a T, f: F, m: M, p: P) -> bool {
	f.ensures((&x,), false) || exists|z: &'a U| #[trigger] m.ensures((x,), z) && p.ensures((&z,), false)
}

// S.iter().filter(f).map(m).find(p)
pub fn scope_find_fm<'a, T, U: 'a, F: Fn(&&'a T) -> bool, M: Fn(&'a T) -> &'a U, P: Fn(&&'a U) -> bool>(s: &'a [T], f: F, m: M, p: P) -> (r: Option<&'a U>)
	requires
		forall|x: &'a T| f.requires((&x,)),
		forall|x: &'a T| m.requires((x,)),
		forall|y: &'a U| p.requires((&y,)),
	ensures match r {
		Some(y) => exists|j: int| 0 <= j < s@.len() && f.ensures((&&s@[j],), true) && m.ensures((&s@[j],), y) && p.ensures((&y,), true)
			&& forall|k: int| 0 <= k < j ==> scope_skipped_fm(&#[trigger] s@[k], f, m, p),
		None => forall|k: int| 0 <= k < s@.len() ==> scope_skipped_fm(&#[trigger] s@[k], f, m, p),
	}
{
	let mut i: usize = 0;
	while i < s.len()
		invariant i <= s@.len(),
			forall|x: &'a T| f.requires((&x,)), forall|x: &'a T| m.requires((x,)), forall|y: &'a U| p.requires((&y,)),
			forall|k: int| 0 <= k < i ==> scope_skipped_fm(&#[trigger] s@[k], f, m, p),
		decreases s@.len() - i,
	{
		let x = &s[i];
		if f(&x)
		{
			let y = m(x);
			if p(&y) { return Some(y); }
		}
		i += 1;
	}
	None
}

// S.iter().map(m).find(p)      (not in the pinned code: a change that drops the filter is JUDGED by the contracts, not rejected)
pub open spec fn scope_skipped_m<'a, T, U: 'a, M: Fn(&'a T) -> &'a U, P: Fn(&&'a U) -> bool>(x: &'a T, m: M, p: P) -> bool {
	exists|z: &'a U| #[trigger] m.ensures((x,), z) && p.ensures((&z,), false)
}
pub fn scope_find_m<'a, T, U: 'a, M: Fn(&'a T) -> &'a U, P: Fn(&&'a U) -> bool>(s: &'a [T], m: M, p: P) -> (r: Option<&'a U>)
	requires
		forall|x: &'a T| m.requires((x,)),
		forall|y: &'a U| p.requires((&y,)),
	ensures match r {
		Some(y) => exists|j: int| 0 <= j < s@.len() && m.ensures((&s@[j],), y) && p.ensures((&y,), true)
			&& forall|k: int| 0 <= k < j ==> scope_skipped_m(&#[trigger] s@[k], m, p),
		None => forall|k: int| 0 <= k < s@.len() ==> scope_skipped_m(&#[trigger] s@[k], m, p),
	}
{
	let mut i: usize = 0;
	while i < s.len()
		invariant i <= s@.len(),
			forall|x: &'a T| m.requires((x,)), forall|y: &'a U| p.requires((&y,)),
			forall|k: int| 0 <= k < i ==> scope_skipped_m(&#[trigger] s@[k], m, p),
		decreases s@.len() - i,
	{
		let y = m(&s[i]);
		if p(&y) { return Some(y); }
		i += 1;
	}
	None
}

// S.iter().filter(f).find(p)
pub fn scope_find_f<'a, T, F: Fn(&&'a T) -> bool, P: Fn(&&'a T) -> bool>(s: &'a [T], f: F, p: P) -> (r: Option<&'a T>)
	requires
		forall|x: &'a T| f.requires((&x,)),
		forall|x: &'a T| p.requires((&x,)),
	ensures match r {
		Some(x) => exists|j: int| 0 <= j < s@.len() && *x == s@[j] && f.ensures((&&s@[j],), true) && p.ensures((&&s@[j],), true)
			&& forall|k: int| 0 <= k < j ==> (f.ensures((&&#[trigger] s@[k],), false) || p.ensures((&&s@[k],), false)),
		None => forall|k: int| 0 <= k < s@.len() ==> (f.ensures((&&#[trigger] s@[k],), false) || p.ensures((&&s@[k],), false)),
	}
{
	let mut i: usize = 0;
	while i < s.len()
		invariant i <= s@.len(),
			forall|x: &'a T| f.requires((&x,)), forall|x: &'a T| p.requires((&x,)),
			forall|k: int| 0 <= k < i ==> (f.ensures((&&#[trigger] s@[k],), false) || p.ensures((&&s@[k],), false)),
		decreases s@.len() - i,
	{
		let x = &s[i];
		if f(&x) { if p(&x) { return Some(x); } }
		i += 1;
	}
	None
}

// S.iter().skip(n).flat_map(|layer| layer.iter()).find(p)   for a slice of vectors: the first element, layer by layer from
// layer n on (std: `skip(n)` drops the first n layers, or all of them when there are fewer), that satisfies p
pub fn scope_nested_find<'a, T, P: Fn(&&'a T) -> bool>(s: &'a [Vec<T>], n: usize, p: P) -> (r: Option<&'a T>)
	requires forall|x: &'a T| p.requires((&x,)),
	ensures match r {
		Some(x) => exists|i: int, j: int| n <= i < s@.len() && 0 <= j < s@[i]@.len() && *x == s@[i]@[j] && p.ensures((&&s@[i]@[j],), true)
			&& (forall|l: int| 0 <= l < j ==> p.ensures((&&#[trigger] s@[i]@[l],), false))
			&& (forall|k: int, l: int| n <= k < i && 0 <= l < s@[k]@.len() ==> p.ensures((&&#[trigger] s@[k]@[l],), false)),
		None => forall|k: int, l: int| n <= k < s@.len() && 0 <= l < s@[k]@.len() ==> p.ensures((&&#[trigger] s@[k]@[l],), false),
	}
{
	let mut i: usize = n;
	while i < s.len()
		invariant n <= i,
			forall|x: &'a T| p.requires((&x,)),
			forall|k: int, l: int| n <= k < i && k < s@.len() && 0 <= l < s@[k]@.len() ==> p.ensures((&&#[trigger] s@[k]@[l],), false),
		decreases s@.len() - i,
	{
		let layer = &s[i];
		let mut j: usize = 0;
		while j < layer.len()
			invariant j <= layer@.len(), n <= i < s@.len(), *layer == s@[i as int],
				forall|x: &'a T| p.requires((&x,)),
				forall|k: int, l: int| n <= k < i && 0 <= l < s@[k]@.len() ==> p.ensures((&&#[trigger] s@[k]@[l],), false),
				forall|l: int| 0 <= l < j ==> p.ensures((&&#[trigger] s@[i as int]@[l],), false),
			decreases layer@.len() - j,
		{
			let x = &layer[j];
			if p(&x)
			{
				assert(*x == s@[i as int]@[j as int] && p.ensures((&&s@[i as int]@[j as int],), true));
				return Some(x);
			}
			j += 1;
		}
		i += 1;
	}
	None
}
