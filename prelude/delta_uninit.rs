// Trusted model of the unsafe buffer API (std documentation's safety contract; DESIGN.md 2.4):
// cell state through vstd's MaybeUninit model.
// (vstd models MaybeUninit<T> by `mem_contents()`: Init(v) or Uninit, and specifies new/uninit/assume_init*; not `write`)
pub open spec fn mu_val<T>(m: MaybeUninit<T>) -> Option<T> {
	if m.mem_contents().is_init() { Some(m.mem_contents().value()) } else { None }
}
pub assume_specification<T>[ MaybeUninit::<T>::write ](m: &mut MaybeUninit<T>, v: T) -> (r: &mut T)
	ensures final(m).mem_contents() == vstd::raw_ptr::MemContents::Init(v);

pub uninterp spec fn vec_cap<T, A: core::alloc::Allocator>(v: Vec<T, A>) -> nat;
pub uninterp spec fn vec_spare<T, A: core::alloc::Allocator>(v: Vec<T, A>) -> Seq<MaybeUninit<T>>;
pub assume_specification<T, A: core::alloc::Allocator>[ Vec::<T, A>::capacity ](v: &Vec<T, A>) -> (r: usize)
	ensures r == vec_cap(*v), r >= v@.len();
pub assume_specification<T, A: core::alloc::Allocator>[ Vec::<T, A>::spare_capacity_mut ](v: &mut Vec<T, A>) -> (r: &mut [MaybeUninit<T>])
	ensures r@ == vec_spare(*old(v)), r@.len() == vec_cap(*old(v)) - old(v)@.len(),
		final(v)@ == old(v)@, vec_cap(*final(v)) == vec_cap(*old(v)), vec_spare(*final(v)) == final(r)@;
// set_len: the std safety contract - new_len <= capacity and the first new_len cells are initialised
pub assume_specification<T, A: core::alloc::Allocator>[ Vec::<T, A>::set_len ](v: &mut Vec<T, A>, n: usize)
	requires n <= vec_cap(*old(v)), old(v)@.len() == 0,
		forall|i: int| 0 <= i < n ==> mu_val(vec_spare(*old(v))[i]).is_some(),
	ensures final(v)@.len() == n, vec_cap(*final(v)) == vec_cap(*old(v)),
		forall|i: int| 0 <= i < n ==> Some(#[trigger] final(v)@[i]) == mu_val(vec_spare(*old(v))[i]);
// R19 target: Vec::with_capacity with the capacity made visible (ASSUMED exactly n, see DESIGN.md section 6 item 3)
#[verifier::external_body]
pub fn vec_with_capacity<T>(n: usize) -> (v: Vec<T>)
	ensures v@.len() == 0, vec_cap(v) == n
{ Vec::with_capacity(n) }
pub assume_specification<T, A: core::alloc::Allocator>[ Vec::<T, A>::shrink_to_fit ](v: &mut Vec<T, A>)
	ensures final(v)@ == old(v)@;
// R23 target: push that is known not to reallocate (len < capacity): capacity unchanged (std guarantee; vstd's push spec is silent)
#[verifier::external_body]
pub fn vec_push_within_capacity<T>(v: &mut Vec<T>, x: T)
	requires old(v)@.len() < vec_cap(*old(v))
	ensures final(v)@ == old(v)@.push(x), vec_cap(*final(v)) == vec_cap(*old(v))
{ v.push(x) }
