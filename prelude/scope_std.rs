// U-SCOPE prelude (trusted text).
// std::collections::HashMap / HashSet with u32 keys: vstd's model (specs of vstd, not ours); the unit only creates an empty
// HashSet (Default::default, specified by vstd) and moves the maps around.
// std: Option::flatten "Converts from Option<Option<T>> to Option<T>": Some(Some(x)) -> Some(x), Some(None) -> None, None -> None
pub assume_specification<T>[Option::<Option<T>>::flatten](o: Option<Option<T>>) -> (r: Option<T>)
	ensures r == (match o { Some(p) => p, None => None });
