// U-RESNODE prelude, part 3: how the RECURSIVE impls `Resolvable for Statement` / `for Else` are put under contract although
// Verus rejects recursion through generic trait impls ("cyclic self-reference": the impl for Statement uses the impl for
// Box<Statement>, whose bound is satisfied by the impl for Statement).
//
// ASSUME / GUARANTEE BY STRUCTURAL INDUCTION.  `trait RecResolvable` is a MIRROR of `trait Resolvable` (same contract, methods
// prefixed rec_); the generic combinators are emitted a second time from the same sliced text under the mirror names and
// VERIFIED again (units/u_resnode.py).  Inside the bodies of the two recursive impls rule RN3 spells `.resolve()` as
// `.rec_resolve()`.  The mirror impl for `Statement` below is the INDUCTION HYPOTHESIS: it is ASSUMED to meet the contract with
// respect to the free, structurally recursive spec functions stmt_* (spec/u_resnode_spec.rs); the REAL impl is then PROVED to meet
// the same contract with respect to the same functions.  A recursive call only ever receives a proper part of `self` (a boxed
// branch, an element of the block's vector), so by induction on the tree the real impl meets the contract for every statement.
// What this does NOT establish is termination of `resolve` itself (obvious for a finite tree, not checked).
// For the non-recursive node types the mirror impl is a VERIFIED forwarder to the real impl.
impl RecResolvable for Statement
{
	type Item = resolved::Statement;
	open spec fn rec_pre(self) -> bool { stmt_pre(self) }
	open spec fn rec_errs(self) -> Seq<Error> { stmt_errs(self) }
	open spec fn rec_poisoned(self) -> bool { stmt_poisoned(self) }
	open spec fn rec_resolves_to(self, x: Self::Item) -> bool { stmt_resolves_to(self, x) }
	#[verifier::external_body]
	fn rec_resolve(self) -> (r: Result<Self::Item, Errors>) { unimplemented!() }
}
impl RecResolvable for Else
{
	type Item = Box<resolved::Statement>;
	open spec fn rec_pre(self) -> bool { stmt_pre(*self.branch) }
	open spec fn rec_errs(self) -> Seq<Error> { stmt_errs(*self.branch) }
	open spec fn rec_poisoned(self) -> bool { stmt_poisoned(*self.branch) }
	open spec fn rec_resolves_to(self, x: Self::Item) -> bool { stmt_resolves_to(*self.branch, *x) }
	fn rec_resolve(self) -> (r: Result<Self::Item, Errors>) { Resolvable::resolve(self) }
}
impl RecResolvable for Identifier
{
	type Item = <Identifier as Resolvable>::Item;
	open spec fn rec_pre(self) -> bool { Resolvable::pre(self) }
	open spec fn rec_errs(self) -> Seq<Error> { Resolvable::errs(self) }
	open spec fn rec_poisoned(self) -> bool { Resolvable::poisoned(self) }
	open spec fn rec_resolves_to(self, x: Self::Item) -> bool { Resolvable::resolves_to(self, x) }
	fn rec_resolve(self) -> (r: Result<Self::Item, Errors>) { Resolvable::resolve(self) }
}
impl RecResolvable for ValueType
{
	type Item = <ValueType as Resolvable>::Item;
	open spec fn rec_pre(self) -> bool { Resolvable::pre(self) }
	open spec fn rec_errs(self) -> Seq<Error> { Resolvable::errs(self) }
	open spec fn rec_poisoned(self) -> bool { Resolvable::poisoned(self) }
	open spec fn rec_resolves_to(self, x: Self::Item) -> bool { Resolvable::resolves_to(self, x) }
	fn rec_resolve(self) -> (r: Result<Self::Item, Errors>) { Resolvable::resolve(self) }
}
impl RecResolvable for Expression
{
	type Item = <Expression as Resolvable>::Item;
	open spec fn rec_pre(self) -> bool { Resolvable::pre(self) }
	open spec fn rec_errs(self) -> Seq<Error> { Resolvable::errs(self) }
	open spec fn rec_poisoned(self) -> bool { Resolvable::poisoned(self) }
	open spec fn rec_resolves_to(self, x: Self::Item) -> bool { Resolvable::resolves_to(self, x) }
	fn rec_resolve(self) -> (r: Result<Self::Item, Errors>) { Resolvable::resolve(self) }
}
impl RecResolvable for Reference
{
	type Item = <Reference as Resolvable>::Item;
	open spec fn rec_pre(self) -> bool { Resolvable::pre(self) }
	open spec fn rec_errs(self) -> Seq<Error> { Resolvable::errs(self) }
	open spec fn rec_poisoned(self) -> bool { Resolvable::poisoned(self) }
	open spec fn rec_resolves_to(self, x: Self::Item) -> bool { Resolvable::resolves_to(self, x) }
	fn rec_resolve(self) -> (r: Result<Self::Item, Errors>) { Resolvable::resolve(self) }
}
impl RecResolvable for Comparison
{
	type Item = <Comparison as Resolvable>::Item;
	open spec fn rec_pre(self) -> bool { Resolvable::pre(self) }
	open spec fn rec_errs(self) -> Seq<Error> { Resolvable::errs(self) }
	open spec fn rec_poisoned(self) -> bool { Resolvable::poisoned(self) }
	open spec fn rec_resolves_to(self, x: Self::Item) -> bool { Resolvable::resolves_to(self, x) }
	fn rec_resolve(self) -> (r: Result<Self::Item, Errors>) { Resolvable::resolve(self) }
}
