// U-RESNODE prelude, part 3: how the RECURSIVE impls `Resolvable for Statement` / `for Else` are put under contract although
// Verus rejects recursion through generic trait impls ("cyclic self-reference": the impl for Statement uses the impl for
// Box<Statement>, whose bound is satisfied by the impl for Statement).
//
// ASSUME / GUARANTEE BY STRUCTURAL INDUCTION.  `trait RecResolvable` is a MIRROR of `trait Resolvable` (same contract, methods
// prefixed rec_); the generic combinators are emitted a second time from the same sliced text under the mirror names and
// VERIFIED again (units/u_resnode.py).  Inside the bodies of the two recursive impls rule RN3 spells `.resolve()` as
// `.rec_resolve()`.  The mirror impl for `Statement` below is the INDUCTION HYPOTHESIS: it is ASSUMED to meet the contract with
// respect to the free, structurally recursive spec functions stmt_* (spec/u_resnode_spec.rs); the REAL impl is then PROVED to meet
// the same contract with respect to the same functions.  A recursive call only ever receives a proper part of `self` (a boxed
// branch, an element of the block's vector), so by induction on the tree the real impl meets the contract for every statement.
// What this does NOT establish is termination of `resolve` itself (obvious for a finite tree, not checked).
// For the non-recursive node types the mirror impl is a VERIFIED forwarder to the real impl.
impl RecResolvable for Statement
{
	type Item = resolved::Statement;
	open spec fn rec_pre(self) -> bool { stmt_pre(self) }
	open spec fn rec_errs(self) -> Seq<Error> { stmt_errs(self) }
	open spec fn rec_poisoned(self) -> bool { stmt_poisoned(self) }
	open spec fn rec_resolves_to(self, x: Self::Item) -> bool { stmt_resolves_to(self, x) }
	#[verifier::external_body]
	fn rec_resolve(self) -> (r: Result<Self::Item, Errors>) { unimplemented!() }
}
impl RecResolvable for Else
{
	type Item = Box<resolved::Statement>;
	open spec fn rec_pre(self) -> bool { stmt_pre(*self.branch) }
	open spec fn rec_errs(self) -> Seq<Error> { stmt_errs(*self.branch) }
	open spec fn rec_poisoned(self) -> bool { stmt_poisoned(*self.branch) }
	open spec fn rec_resolves_to(self, x: Self::Item) -> bool { stmt_resolves_to(*self.branch, *x) }
	fn rec_resolve(self) -> (r: Result<Self::Item, Errors>)
	{
		// (ghost) the four definitions above, said once: Verus does not reliably unfold them by itself when two traits of the
		// same shape are in the file
		proof {
			assert(self.rec_pre() == Resolvable::pre(self));
			assert(self.rec_errs() == Resolvable::errs(self));
			assert(self.rec_poisoned() == Resolvable::poisoned(self));
			assert forall|x: Self::Item| self.rec_resolves_to(x) == Resolvable::resolves_to(self, x) by { }
		}
		Resolvable::resolve(self)
	}
}
impl RecResolvable for Identifier
{
	type Item = resolved::Identifier;
	open spec fn rec_pre(self) -> bool { Resolvable::pre(self) }
	open spec fn rec_errs(self) -> Seq<Error> { Resolvable::errs(self) }
	open spec fn rec_poisoned(self) -> bool { Resolvable::poisoned(self) }
	open spec fn rec_resolves_to(self, x: Self::Item) -> bool { Resolvable::resolves_to(self, x) }
	fn rec_resolve(self) -> (r: Result<Self::Item, Errors>)
	{
		// (ghost) the four definitions above, said once: Verus does not reliably unfold them by itself when two traits of the
		// same shape are in the file
		proof {
			assert(self.rec_pre() == Resolvable::pre(self));
			assert(self.rec_errs() == Resolvable::errs(self));
			assert(self.rec_poisoned() == Resolvable::poisoned(self));
			assert forall|x: Self::Item| self.rec_resolves_to(x) == Resolvable::resolves_to(self, x) by { }
		}
		Resolvable::resolve(self)
	}
}
// induction hypothesis for the self-recursive `Resolvable for ValueType` (recursion through Box<ValueType>), as for Statement
impl RecResolvable for ValueType
{
	type Item = resolved::ValueType;
	open spec fn rec_pre(self) -> bool { vt_pre(self) }
	open spec fn rec_errs(self) -> Seq<Error> { Seq::empty() }
	open spec fn rec_poisoned(self) -> bool { false }
	open spec fn rec_resolves_to(self, x: Self::Item) -> bool { vt_resolves_to(self, x) }
	#[verifier::external_body]
	fn rec_resolve(self) -> (r: Result<Self::Item, Errors>) { unimplemented!() }
}
// induction hypothesis for the Expression cluster (Expression <-> Box / Vec<Expression>, Reference -> ReferenceStep -> Expression,
// MemberExpression -> Expression).  The three other impls of the cluster are REAL and reach an expression only through this mirror.
impl RecResolvable for Expression
{
	type Item = resolved::Expression;
	open spec fn rec_pre(self) -> bool { expr_pre(self) }
	open spec fn rec_errs(self) -> Seq<Error> { expr_errs(self) }
	open spec fn rec_poisoned(self) -> bool { expr_poisoned(self) }
	open spec fn rec_resolves_to(self, x: Self::Item) -> bool { true }
	#[verifier::external_body]
	fn rec_resolve(self) -> (r: Result<Self::Item, Errors>) { unimplemented!() }
}
impl RecResolvable for Reference
{
	type Item = resolved::Reference;
	open spec fn rec_pre(self) -> bool { Resolvable::pre(self) }
	open spec fn rec_errs(self) -> Seq<Error> { Resolvable::errs(self) }
	open spec fn rec_poisoned(self) -> bool { Resolvable::poisoned(self) }
	open spec fn rec_resolves_to(self, x: Self::Item) -> bool { Resolvable::resolves_to(self, x) }
	fn rec_resolve(self) -> (r: Result<Self::Item, Errors>)
	{
		// (ghost) the four definitions above, said once: Verus does not reliably unfold them by itself when two traits of the
		// same shape are in the file
		proof {
			assert(self.rec_pre() == Resolvable::pre(self));
			assert(self.rec_errs() == Resolvable::errs(self));
			assert(self.rec_poisoned() == Resolvable::poisoned(self));
			assert forall|x: Self::Item| self.rec_resolves_to(x) == Resolvable::resolves_to(self, x) by { }
		}
		Resolvable::resolve(self)
	}
}
impl RecResolvable for ReferenceStep
{
	type Item = resolved::ReferenceStep;
	open spec fn rec_pre(self) -> bool { Resolvable::pre(self) }
	open spec fn rec_errs(self) -> Seq<Error> { Resolvable::errs(self) }
	open spec fn rec_poisoned(self) -> bool { Resolvable::poisoned(self) }
	open spec fn rec_resolves_to(self, x: Self::Item) -> bool { Resolvable::resolves_to(self, x) }
	fn rec_resolve(self) -> (r: Result<Self::Item, Errors>)
	{
		// (ghost) the four definitions above, said once: Verus does not reliably unfold them by itself when two traits of the
		// same shape are in the file
		proof {
			assert(self.rec_pre() == Resolvable::pre(self));
			assert(self.rec_errs() == Resolvable::errs(self));
			assert(self.rec_poisoned() == Resolvable::poisoned(self));
			assert forall|x: Self::Item| self.rec_resolves_to(x) == Resolvable::resolves_to(self, x) by { }
		}
		Resolvable::resolve(self)
	}
}
impl RecResolvable for MemberExpression
{
	type Item = resolved::MemberExpression;
	open spec fn rec_pre(self) -> bool { Resolvable::pre(self) }
	open spec fn rec_errs(self) -> Seq<Error> { Resolvable::errs(self) }
	open spec fn rec_poisoned(self) -> bool { Resolvable::poisoned(self) }
	open spec fn rec_resolves_to(self, x: Self::Item) -> bool { Resolvable::resolves_to(self, x) }
	fn rec_resolve(self) -> (r: Result<Self::Item, Errors>)
	{
		// (ghost) the four definitions above, said once: Verus does not reliably unfold them by itself when two traits of the
		// same shape are in the file
		proof {
			assert(self.rec_pre() == Resolvable::pre(self));
			assert(self.rec_errs() == Resolvable::errs(self));
			assert(self.rec_poisoned() == Resolvable::poisoned(self));
			assert forall|x: Self::Item| self.rec_resolves_to(x) == Resolvable::resolves_to(self, x) by { }
		}
		Resolvable::resolve(self)
	}
}
impl RecResolvable for Comparison
{
	type Item = resolved::Comparison;
	open spec fn rec_pre(self) -> bool { Resolvable::pre(self) }
	open spec fn rec_errs(self) -> Seq<Error> { Resolvable::errs(self) }
	open spec fn rec_poisoned(self) -> bool { Resolvable::poisoned(self) }
	open spec fn rec_resolves_to(self, x: Self::Item) -> bool { Resolvable::resolves_to(self, x) }
	fn rec_resolve(self) -> (r: Result<Self::Item, Errors>)
	{
		// (ghost) the four definitions above, said once: Verus does not reliably unfold them by itself when two traits of the
		// same shape are in the file
		proof {
			assert(self.rec_pre() == Resolvable::pre(self));
			assert(self.rec_errs() == Resolvable::errs(self));
			assert(self.rec_poisoned() == Resolvable::poisoned(self));
			assert forall|x: Self::Item| self.rec_resolves_to(x) == Resolvable::resolves_to(self, x) by { }
		}
		Resolvable::resolve(self)
	}
}
