// U-PSPAN prelude (trusted text; ASSUMED, not proved): the parser functions outside the unit that the functions under contract call.
// Their RESULTS are unconstrained; assumed is what the uniform contract of spec/u_pspan_spec.rs says of every parse function:
// they take at least one token off a well-formed cursor on success, leave the cursor well formed, and locate their errors inside
// the lexed text.  (parse_wellformed_type: the type layer; its callers locate the type themselves with location_of_span.)
#[verifier::external_body]
pub fn parse_wellformed_type(tokens: &mut Tokens) -> (r: Result<ValueType, Error>)
	requires stream_wf(*old(tokens)),
	ensures stream_wf(*final(tokens)),
		r is Ok ==> took(*old(tokens), *final(tokens), 1),
		r is Err ==> err_at(*old(tokens), r->Err_0),
{ unimplemented!() }
