// U-PSPAN prelude (trusted text): ValueType::is_wellformed (src/alpha/value_type.rs, under contract in U-VT) is called by
// parse_wellformed_type; the span bookkeeping does not depend on its result, which is left UNCONSTRAINED here (opaque stand-in).
impl<I: value_type::Identifier> value_type::ValueType<I> {
	#[verifier::external_body]
	pub fn is_wellformed(&self) -> bool { unimplemented!() }
}
