// U-ACC prelude (2/2): opaque stand-ins for what the accumulation of diagnostics never looks into, and the one std fact
// about `str` that vstd lacks.  Errors / Location / comparison_key / combine / accumulate are NOT here: they are sliced.
use vstd::std_specs::cmp::OrdSpec;

// resolved::Declaration (src/alpha/resolved.rs): the output of the resolver; combine/accumulate only move it into a Vec
pub mod resolved { use vstd::prelude::*; #[verifier::external_body] pub struct Declaration { _p: u8 } }

// error::Error (src/alpha/error.rs, an enum of ~70 variants): opaque.  The unit needs two projections of a diagnostic:
// its numeric code and its PRIMARY location.  Both are uninterpreted: WHICH code / location a variant has is the business
// of U-CODE (docs/errors.md table) and of the 150-line `match` of `Error::location`, not of the order contract.
#[verifier::external_body] pub struct Error { _p: u8 }
pub uninterp spec fn err_code(e: Error) -> u16;
pub uninterp spec fn err_loc(e: Error) -> Location;
impl Error {
	// trusted stand-in for error.rs `impl Error :: fn code` (a `match` returning a literal per variant): a function of the error
	#[verifier::external_body] pub fn code(&self) -> (r: u16) ensures r == err_code(*self) { unimplemented!() }
	// trusted stand-in for error.rs `impl Error :: fn location` (a `match` returning a field per variant): a function of the error
	#[verifier::external_body] pub fn location(&self) -> (r: &Location) ensures *r == err_loc(*self) { unimplemented!() }
}

// Assumed std fact (trusted): `impl Ord for str` ("Strings are ordered lexicographically by their byte values") is a total
// order on string VALUES.  Only the order laws are assumed; str_cmp itself stays uninterpreted.  vstd specifies `Ord::cmp`
// for tuples / references / usize through OrdSpec (lexicographic, open) but gives `str` no OrdSpec; an OrdSpecImpl for a
// foreign type cannot be written here (orphan rule), hence an axiom about `<str as OrdSpec>`.
pub uninterp spec fn str_cmp(a: Seq<char>, b: Seq<char>) -> Ordering;
#[verifier::external_body] pub proof fn axiom_str_ord()  // trusted: std `impl Ord for str` is a total order on values
	ensures
		<str as OrdSpec>::obeys_cmp_spec(),
		forall|a: &str, b: &str| #[trigger] OrdSpec::cmp_spec(a, b) == str_cmp(a@, b@),
		forall|a: Seq<char>| #[trigger] str_cmp(a, a) == Ordering::Equal,
		forall|a: Seq<char>, b: Seq<char>| (#[trigger] str_cmp(a, b) == Ordering::Equal) ==> a == b,
		forall|a: Seq<char>, b: Seq<char>| (#[trigger] str_cmp(a, b) == Ordering::Less) <==> (str_cmp(b, a) == Ordering::Greater),
		forall|a: Seq<char>, b: Seq<char>, c: Seq<char>| #[trigger] str_cmp(a, b) != Ordering::Greater && #[trigger] str_cmp(b, c) != Ordering::Greater
			==> str_cmp(a, c) != Ordering::Greater,
{}
