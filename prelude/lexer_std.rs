// Assumed std specs used by the delta lexer (finite-domain ones are validated exhaustively against the real
// library by the rule-validation harness in the thorough tier).
pub assume_specification[ u8::is_ascii_graphic ](x: &u8) -> (r: bool)
	ensures r == (0x21 <= *x <= 0x7e);
pub assume_specification[ u8::is_ascii ](x: &u8) -> (r: bool)
	ensures r == (*x <= 0x7f);
pub assume_specification<T>[ bool::then_some ](b: bool, t: T) -> (r: Option<T>)
	ensures r == (if b { Some(t) } else { None::<T> });
pub open spec fn is_scalar(x: u32) -> bool { x < 0xD800 || (0xE000 <= x && x <= 0x10FFFF) }
pub assume_specification[ char::from_u32 ](x: u32) -> (r: Option<char>)
	ensures r.is_some() == is_scalar(x);
