// U-KEYOFF prelude (trusted text; everything here is ASSUMED, not proved).
//
// Abstract model of `std::path::{Path, PathBuf}` for `expander.rs::get_key_offset`.  The unit never looks into a path:
// it builds one from a string, takes a parent, joins two and compares.  So a path is an OPAQUE value; what std computes
// is named by UNINTERPRETED functions of that value (nothing is assumed about them beyond being functions, i.e.
// deterministic):
//     path_of(s)      `Path::new(s)`          the path spelled by the string s
//     parent_of(p)    `Path::parent`          the path without its final component, if there is one
//     joined(p, q)    `Path::join`            q appended to p (q itself when q is absolute)
//     ends_with(p, q) `Path::ends_with`       q is a component-wise suffix of p   (NOT called by the pinned code:
//                                             declared so that a change to a suffix test type-checks and is judged by
//                                             the contract; it is a relation DISTINCT from equality)
//     starts_with(p, q) `Path::starts_with`   likewise
// `==` between paths is equality of the abstract value (std: `Path == Path` compares the component sequences, and the
// abstract value IS what is compared; PathBuf == Path, PathBuf == PathBuf, &A == &B all defer to it).
// `Path` is an unsized type in std and only ever used behind `&`; here it is an opaque sized struct, which makes no
// difference to code that only handles `&Path`.  The generic parameters of the std signatures (`S: AsRef<OsStr>`,
// `P: AsRef<Path>`) are instantiated with the types of the actual call sites (`&str`, `&Path`, `&PathBuf`).
#[verifier::external_body] pub struct Path { _p: u8 }
#[verifier::external_body] pub struct PathBuf { _p: u8 }

pub uninterp spec fn path_of(s: Seq<char>) -> Path;
pub uninterp spec fn parent_of(p: Path) -> Option<Path>;
pub uninterp spec fn joined(p: Path, q: Path) -> Path;
pub uninterp spec fn ends_with(p: Path, q: Path) -> bool;
pub uninterp spec fn starts_with(p: Path, q: Path) -> bool;

// the abstract value of an owned path
impl View for PathBuf {
	type V = Path;
	uninterp spec fn view(&self) -> Path;
}

// `P: AsRef<Path>` of std, for the argument types that occur (or could occur after a small edit) at the call sites
pub trait AsRefPath: Sized {
	spec fn path_val(self) -> Path;
}
impl<'a> AsRefPath for &'a Path { open spec fn path_val(self) -> Path { *self } }
impl<'a> AsRefPath for &'a PathBuf { open spec fn path_val(self) -> Path { self@ } }

impl Path {
	// std: `pub fn new<S: AsRef<OsStr> + ?Sized>(s: &S) -> &Path` "Directly wraps a string slice as a Path slice."
	#[verifier::external_body]
	pub fn new(s: &str) -> (r: &Path)
		ensures *r == path_of(s@),
	{ unimplemented!() }

	// std: "Returns the Path without its final component, if there is one."  No effect.
	#[verifier::external_body]
	pub fn parent(&self) -> (r: Option<&Path>)
		ensures
			r is Some <==> parent_of(*self) is Some,
			r is Some ==> *r->Some_0 == parent_of(*self)->Some_0,
	{ unimplemented!() }

	// std: `pub fn join<P: AsRef<Path>>(&self, path: P) -> PathBuf` "Creates an owned PathBuf with path adjoined to self."
	#[verifier::external_body]
	pub fn join<P: AsRefPath>(&self, path: P) -> (r: PathBuf)
		ensures r@ == joined(*self, path.path_val()),
	{ unimplemented!() }

	#[verifier::external_body]
	pub fn ends_with<P: AsRefPath>(&self, child: P) -> (r: bool)
		ensures r == ends_with(*self, child.path_val()),
	{ unimplemented!() }

	#[verifier::external_body]
	pub fn starts_with<P: AsRefPath>(&self, base: P) -> (r: bool)
		ensures r == starts_with(*self, base.path_val()),
	{ unimplemented!() }
}

// PathBuf derefs to Path in std; the methods reachable through that deref are restated on the abstract value
impl PathBuf {
	#[verifier::external_body]
	pub fn ends_with<P: AsRefPath>(&self, child: P) -> (r: bool)
		ensures r == ends_with(self@, child.path_val()),
	{ unimplemented!() }

	#[verifier::external_body]
	pub fn starts_with<P: AsRefPath>(&self, base: P) -> (r: bool)
		ensures r == starts_with(self@, base.path_val()),
	{ unimplemented!() }

	#[verifier::external_body]
	pub fn as_path(&self) -> (r: &Path)
		ensures *r == self@,
	{ unimplemented!() }
}

// equality: std implements PartialEq for every pairing of Path / PathBuf (impl_cmp!), all by comparing components
impl vstd::std_specs::cmp::PartialEqSpecImpl for Path {
	open spec fn obeys_eq_spec() -> bool { true }
	open spec fn eq_spec(&self, o: &Path) -> bool { *self == *o }
}
impl PartialEq for Path { #[verifier::external_body] fn eq(&self, o: &Path) -> (r: bool) { unimplemented!() } }

impl vstd::std_specs::cmp::PartialEqSpecImpl for PathBuf {
	open spec fn obeys_eq_spec() -> bool { true }
	open spec fn eq_spec(&self, o: &PathBuf) -> bool { self@ == o@ }
}
impl PartialEq for PathBuf { #[verifier::external_body] fn eq(&self, o: &PathBuf) -> (r: bool) { unimplemented!() } }

impl vstd::std_specs::cmp::PartialEqSpecImpl<Path> for PathBuf {
	open spec fn obeys_eq_spec() -> bool { true }
	open spec fn eq_spec(&self, o: &Path) -> bool { self@ == *o }
}
impl PartialEq<Path> for PathBuf { #[verifier::external_body] fn eq(&self, o: &Path) -> (r: bool) { unimplemented!() } }

impl vstd::std_specs::cmp::PartialEqSpecImpl<PathBuf> for Path {
	open spec fn obeys_eq_spec() -> bool { true }
	open spec fn eq_spec(&self, o: &PathBuf) -> bool { *self == o@ }
}
impl PartialEq<PathBuf> for Path { #[verifier::external_body] fn eq(&self, o: &PathBuf) -> (r: bool) { unimplemented!() } }
