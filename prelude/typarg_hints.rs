// U-TYPARG: target of rules TA1 / TA2 (VERIFIED shim, the restatement is what is trusted): the stream of parameter hints that
// feeds Typer::analyze_hinted_arguments.  The typer builds it in exactly two ways:
//   parameter_types.into_iter().chain(std::iter::repeat(Err(Poison::Poisoned))).map(Some)    the declared parameter types, then
//                                                                                            the silent poison for every excess argument
//   std::iter::repeat(None)                                                                   no hint at all
// std: chain "first iterates over the first iterator, then over the second"; repeat "endlessly repeats a single element" (by clone);
// map(Some) wraps every item.  The stream never ends.
pub struct HintIter {
	pub head: Vec<Poisonable<ValueType>>,
	pub pos: usize,
	pub rest: Option<Poisonable<ValueType>>,
}
pub struct Hints { pub head: Seq<Poisonable<ValueType>>, pub rest: Option<Poisonable<ValueType>> }
pub open spec fn hint(h: Hints, k: int) -> Option<Poisonable<ValueType>> {
	if 0 <= k < h.head.len() { Some(h.head[k]) } else { h.rest }
}
impl HintIter {
	pub open spec fn wf(self) -> bool { self.pos <= self.head@.len() }
	pub open spec fn view(self) -> Hints { Hints { head: self.head@.subrange(self.pos as int, self.head@.len() as int), rest: self.rest } }
	pub fn chain_repeat_some(types: Vec<Poisonable<ValueType>>, rest: Poisonable<ValueType>) -> (r: Self)
		ensures r.wf(), r@ == (Hints { head: types@, rest: Some(rest) }),
	{
		let r = HintIter { head: types, pos: 0, rest: Some(rest) };
		assert(r.head@.subrange(0, r.head@.len() as int) =~= r.head@);
		r
	}
	pub fn repeat(x: Option<Poisonable<ValueType>>) -> (r: Self)
		ensures r.wf(), r@ == (Hints { head: Seq::<Poisonable<ValueType>>::empty(), rest: x }),
	{
		let r = HintIter { head: Vec::new(), pos: 0, rest: x };
		assert(r.head@.subrange(0, 0) =~= Seq::<Poisonable<ValueType>>::empty());
		r
	}
	// the next hint; the stream that is left is the old one shifted by one
	pub fn next(&mut self) -> (r: Option<Option<Poisonable<ValueType>>>)
		requires old(self).wf(),
		ensures final(self).wf(), r == Some(hint(old(self)@, 0)),
			forall|k: int| k >= 0 ==> hint(final(self)@, k) == hint(old(self)@, k + 1),
	{
		if self.pos < self.head.len() {
			let h = self.head[self.pos].clone();
			self.pos = self.pos + 1;
			Some(Some(h))
		} else {
			Some(self.rest.clone())
		}
	}
}
