// U-LINT: opaque stand-ins for types the linter unit never looks into (DESIGN.md 2.2 item 4).
// Differs from prelude/ast_opaque.rs: Comparison, Expression, Reference and ValueType are NOT opaque here
// (the real definitions are sliced from common.rs / value_type.rs by units/u_lint.py).
broadcast use vstd::std_specs::vec::axiom_vec_index_decreases;
#[verifier::external_body] pub struct Location { _p: u8 }
impl Clone for Location { #[verifier::external_body] fn clone(&self) -> (r: Self) ensures r == *self { unimplemented!() } }
// lexer::Location derives PartialEq; needed only because the sliced `impl PartialEq for Identifier` mentions it (never called here)
impl PartialEq for Location { #[verifier::external_body] fn eq(&self, other: &Self) -> bool { unimplemented!() } }
impl vstd::std_specs::cmp::PartialEqSpecImpl for Location { open spec fn obeys_eq_spec() -> bool { false } open spec fn eq_spec(&self, other: &Self) -> bool { true } }
#[verifier::external_body] pub struct Builtin { _p: u8 }
#[verifier::external_body] pub struct Parameter { _p: u8 }
#[verifier::external_body] pub struct Member { _p: u8 }
#[verifier::external_body] pub struct OperandValueType { _p: u8 }
#[verifier::external_body] pub struct DeclarationFlag { _p: u8 }
#[verifier::external_body] #[verifier::accept_recursive_types(T)] pub struct EnumSet<T> { _p: core::marker::PhantomData<T> }
pub mod lexer { use vstd::prelude::*; #[verifier::external_body] pub struct Error { _p: u8 } }
pub type Poisonable<T> = Result<T, Poison>;
// linter.rs: `pub use crate::alpha::error::Error as Lint;` (presence of that line is checked by units/u_lint.py)
pub type Lint = Error;
