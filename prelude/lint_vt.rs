// U-LINT, inside `mod value_type`: trusted stand-in for the derived Clone of the recursive enum ValueType<I>
// (Verus reports a spurious cycle on the derive; same assumption as in spec/u_vt_spec.rs).
impl<I: Identifier> Clone for ValueType<I> {
	#[verifier::external_body]
	fn clone(&self) -> (r: Self) ensures r == *self { unimplemented!() }
}
