// trusted: `#[derive(strum::FromRepr)]` on ValueTypeKeyword (15 variants, discriminants 0..=14, #[repr(u8)])
impl ValueTypeKeyword {
	#[verifier::external_body]
	pub fn from_repr(discriminant: u8) -> (r: Option<Self>)
		ensures r is Some <==> discriminant <= 14
	{ unimplemented!() }
}
