// U-SCOPE prelude, part 2 (trusted text; everything here is ASSUMED): the two std::collections::HashSet<u32> operations of
// found_container_1 that vstd does not specify.  vstd's own model gives HashSet<u32> the view Set<u32> and specifies
// new / default / insert / contains (u32 obeys the key model: group_hash_axioms).
// std: `impl<T: Clone, S: Clone, A: Allocator + Clone> Clone for HashSet<T, S, A>`: the copy is an equal set
pub assume_specification<T: Clone, S: Clone, A: core::alloc::Allocator + Clone>[<std::collections::HashSet<T, S, A> as Clone>::clone](s: &std::collections::HashSet<T, S, A>) -> (r: std::collections::HashSet<T, S, A>)
	ensures r == *s;
// std: `impl<T, S> BitOr<&HashSet<T, S>> for &HashSet<T, S>`: "Returns the union of self and rhs as a new HashSet<T, S>."
// WRAPPER whose body is the very operator application it stands for (rule SC6 puts its name in place of `&a | &b`).
#[verifier::external_body]
pub fn scope_union(a: &std::collections::HashSet<u32>, b: &std::collections::HashSet<u32>) -> (r: std::collections::HashSet<u32>)
	ensures r@ == a@.union(b@),
{
	a | b
}
// std: `impl<T, S> Sub<&HashSet<T, S>> for &HashSet<T, S>`: "Returns the difference of self and rhs as a new HashSet<T, S>."
// (rule SC7 puts the wrapper's name in place of `&a - &b`)
#[verifier::external_body]
pub fn scope_difference(a: &std::collections::HashSet<u32>, b: &std::collections::HashSet<u32>) -> (r: std::collections::HashSet<u32>)
	ensures r@ == a@.difference(b@),
{
	a - b
}
