// U-WALK prelude (trusted text): opaque stand-ins for what the scope discipline of the tree walk does not depend on.
// rule WK2: `flags | DeclarationFlag::Main` (enumset, third party): DeclarationFlag / EnumSet are opaque here (prelude/mutw_std.rs),
// the result is unconstrained
#[verifier::external_body]
pub fn walk_with_main_flag(flags: EnumSet<DeclarationFlag>) -> EnumSet<DeclarationFlag> { unimplemented!() }
// rule WK3: `match s { "lit" => .., _ => .. }` on a &str: whether the strings are equal; result unconstrained (not needed)
#[verifier::external_body]
pub fn walk_str_is(s: &str, lit: &str) -> bool { s == lit }
// rule WK4: `x.depth.clone()` for Option<Poisonable<u32>>: TRUSTED wrapper whose body is the very call; the copy equals the original
#[verifier::external_body]
pub fn walk_clone_depth(d: &Option<Poisonable<u32>>) -> (r: Option<Poisonable<u32>>)
	ensures r == *d,
{
	d.clone()
}
