// RA5 target: VERIFIED shim equal to Peekable<Enumerate<Chars>> (next / peek), state = (src, pos) where pos counts CHARACTERS.
// The link between `line: &str` and its character sequence `line@` is vstd's view of str (Seq<char>) with vstd's exec
// operations `unicode_len` / `get_char` (trusted by vstd: char count and n-th char of the string).
pub struct CharPeekIter<'a> { pub src: &'a str, pub pos: usize }
impl<'a> CharPeekIter<'a> {
	pub open spec fn wf(&self) -> bool { self.pos <= self.src@.len() }
	pub open spec fn head(&self) -> Option<(usize, char)> { if self.pos < self.src@.len() { Some((self.pos, self.src@[self.pos as int])) } else { None } }
	pub fn new(src: &'a str) -> (r: Self) ensures r.src@ == src@, r.pos == 0, r.wf() { CharPeekIter { src, pos: 0 } }
	pub fn next(&mut self) -> (r: Option<(usize, char)>)
		requires old(self).wf(),
		ensures final(self).wf(), final(self).src@ == old(self).src@, r == old(self).head(),
			final(self).pos == (if old(self).pos < old(self).src@.len() { old(self).pos + 1 } else { old(self).pos as int }),
	{ if self.pos < self.src.unicode_len() { let i = self.pos; self.pos = self.pos + 1; Some((i, self.src.get_char(i))) } else { None } }
	pub fn peek(&mut self) -> (r: Option<(usize, char)>)
		requires old(self).wf(),
		ensures *final(self) == *old(self), r == old(self).head(),
	{ if self.pos < self.src.unicode_len() { Some((self.pos, self.src.get_char(self.pos))) } else { None } }
}
