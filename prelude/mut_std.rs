// U-MUT: vstd's model of std::collections::HashMap (u32 keys obey the hash-table key model; axioms of vstd, not ours)
use std::collections::HashMap;
broadcast use vstd::std_specs::hash::group_hash_axioms;
