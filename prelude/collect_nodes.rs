// U-COLLECT prelude (trusted text; everything here is ASSUMED, not proved).
//
// The NODE impls of `Resolvable` (Declaration, Statement, Expression, ... resolver.rs 226-1000) are NOT part of this unit: the
// unit is about the generic combinators that carry their errors upwards.  `pub fn resolve` delegates to the impl for
// `Declaration`, so that impl is declared here as a STAND-IN: its three spec functions are uninterpreted (nothing is known
// about which errors a declaration resolves to) and its `resolve` is assumed to meet the trait-level contract, exactly what
// every generic impl is PROVED to do from the same assumption about its parts.
pub mod resolved { use vstd::prelude::*; #[verifier::external_body] pub struct Declaration { _p: u8 } }
pub uninterp spec fn declaration_errs(d: Declaration) -> Seq<Error>;
pub uninterp spec fn declaration_poisoned(d: Declaration) -> bool;
pub uninterp spec fn declaration_resolves_to(d: Declaration, x: resolved::Declaration) -> bool;
impl Resolvable for Declaration
{
	type Item = resolved::Declaration;
	open spec fn errs(self) -> Seq<Error> { declaration_errs(self) }
	open spec fn poisoned(self) -> bool { declaration_poisoned(self) }
	open spec fn resolves_to(self, x: Self::Item) -> bool { declaration_resolves_to(self, x) }
	#[verifier::external_body]
	fn resolve(self) -> (r: Result<Self::Item, Errors>) { unimplemented!() }
}
