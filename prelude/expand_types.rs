// U-EXPAND prelude, part 1 (trusted text; everything here is ASSUMED, not proved): types that `expander.rs` only moves.
//
// (1) Trusted model of the third-party crate `enumset` - SAME TEXT as prelude/export_enumset.rs (1): an `EnumSet<T>` is
//     viewed as the mathematical set of the flags it holds; clone = same value; remove = std-like set removal.
#[verifier::external_body]
#[verifier::accept_recursive_types(T)]
pub struct EnumSet<T> { _p: core::marker::PhantomData<T> }

impl<T> View for EnumSet<T> {
	type V = Set<T>;
	uninterp spec fn view(&self) -> Set<T>;
}

impl<T> Clone for EnumSet<T> {
	#[verifier::external_body]
	fn clone(&self) -> (r: Self)
		ensures r == *self
	{ unimplemented!() }
}

impl<T> EnumSet<T> {
	#[verifier::external_body]
	pub fn remove(&mut self, value: T) -> (r: bool)
		ensures
			r == old(self)@.contains(value),
			final(self)@ == old(self)@.remove(value),
	{ unimplemented!() }
	// not used by the pinned code; declared so that a change which uses them is judged by the contracts
	#[verifier::external_body] pub fn contains(&self, value: T) -> (r: bool) ensures r == self@.contains(value) { unimplemented!() }
	#[verifier::external_body] pub fn insert(&mut self, value: T) -> (r: bool) ensures r == !old(self)@.contains(value), final(self)@ == old(self)@.insert(value) { unimplemented!() }
}
impl<T> Copy for EnumSet<T> {}

// (2) Opaque stand-ins for the field types of `enum Declaration` / `enum Error` that the unit only clones, moves or drops
//     (DESIGN.md 2.2 item 4); their derived `Clone` is assumed to be the identity.  Unlike U-EXPORT, `Poison` and `Error`
//     are the REAL enums (sliced): `expand` builds `Declaration::Poison(Error::UnresolvedImport{..}.into())`.
#[verifier::external_body] pub struct Location { _p: u8 }
#[verifier::external_body] pub struct Identifier { _p: u8 }
#[verifier::external_body] pub struct Expression { _p: u8 }
#[verifier::external_body] pub struct ValueType { _p: u8 }
#[verifier::external_body] pub struct OperandValueType { _p: u8 }
#[verifier::external_body] pub struct Parameter { _p: u8 }
#[verifier::external_body] pub struct Member { _p: u8 }
#[verifier::external_body] pub struct FunctionBody { _p: u8 }
pub mod lexer { use vstd::prelude::*; #[verifier::external_body] pub struct Error { _p: u8 } }
impl Clone for Location { #[verifier::external_body] fn clone(&self) -> (r: Self) ensures r == *self { unimplemented!() } }
impl Clone for Identifier { #[verifier::external_body] fn clone(&self) -> (r: Self) ensures r == *self { unimplemented!() } }
impl Clone for Expression { #[verifier::external_body] fn clone(&self) -> (r: Self) ensures r == *self { unimplemented!() } }
impl Clone for ValueType { #[verifier::external_body] fn clone(&self) -> (r: Self) ensures r == *self { unimplemented!() } }
impl Clone for Parameter { #[verifier::external_body] fn clone(&self) -> (r: Self) ensures r == *self { unimplemented!() } }
impl Clone for Member { #[verifier::external_body] fn clone(&self) -> (r: Self) ensures r == *self { unimplemented!() } }
impl Clone for FunctionBody { #[verifier::external_body] fn clone(&self) -> (r: Self) ensures r == *self { unimplemented!() } }
// trusted: #[derive(Clone)] of the sliced enums Poison / Error is the identity (the derive is dropped: Verus gives a
// derived Clone no spec)
impl Clone for Poison { #[verifier::external_body] fn clone(&self) -> (r: Self) ensures r == *self { unimplemented!() } }
impl Clone for Error { #[verifier::external_body] fn clone(&self) -> (r: Self) ensures r == *self { unimplemented!() } }

// (3) `included::source_name_hint` (src/included.rs): looks the first path component up in the table of bundled packages
//     (include_dir!, outside the unit).  Modelled as an UNINTERPRETED function of the file name: the unit only needs that the
//     hint shown in the error is the one this function returned.
pub uninterp spec fn source_name_hint_of(filename: Seq<char>) -> Option<Seq<char>>;
pub mod included {
	use vstd::prelude::*;
	use super::source_name_hint_of;
	#[verifier::external_body]
	pub fn source_name_hint(filepath: &str) -> (r: Option<&str>)
		ensures
			r is Some <==> source_name_hint_of(filepath@) is Some,
			r is Some ==> r->Some_0@ == source_name_hint_of(filepath@)->Some_0,
	{ unimplemented!() }
}
