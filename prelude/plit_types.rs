// U-PLIT prelude, part 1 (trusted text; everything here is ASSUMED, not proved): derive-generated code on the sliced types.
// trusted: #[derive(Clone)] of Location (String, Range<usize>, usize, usize) and of Identifier is the identity (same text as
// units/u_loc.py / prelude/align_types.rs)
impl Clone for Location { #[verifier::external_body] fn clone(&self) -> (r: Self) ensures r == *self { Location { source_filename: self.source_filename.clone(), span: self.span.clone(), line_number: self.line_number, line_offset: self.line_offset } } }
impl Clone for Identifier { #[verifier::external_body] fn clone(&self) -> (r: Self) ensures r == *self { unimplemented!() } }
// trusted: #[derive(PartialEq)] of lexer::Token (dropped by the extraction: Verus gives a derived `eq` no spec) is a
// deterministic relation between two tokens.  It is UNINTERPRETED: the unit assumes nothing about which tokens compare equal
// (the cursor compares the next token with the RESERVED token, `consume` with the expected one).
pub uninterp spec fn token_eq(a: Token, b: Token) -> bool;
impl vstd::std_specs::cmp::PartialEqSpecImpl for Token {
	open spec fn obeys_eq_spec() -> bool { true }
	open spec fn eq_spec(&self, o: &Token) -> bool { token_eq(*self, *o) }
}
impl PartialEq for Token { #[verifier::external_body] fn eq(&self, o: &Token) -> (r: bool) { unimplemented!() } }
// the hand-written `impl PartialEq for Identifier` (sliced; it only satisfies the bound of `trait Identifier`) opts out of vstd's
// value-level eq_spec (same text as spec/u_lexa_spec.rs)
impl vstd::std_specs::cmp::PartialEqSpecImpl for Identifier {
	open spec fn obeys_eq_spec() -> bool { false }
	open spec fn eq_spec(&self, other: &Self) -> bool { true }
}
