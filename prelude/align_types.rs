// Shared by U-ALIGN and U-MUT: stand-ins for what the sliced alpha::common / alpha::error types refer to but the
// units never look into, and trusted specs of derive-generated code on the sliced types.
// opaque: alpha::lexer::Location (only cloned / compared), alpha::lexer::Error (only carried inside Error::Lexical)
#[verifier::external_body] pub struct Location { _p: u8 }
pub mod lexer { use vstd::prelude::*; #[verifier::external_body] pub struct Error { _p: u8 } }
// trusted: #[derive(Clone)] is the identity, #[derive(PartialEq)] on Location is a deterministic relation (uninterpreted)
impl Clone for Location { #[verifier::external_body] fn clone(&self) -> (r: Self) ensures r == *self { unimplemented!() } }
pub uninterp spec fn location_eq(a: Location, b: Location) -> bool;
impl vstd::std_specs::cmp::PartialEqSpecImpl for Location {
	open spec fn obeys_eq_spec() -> bool { true }
	open spec fn eq_spec(&self, o: &Self) -> bool { location_eq(*self, *o) }
}
impl PartialEq for Location { #[verifier::external_body] fn eq(&self, o: &Self) -> (r: bool) { unimplemented!() } }
impl Clone for Identifier { #[verifier::external_body] fn clone(&self) -> (r: Self) ensures r == *self { unimplemented!() } }
impl Clone for Poison { #[verifier::external_body] fn clone(&self) -> (r: Self) ensures r == *self { unimplemented!() } }
impl Clone for Error { #[verifier::external_body] fn clone(&self) -> (r: Self) ensures r == *self { unimplemented!() } }
impl Clone for Member { #[verifier::external_body] fn clone(&self) -> (r: Self) ensures r == *self { unimplemented!() } }
// spec of the hand-written `impl PartialEq for Identifier` (sliced and VERIFIED against this, not trusted):
// identifiers are equal iff they resolve to the same declaration, or, when unresolved, sit at the same location
pub open spec fn identifier_eq(a: Identifier, b: Identifier) -> bool {
	if a.resolution_id > 0 { a.resolution_id == b.resolution_id } else { location_eq(a.location, b.location) }
}
impl vstd::std_specs::cmp::PartialEqSpecImpl for Identifier {
	open spec fn obeys_eq_spec() -> bool { true }
	open spec fn eq_spec(&self, o: &Self) -> bool { identifier_eq(*self, *o) }
}
