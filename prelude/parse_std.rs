// Assumed std specs used by the delta parser's cursor
pub assume_specification<'a, T: Copy>[ Option::<&'a T>::copied ](o: Option<&'a T>) -> (r: Option<T>)
	ensures r == (match o { Some(x) => Some(*x), None => None::<T> });
pub assume_specification<'a, T>[ <[T]>::split_off_first ](s: &mut &'a [T]) -> (r: Option<&'a T>)
	ensures old(s)@.len() == 0 ==> r is None && final(s)@ == old(s)@,
		old(s)@.len() > 0 ==> r == Some(&old(s)@[0]) && final(s)@ == old(s)@.drop_first();
pub assume_specification<T>[ bool::then_some ](b: bool, t: T) -> (r: Option<T>)
	ensures r == (if b { Some(t) } else { None::<T> });
