// R14 helper (VERIFIED, not assumed): `s.iter().any(p)` for a slice and a closure that only captures shared references.
// true  => some element made the closure return true; false => the closure returned false on every element.
// (std: Iterator::any calls the closure on the elements in order and stops at the first `true`.)
pub fn slice_any<T, P: Fn(&T) -> bool>(s: &[T], p: P) -> (r: bool)
	requires forall|k: int| 0 <= k < s@.len() ==> p.requires((&#[trigger] s@[k],)),
	ensures
		r ==> exists|k: int| 0 <= k < s@.len() && p.ensures((&#[trigger] s@[k],), true),
		!r ==> forall|k: int| 0 <= k < s@.len() ==> p.ensures((&#[trigger] s@[k],), false),
{
	let mut i: usize = 0;
	while i < s.len()
		invariant i <= s@.len(),
			forall|k: int| 0 <= k < s@.len() ==> p.requires((&#[trigger] s@[k],)),
			forall|k: int| 0 <= k < i ==> p.ensures((&#[trigger] s@[k],), false),
		decreases s@.len() - i,
	{
		if p(&s[i]) { return true; }
		i += 1;
	}
	false
}
