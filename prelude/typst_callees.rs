// U-TYPST: the callees of the statement layer that stay OUTSIDE contracts.  Each one gets an external body and an ASSUMED
// contract that is as weak as the callers can live with (all listed in the unit's notes):
//   * its result and the typer state it leaves are SOME function of its arguments and of the abstract typer state
//     (uninterpreted X_result / X_state of spec/u_typst_spec.rs): nothing is said about what it computes;
//   * thin fact 1: it leaves every recorded type well formed (tab_wf);
//   * thin fact 2 (Expression::analyze, analyze_type): a type it reports is well formed;
//   * thin fact 3 (Expression::analyze): an expression that reports a type is not an automatic coercion of a poisoned
//     expression (Expression::location is unreachable!() there).
impl Analyzable for Expression {
	open spec fn pre(self, t: Typer) -> bool { true }
	open spec fn post(self, r: Self, t0: Typer, t1: Typer) -> bool {
		&&& r == ea_result(self, abs(t0)) && abs(t1) == ea_state(self, abs(t0))
		&&& tab_wf(t0.symbols@) ==> tab_wf(t1.symbols@)
		&&& opt_wf(etype(r))
		&&& typed(etype(r)) ==> loc_ok(r)
	}
	#[verifier::external_body] fn analyze(self, typer: &mut Typer) -> (r: Self) { unimplemented!() }
}
impl Analyzable for Poisonable<ValueType> {
	open spec fn pre(self, t: Typer) -> bool { true }
	open spec fn post(self, r: Self, t0: Typer, t1: Typer) -> bool {
		&&& r == ta_result(self, abs(t0)) && abs(t1) == ta_state(self, abs(t0))
		&&& tab_wf(t0.symbols@) ==> tab_wf(t1.symbols@)
		&&& r is Ok ==> value_type::wf(r->Ok_0)
	}
	#[verifier::external_body] fn analyze(self, typer: &mut Typer) -> (r: Self) { unimplemented!() }
}
impl Analyzable for Comparison {
	open spec fn pre(self, t: Typer) -> bool { true }
	open spec fn post(self, r: Self, t0: Typer, t1: Typer) -> bool { tab_wf(t0.symbols@) ==> tab_wf(t1.symbols@) }
	#[verifier::external_body] fn analyze(self, typer: &mut Typer) -> (r: Self) { unimplemented!() }
}
impl Analyzable for Block {
	open spec fn pre(self, t: Typer) -> bool { true }
	open spec fn post(self, r: Self, t0: Typer, t1: Typer) -> bool { tab_wf(t0.symbols@) ==> tab_wf(t1.symbols@) }
	#[verifier::external_body] fn analyze(self, typer: &mut Typer) -> (r: Self) { unimplemented!() }
}
impl Analyzable for ReferenceStep {
	open spec fn pre(self, t: Typer) -> bool { true }
	open spec fn post(self, r: Self, t0: Typer, t1: Typer) -> bool {
		&&& r == rs_result(self, abs(t0)) && abs(t1) == rs_state(self, abs(t0))
		&&& tab_wf(t0.symbols@) ==> tab_wf(t1.symbols@)
	}
	#[verifier::external_body] fn analyze(self, typer: &mut Typer) -> (r: Self) { unimplemented!() }
}
impl Typer {
	// a callee VERIFIED IN ANOTHER UNIT (U-TYPREF, contracts/u_typref.vc): its contract there (same oracle text, spec/u_typref_spec.rs)
	// plus the two equations that pin the uninterpreted gtr_type / gtr_ref of spec/u_typst_spec.rs to it
	#[verifier::external_body]
	pub fn get_type_of_reference(&self, reference: &mut Reference) -> (r: Option<Poisonable<ValueType>>)
		requires gtr_pre(*old(reference), self.symbols@, self.structures@),
		ensures r == type_of_place(*old(reference), self.symbols@, self.structures@),
			final(reference).base == base_after(*old(reference), self.symbols@, self.structures@),
			final(reference).steps@.len() == old(reference).steps@.len() && final(reference).address_depth == old(reference).address_depth
				&& final(reference).location == old(reference).location && final(reference).location_of_unaddressed == old(reference).location_of_unaddressed,
			r is Some && r->Some_0 is Ok ==> steps_resolved(*old(reference), final(reference).steps@, self.symbols@, self.structures@),
			r == gtr_type(*old(reference), abs(*self)), *final(reference) == gtr_ref(*old(reference), abs(*self)),
	{ unimplemented!() }
	#[verifier::external_body]
	pub fn analyze_function_arguments(&mut self, identifier: &Identifier, arguments: Vec<Expression>) -> (r: Vec<Expression>)
		ensures tab_wf(old(self).symbols@) ==> tab_wf(final(self).symbols@),
	{ unimplemented!() }
}
#[verifier::external_body]
pub fn analyze_builtin(name: &Identifier, builtin: &Builtin, arguments: Vec<Expression>, return_type: Option<Poisonable<ValueType>>, typer: &mut Typer)
	-> (r: Result<(Vec<Expression>, Option<ValueType>), Poison>)
	ensures tab_wf(old(typer).symbols@) ==> tab_wf(final(typer).symbols@),
{ unimplemented!() }
