// U-MUTW: what the mutability tree walk needs beyond prelude/align_types.rs
// vstd's model of std::collections::HashMap (u32 keys obey the hash-table key model) as in prelude/mut_std.rs, and
// termination through Vec<Self> fields; axioms of vstd, not ours (Verus allows ONE module-level `broadcast use`, hence not mut_std.rs)
use std::collections::HashMap;
broadcast use {vstd::std_specs::hash::group_hash_axioms, vstd::std_specs::vec::axiom_vec_index_decreases};
// trusted std spec (same text as in prelude/ast_opaque.rs): rule R1 turns `v.into_iter().map(f).collect()` into
// `v.reverse(); while let Some(x) = v.pop() { out.push(f(x)) }`
pub assume_specification<T>[ <[T]>::reverse ](s: &mut [T])
	ensures final(s)@ == old(s)@.reverse();
// opaque: alpha::common::DeclarationFlag and enumset::EnumSet (the walk only moves the `flags` field of a declaration)
#[verifier::external_body] pub struct DeclarationFlag { _p: u8 }
#[verifier::external_body] #[verifier::accept_recursive_types(T)] pub struct EnumSet<T> { _p: core::marker::PhantomData<T> }
