// Assumed std specs (trusted; listed in DESIGN.md section 6)
pub assume_specification<T: ?Sized, A: core::alloc::Allocator>[ <Box<T, A> as core::convert::AsRef<T>>::as_ref ](b: &Box<T, A>) -> (r: &T)
	ensures r == &**b;

pub assume_specification<T, U, F: core::ops::FnOnce(T) -> U>[ core::option::Option::<T>::map_or ](o: Option<T>, d: U, f: F) -> (r: U)
	requires o.is_some() ==> f.requires((o.unwrap(),)),
	ensures o.is_none() ==> r == d, o.is_some() ==> f.ensures((o.unwrap(),), r);

// Box<T> == Box<T> compares the pointees
pub assume_specification<T: ?Sized + PartialEq, A: core::alloc::Allocator>[ <Box<T, A> as PartialEq>::eq ](a: &Box<T, A>, b: &Box<T, A>) -> (r: bool)
	ensures T::obeys_eq_spec() ==> r == (**a).eq_spec(&**b);
