// U-SYM: trusted text (std specs only).  Everything else of the unit is sliced from /repo or is ghost specification.
// vstd's model of std::collections::HashMap (u32 keys obey the hash-table key model; axioms of vstd, not ours)
use std::collections::HashMap;
use vstd::std_specs::hash::{obeys_key_model, builds_valid_hashers, contains_borrowed_key, maps_borrowed_key_to_value, borrowed_key_removed};
broadcast use vstd::std_specs::hash::group_hash_axioms;
// Assumed std spec (trusted; std documentation of HashMap::get_mut: "Returns a mutable reference to the value corresponding to
// the key"): vstd specifies get / insert / remove / contains_key but not get_mut.  Written in vstd's own vocabulary for borrowed keys:
//   Some(v): the key is present and *v is its value; when the borrow ends the key maps to the value written through v, and the
//            map without that key is the old map without that key (`rest`)
//   None:    the key is absent and the map is unchanged
pub assume_specification<'a, Key, Value, S, A, Q: ?Sized>[ HashMap::<Key, Value, S, A>::get_mut::<Q> ](m: &'a mut HashMap<Key, Value, S, A>, k: &Q) -> (r: Option<&'a mut Value>)
	where Key: core::borrow::Borrow<Q> + core::hash::Hash + Eq, Q: core::hash::Hash + Eq, S: core::hash::BuildHasher, A: core::alloc::Allocator
	ensures
		obeys_key_model::<Key>() && builds_valid_hashers::<S>() ==> match r {
			Some(v) => maps_borrowed_key_to_value(old(m)@, k, *v) && maps_borrowed_key_to_value(final(m)@, k, *final(v))
				&& exists|rest: Map<Key, Value>| borrowed_key_removed(old(m)@, rest, k) && borrowed_key_removed(final(m)@, rest, k),
			None => !contains_borrowed_key(old(m)@, k) && final(m)@ == old(m)@,
		};
// Assumed std spec (trusted; same text as prelude/const_std.rs, prelude/export_std.rs, prelude/fcall_std.rs): the derived-style `Clone`
// of `Result` clones the payload of whichever side is there (Typer::get_symbol / get_valid_declaration clone the recorded type)
pub assume_specification<T: Clone, E: Clone>[ <Result<T, E> as Clone>::clone ](a: &Result<T, E>) -> (r: Result<T, E>)
	ensures
		a is Ok ==> r is Ok && cloned::<T>(a->Ok_0, r->Ok_0),
		a is Err ==> r is Err && cloned::<E>(a->Err_0, r->Err_0);
