// U-RESNODE prelude, part 2 (trusted text; everything here is ASSUMED, not proved).
//
// (1) STAND-INS for the node impls of `Resolvable` that sit in a RECURSIVE cycle through the generic combinators
//     (Expression <-> Box<Expression> / Vec<Expression> / Reference / ReferenceStep / MemberExpression;  ValueType <-> Box<ValueType>;
//      Statement <-> Box<Statement> / Vec<Statement> / Else is handled differently, see prelude/resnode_rec.rs).
//     Verus rejects such an impl outright ("found a cyclic self-reference in a definition": the impl for E uses the impl for
//     Box<E>, whose bound T: Resolvable is satisfied by the impl for E), so these impls cannot be put under the trait contract in
//     this unit.  Each is declared with UNINTERPRETED errs / poisoned / resolves_to / pre and is ASSUMED to meet the trait-level
//     contract - the same assumption U-COLLECT made for Declaration, now pushed one level down.
pub uninterp spec fn expression_errs(e: Expression) -> Seq<Error>;
pub uninterp spec fn expression_poisoned(e: Expression) -> bool;
pub uninterp spec fn expression_resolves_to(e: Expression, x: resolved::Expression) -> bool;
pub uninterp spec fn expression_pre(e: Expression) -> bool;
impl Resolvable for Expression
{
	type Item = resolved::Expression;
	open spec fn pre(self) -> bool { expression_pre(self) }
	open spec fn errs(self) -> Seq<Error> { expression_errs(self) }
	open spec fn poisoned(self) -> bool { expression_poisoned(self) }
	open spec fn resolves_to(self, x: Self::Item) -> bool { expression_resolves_to(self, x) }
	#[verifier::external_body]
	fn resolve(self) -> (r: Result<Self::Item, Errors>) { unimplemented!() }
}
pub uninterp spec fn reference_errs(s: Reference) -> Seq<Error>;
pub uninterp spec fn reference_poisoned(s: Reference) -> bool;
pub uninterp spec fn reference_resolves_to(s: Reference, x: resolved::Reference) -> bool;
pub uninterp spec fn reference_pre(s: Reference) -> bool;
impl Resolvable for Reference
{
	type Item = resolved::Reference;
	open spec fn pre(self) -> bool { reference_pre(self) }
	open spec fn errs(self) -> Seq<Error> { reference_errs(self) }
	open spec fn poisoned(self) -> bool { reference_poisoned(self) }
	open spec fn resolves_to(self, x: Self::Item) -> bool { reference_resolves_to(self, x) }
	#[verifier::external_body]
	fn resolve(self) -> (r: Result<Self::Item, Errors>) { unimplemented!() }
}
pub uninterp spec fn value_type_errs(t: ValueType) -> Seq<Error>;
pub uninterp spec fn value_type_poisoned(t: ValueType) -> bool;
pub uninterp spec fn value_type_resolves_to(t: ValueType, x: resolved::ValueType) -> bool;
pub uninterp spec fn value_type_pre(t: ValueType) -> bool;
impl Resolvable for ValueType
{
	type Item = resolved::ValueType;
	open spec fn pre(self) -> bool { value_type_pre(self) }
	open spec fn errs(self) -> Seq<Error> { value_type_errs(self) }
	open spec fn poisoned(self) -> bool { value_type_poisoned(self) }
	open spec fn resolves_to(self, x: Self::Item) -> bool { value_type_resolves_to(self, x) }
	#[verifier::external_body]
	fn resolve(self) -> (r: Result<Self::Item, Errors>) { unimplemented!() }
}

// (2) `resolve_compared_type` (resolver.rs; under contract in unit U-RES, on U-RES's opaque Expression): here a DETERMINISTIC
//     FUNCTION of its arguments and nothing more - which error it raises (E550 / E551 / E581, or an EMPTY list when an operand's
//     recorded type is poisoned) is U-RES's subject; this unit needs only that it is the Comparison's OWN verdict.
pub uninterp spec fn compared_type_of(op: ComparisonOp, left: Expression, right: Expression, location: Location) -> Result<resolved::ValueType, Errors>;
#[verifier::external_body]
pub fn resolve_compared_type(op: ComparisonOp, left: &Expression, right: &Expression, location_of_op: &Location) -> (r: Result<resolved::ValueType, Errors>)
	ensures r == compared_type_of(op, *left, *right, *location_of_op),
{ unimplemented!() }

// (3) what the Statement impl reads off an expression: the type the typer recorded (typer.rs `impl Typed for Expression`) and
//     its location (common.rs `Expression::location`) - deterministic functions of the expression, nothing more
pub uninterp spec fn recorded_type(e: Expression) -> Option<Poisonable<ValueType>>;
pub uninterp spec fn location_of(e: Expression) -> Location;
impl Typed for Expression {
	#[verifier::external_body] fn value_type(&self) -> (r: Option<Poisonable<ValueType>>) ensures r == recorded_type(*self) { unimplemented!() }
}
impl Expression {
	#[verifier::external_body] pub fn location(&self) -> (r: &Location) ensures *r == location_of(*self) { unimplemented!() }
}
