// U-RESNODE prelude, part 2 (trusted text; everything here is ASSUMED, not proved).
//
// (1) (historical) the node impls of `Resolvable` that sit in a RECURSIVE cycle through the generic combinators used to be stand-ins
//     here; they are now all verified by the induction scheme of prelude/resnode_rec.rs.  What follows explains the obstacle:
//     (Expression <-> Box<Expression> / Vec<Expression> / Reference / ReferenceStep / MemberExpression;
//      Statement <-> Box<Statement> / Vec<Statement> / Else is handled differently, see prelude/resnode_rec.rs).
//     Verus rejects such an impl outright ("found a cyclic self-reference in a definition": the impl for E uses the impl for
//     Box<E>, whose bound T: Resolvable is satisfied by the impl for E), so these impls cannot be put under the trait contract in
//     this unit.  Each is declared with UNINTERPRETED errs / poisoned / resolves_to / pre and is ASSUMED to meet the trait-level
//     contract - the same assumption U-COLLECT made for Declaration, now pushed one level down.

// (2) `resolve_compared_type` (resolver.rs; under contract in unit U-RES, on U-RES's opaque Expression): here a DETERMINISTIC
//     FUNCTION of its arguments and nothing more - which error it raises (E550 / E551 / E581, or an EMPTY list when an operand's
//     recorded type is poisoned) is U-RES's subject; this unit needs only that it is the Comparison's OWN verdict.
pub uninterp spec fn compared_type_of(op: ComparisonOp, left: Expression, right: Expression, location: Location) -> Result<resolved::ValueType, Errors>;
#[verifier::external_body]
pub fn resolve_compared_type(op: ComparisonOp, left: &Expression, right: &Expression, location_of_op: &Location) -> (r: Result<resolved::ValueType, Errors>)
	ensures r == compared_type_of(op, *left, *right, *location_of_op),
{ unimplemented!() }

// (3) what the Statement impl reads off an expression: the type the typer recorded (typer.rs `impl Typed for Expression`) and
//     its location (common.rs `Expression::location`) - deterministic functions of the expression, nothing more
pub uninterp spec fn recorded_type(e: Expression) -> Option<Poisonable<ValueType>>;
pub uninterp spec fn location_of(e: Expression) -> Location;
impl Typed for Expression {
	#[verifier::external_body] fn value_type(&self) -> (r: Option<Poisonable<ValueType>>) ensures r == recorded_type(*self) { unimplemented!() }
}
impl Expression {
	#[verifier::external_body] pub fn location(&self) -> (r: &Location) ensures *r == location_of(*self) { unimplemented!() }
}

// (4) the operator / cast drivers of resolver.rs that `Resolvable for Expression` calls (under contract in unit U-RES, on U-RES's
//     opaque Expression): here DETERMINISTIC FUNCTIONS of their arguments and nothing more, like resolve_compared_type above.
//     U-RES's contracts cannot be imported literally: they speak about an opaque Expression with an uninterpreted recorded type.
pub uninterp spec fn binary_type_of(op: BinaryOp, left: Expression, right: Expression, location_of_op: Location) -> Result<resolved::ValueType, Errors>;
pub uninterp spec fn unary_type_of(op: UnaryOp, operand: Expression, location_of_op: Location) -> Result<resolved::ValueType, Errors>;
pub uninterp spec fn bit_cast_type_of(e: Expression, coerced_type: Option<Poisonable<ValueType>>, location: Location, location_of_keyword: Location) -> Result<resolved::ValueType, Errors>;
pub uninterp spec fn primitive_cast_of(e: Expression, coerced_type: ValueType, location_of_type: Location) -> Result<Option<resolved::ValueType>, Errors>;
#[verifier::external_body]
pub fn resolve_binary_op_type(op: BinaryOp, left: &Expression, right: &Expression, location_of_op: &Location) -> (r: Result<resolved::ValueType, Errors>)
	ensures r == binary_type_of(op, *left, *right, *location_of_op),
{ unimplemented!() }
#[verifier::external_body]
pub fn resolve_unary_op_type(op: UnaryOp, operand: &Expression, location_of_op: &Location) -> (r: Result<resolved::ValueType, Errors>)
	ensures r == unary_type_of(op, *operand, *location_of_op),
{ unimplemented!() }
#[verifier::external_body]
pub fn analyze_bit_cast_and_get_coerced_type(expression: &Expression, coerced_type: Option<Poisonable<ValueType>>, location_of_combined_expression: &Location, location_of_keyword: &Location) -> (r: Result<resolved::ValueType, Errors>)
	ensures r == bit_cast_type_of(*expression, coerced_type, *location_of_combined_expression, *location_of_keyword),
{ unimplemented!() }
#[verifier::external_body]
pub fn analyze_primitive_cast_and_get_value_type(expression: &Expression, coerced_type: ValueType, location_of_type: &Location) -> (r: Result<Option<resolved::ValueType>, Errors>)
	ensures r == primitive_cast_of(*expression, coerced_type, *location_of_type),
{ unimplemented!() }
// builtin.rs: the generator form of a builtin call (only its result is passed on) and the file-descriptor type it mentions
pub mod builtin {
	use vstd::prelude::*;
	use super::*;
	#[verifier::external_body] pub struct Fd { _p: u8 }
	#[verifier::external_body]
	pub fn resolve(builtin: Builtin, location: &Location, arguments: Vec<resolved::Expression>, return_type: resolved::ValueType) -> (r: resolved::Expression)
	{ unimplemented!() }
}
