// U-TYPST: analyze_assignment_steps outside contracts (external body, ASSUMED: uninterpreted effect + the table stays well formed).
// It makes the automatic dereferences of the place explicit and counts excess `&`; its unreachable!() sites need typing
// invariants between the recorded base type and the steps that get_type_of_reference (also outside) would have to establish.
pub open spec fn opt_deref(o: Option<&Expression>) -> Option<Expression> { match o { Some(e) => Some(*e), None => None } }
#[verifier::external_body]
pub fn analyze_assignment_steps(typer: &mut Typer, base_type: ValueType, previous_steps: Vec<ReferenceStep>, address_depth: u8) -> (r: (Vec<ReferenceStep>, u8))
	ensures (r.0@, r.1) == as_steps(base_type, previous_steps@, address_depth, abs(*old(typer))),
		abs(*final(typer)) == as_state(base_type, previous_steps@, address_depth, abs(*old(typer))),
		tab_wf(old(typer).symbols@) ==> tab_wf(final(typer).symbols@),
{ unimplemented!() }
