// U-TYPST: analyze_assignment_steps is a callee VERIFIED IN ANOTHER UNIT (U-TYPAS, contracts/u_typas.vc): external body here, with the
// contract it is verified against there (same oracle text, spec/u_typas_spec.rs: as_pre / as_fold / as_finish).  The uninterpreted
// as_steps / as_state of spec/u_typst_spec.rs are thereby pinned: as_steps is the oracle, as_state is the identity.
pub open spec fn opt_deref(o: Option<&Expression>) -> Option<Expression> { match o { Some(e) => Some(*e), None => None } }
#[verifier::external_body]
pub fn analyze_assignment_steps(typer: &mut Typer, base_type: ValueType, previous_steps: Vec<ReferenceStep>, address_depth: u8) -> (r: (Vec<ReferenceStep>, u8))
	requires as_pre(base_type, previous_steps@, old(typer).symbols@),
	ensures (r.0@, r.1) == as_finish(as_fold(base_type, previous_steps@, previous_steps@.len() as int, old(typer).symbols@)->Some_0, address_depth),
		*final(typer) == *old(typer),
		(r.0@, r.1) == as_steps(base_type, previous_steps@, address_depth, abs(*old(typer))),
		abs(*final(typer)) == as_state(base_type, previous_steps@, address_depth, abs(*old(typer))),
{ unimplemented!() }
