// U-TYPST: opaque third-party types that the sliced AST only carries along (same text as prelude/mutw_std.rs / const_std.rs)
#[verifier::external_body] pub struct DeclarationFlag { _p: u8 }
#[verifier::external_body] #[verifier::accept_recursive_types(T)] pub struct EnumSet<T> { _p: core::marker::PhantomData<T> }
// Assumed std spec (trusted; same text as prelude/ast_opaque.rs, const_std.rs, mutw_std.rs): rule R1 turns `v.into_iter().map(f).collect()`
// into `v.reverse(); while let Some(x) = v.pop() { out.push(f(x)) }`
pub assume_specification<T>[ <[T]>::reverse ](s: &mut [T])
	ensures final(s)@ == old(s)@.reverse();
