// Helpers for `S.iter().position(p)` / `S.iter().rposition(p)` on a slice (VERIFIED, not assumed; analogous to
// prelude/slice_find.rs).  std: Iterator::position "applies the closure to each element; if one of them returns true,
// then position() returns Some(index) [of the FIRST such element] ... after finding a true, stops";
// rposition does the same from the right (the LAST such element).  The closure only captures shared references.
pub fn slice_position<T, P: Fn(&T) -> bool>(s: &[T], p: P) -> (r: Option<usize>)
	requires forall|k: int| 0 <= k < s@.len() ==> p.requires((&#[trigger] s@[k],)),
	ensures
		r is Some ==> r->Some_0 < s@.len() && p.ensures((&s@[r->Some_0 as int],), true)
			&& forall|k: int| 0 <= k < r->Some_0 ==> p.ensures((&#[trigger] s@[k],), false),
		r is None ==> forall|k: int| 0 <= k < s@.len() ==> p.ensures((&#[trigger] s@[k],), false),
{
	let mut i: usize = 0;
	while i < s.len()
		invariant i <= s@.len(),
			forall|k: int| 0 <= k < s@.len() ==> p.requires((&#[trigger] s@[k],)),
			forall|k: int| 0 <= k < i ==> p.ensures((&#[trigger] s@[k],), false),
		decreases s@.len() - i,
	{
		if p(&s[i]) { return Some(i); }
		i += 1;
	}
	None
}

pub fn slice_rposition<T, P: Fn(&T) -> bool>(s: &[T], p: P) -> (r: Option<usize>)
	requires forall|k: int| 0 <= k < s@.len() ==> p.requires((&#[trigger] s@[k],)),
	ensures
		r is Some ==> r->Some_0 < s@.len() && p.ensures((&s@[r->Some_0 as int],), true)
			&& forall|k: int| r->Some_0 < k < s@.len() ==> p.ensures((&#[trigger] s@[k],), false),
		r is None ==> forall|k: int| 0 <= k < s@.len() ==> p.ensures((&#[trigger] s@[k],), false),
{
	let mut i: usize = s.len();
	while i > 0
		invariant i <= s@.len(),
			forall|k: int| 0 <= k < s@.len() ==> p.requires((&#[trigger] s@[k],)),
			forall|k: int| i <= k < s@.len() ==> p.ensures((&#[trigger] s@[k],), false),
		decreases i,
	{
		i -= 1;
		if p(&s[i]) { return Some(i); }
	}
	None
}
