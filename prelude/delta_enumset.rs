// Trusted shim for the third-party crate `enumset` over the 5-flag enum DeclarationFlag:
// a set of flags is modelled by its bit mask; only the operations the sliced code calls are declared.
// (bit assignment follows declaration order, as enumset does; validated exhaustively by the rule-validation harness)
#[derive(Clone, Copy)]
pub struct EnumSet<T> { pub bits: u8, pub _p: core::marker::PhantomData<T> }
pub open spec fn flag_bit(f: DeclarationFlag) -> u8 {
	match f { DeclarationFlag::Public => 1u8, DeclarationFlag::External => 2u8, DeclarationFlag::Main => 4u8, DeclarationFlag::Forward => 8u8, DeclarationFlag::OpaqueStruct => 16u8 }
}
// membership, kept abstract for the solver (closed): the parser unit reasons about `has`, never about bit patterns;
// lemma_has_* below PROVE (bit_vector) that the membership facts stated on the operations follow from their bit facts
pub closed spec fn has(s: EnumSet<DeclarationFlag>, f: DeclarationFlag) -> bool { s.bits & flag_bit(f) != 0 }
impl EnumSet<DeclarationFlag> {
	#[verifier::external_body] pub fn new() -> (r: Self) ensures r.bits == 0, forall|g: DeclarationFlag| !(has(r, g)) { unimplemented!() }
	#[verifier::external_body] pub fn from(f: DeclarationFlag) -> (r: Self) ensures r.bits == flag_bit(f) { unimplemented!() }
	#[verifier::external_body] pub fn difference(&self, o: Self) -> (r: Self) ensures r.bits == self.bits & !o.bits { unimplemented!() }
	#[verifier::external_body] pub fn insert(&mut self, f: DeclarationFlag) -> (r: bool)
		ensures final(self).bits == old(self).bits | flag_bit(f), forall|g: DeclarationFlag| has(*final(self), g) == (has(*old(self), g) || g == f) { unimplemented!() }
	#[verifier::external_body] pub fn contains(&self, f: DeclarationFlag) -> (r: bool) ensures r == has(*self, f) { unimplemented!() }
}
proof fn lemma_has_new(g: DeclarationFlag) ensures 0u8 & flag_bit(g) == 0 { let b = flag_bit(g); assert(0u8 & b == 0) by (bit_vector); }
proof fn lemma_has_insert(x: u8, f: DeclarationFlag, g: DeclarationFlag)
	ensures ((x | flag_bit(f)) & flag_bit(g) != 0) == ((x & flag_bit(g) != 0) || g == f)
{
	let a = flag_bit(f); let b = flag_bit(g);
	assert((a == 1 || a == 2 || a == 4 || a == 8 || a == 16) && (b == 1 || b == 2 || b == 4 || b == 8 || b == 16) ==>
		(((x | a) & b != 0) == ((x & b != 0) || a == b))) by (bit_vector);
}
// further enumset operations (not used by the pinned code; declared so that a change which uses them is judged by the
// contracts instead of being rejected by the type checker)
impl EnumSet<DeclarationFlag> {
	#[verifier::external_body] pub fn is_empty(&self) -> (r: bool) ensures r == (self.bits == 0) { unimplemented!() }
	#[verifier::external_body] pub fn remove(&mut self, f: DeclarationFlag) -> (r: bool) ensures final(self).bits == old(self).bits & !flag_bit(f) { unimplemented!() }
	#[verifier::external_body] pub fn only(f: DeclarationFlag) -> (r: Self) ensures r.bits == flag_bit(f) { unimplemented!() }
}
impl EnumSet<DeclarationFlag> {
	#[verifier::external_body] pub fn empty() -> (r: Self) ensures r.bits == 0, forall|g: DeclarationFlag| !(has(r, g)) { unimplemented!() }
	#[verifier::external_body] pub fn all() -> (r: Self) ensures r.bits == 31 { unimplemented!() }
	#[verifier::external_body] pub fn intersection(&self, o: Self) -> (r: Self) ensures r.bits == self.bits & o.bits { unimplemented!() }
	#[verifier::external_body] pub fn union(&self, o: Self) -> (r: Self) ensures r.bits == self.bits | o.bits { unimplemented!() }
	#[verifier::external_body] pub fn symmetrical_difference(&self, o: Self) -> (r: Self) ensures r.bits == self.bits ^ o.bits { unimplemented!() }
	#[verifier::external_body] pub fn complement(&self) -> (r: Self) ensures r.bits == !self.bits & 31 { unimplemented!() }
	#[verifier::external_body] pub fn is_subset(&self, o: Self) -> (r: bool) ensures r == (self.bits & o.bits == self.bits) { unimplemented!() }
	#[verifier::external_body] pub fn is_superset(&self, o: Self) -> (r: bool) ensures r == (self.bits & o.bits == o.bits) { unimplemented!() }
	#[verifier::external_body] pub fn is_disjoint(&self, o: Self) -> (r: bool) ensures r == (self.bits & o.bits == 0) { unimplemented!() }
	#[verifier::external_body] pub fn len(&self) -> (r: usize) ensures r <= 5, (r == 0) == (self.bits == 0) { unimplemented!() }
	#[verifier::external_body] pub fn clear(&mut self) ensures final(self).bits == 0 { unimplemented!() }
	#[verifier::external_body] pub fn insert_all(&mut self, o: Self) ensures final(self).bits == old(self).bits | o.bits { unimplemented!() }
	#[verifier::external_body] pub fn remove_all(&mut self, o: Self) ensures final(self).bits == old(self).bits & !o.bits { unimplemented!() }
}
impl PartialEq<DeclarationFlag> for EnumSet<DeclarationFlag> {
	#[verifier::external_body] fn eq(&self, o: &DeclarationFlag) -> bool { unimplemented!() }
}
impl vstd::std_specs::cmp::PartialEqSpecImpl<DeclarationFlag> for EnumSet<DeclarationFlag> {
	open spec fn obeys_eq_spec() -> bool { true }
	open spec fn eq_spec(&self, o: &DeclarationFlag) -> bool { self.bits == flag_bit(*o) }
}
impl PartialEq for EnumSet<DeclarationFlag> {
	#[verifier::external_body] fn eq(&self, o: &Self) -> bool { unimplemented!() }
}
impl vstd::std_specs::cmp::PartialEqSpecImpl for EnumSet<DeclarationFlag> {
	open spec fn obeys_eq_spec() -> bool { true }
	open spec fn eq_spec(&self, o: &Self) -> bool { self.bits == o.bits }
}
