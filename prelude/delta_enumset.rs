// Trusted shim for the third-party crate `enumset` over the 5-flag enum DeclarationFlag:
// a set of flags is modelled by its bit mask; only the operations the sliced code calls are declared.
// (bit assignment follows declaration order, as enumset does; validated exhaustively by the rule-validation harness)
#[derive(Clone, Copy)]
pub struct EnumSet<T> { pub bits: u8, pub _p: core::marker::PhantomData<T> }
pub open spec fn flag_bit(f: DeclarationFlag) -> u8 {
	match f { DeclarationFlag::Public => 1u8, DeclarationFlag::External => 2u8, DeclarationFlag::Main => 4u8, DeclarationFlag::Forward => 8u8, DeclarationFlag::OpaqueStruct => 16u8 }
}
impl EnumSet<DeclarationFlag> {
	#[verifier::external_body] pub fn new() -> (r: Self) ensures r.bits == 0 { unimplemented!() }
	#[verifier::external_body] pub fn from(f: DeclarationFlag) -> (r: Self) ensures r.bits == flag_bit(f) { unimplemented!() }
	#[verifier::external_body] pub fn difference(&self, o: Self) -> (r: Self) ensures r.bits == self.bits & !o.bits { unimplemented!() }
	#[verifier::external_body] pub fn insert(&mut self, f: DeclarationFlag) -> (r: bool) ensures final(self).bits == old(self).bits | flag_bit(f) { unimplemented!() }
	#[verifier::external_body] pub fn contains(&self, f: DeclarationFlag) -> (r: bool) ensures r == (self.bits & flag_bit(f) != 0) { unimplemented!() }
}
