// U-RES prelude, part 2 (after the sliced traits `Typed` and `Resolvable`): trusted stand-ins for the two callees
// outside the unit.  Each is a deterministic function of its argument and nothing more is assumed.

// typer.rs `impl Typed for Expression` (reads the type recorded by the typer)
impl Typed for Expression {
	#[verifier::external_body] fn value_type(&self) -> (r: Option<Poisonable<ValueType>>) ensures r == expr_type(*self) { unimplemented!() }
}

// resolver.rs `impl Resolvable for ValueType` (structural translation into resolved::ValueType; not under contract here)
pub uninterp spec fn resolved_type(t: ValueType) -> Result<resolved::ValueType, Errors>;
impl Resolvable for ValueType {
	type Item = resolved::ValueType;
	#[verifier::external_body] fn resolve(self) -> (r: Result<resolved::ValueType, Errors>) ensures r == resolved_type(self) { unimplemented!() }
}
