// Assumed std specs and trusted wrappers used by the alpha lexer (U-LEXA).  Everything here is about `core`/`alloc`
// items (char classification, integer parsing, UTF-8 of `String`), stated as in the std documentation.
use vstd::utf8::*;
use vstd::string::StringSliceAdditionalSpecFns;
#[verifier::external_type_specification]
#[verifier::external_body]
pub struct ExParseIntError(core::num::ParseIntError);

// digit value of a character in bases up to 36 (the definition of `char::to_digit`): 0-9, a-z and A-Z are 10..35
pub open spec fn cdig(c: char) -> Option<nat> {
	let v = c as u32;
	if 48 <= v <= 57 { Some((v - 48) as nat) } else if 97 <= v <= 122 { Some((v - 87) as nat) } else if 65 <= v <= 90 { Some((v - 55) as nat) } else { None }
}
pub open spec fn is_dig(c: char, base: nat) -> bool { cdig(c) is Some && cdig(c)->0 < base }
pub open spec fn all_dig(s: Seq<char>, base: nat) -> bool { forall|i: int| 0 <= i < s.len() ==> is_dig(#[trigger] s[i], base) }
// positional value of a digit string; characters that are not digits of the base (the `_` separators) are skipped
pub open spec fn cdigv(s: Seq<char>, base: nat) -> nat
	decreases s.len()
{
	if s.len() == 0 { 0 } else if is_dig(s.last(), base) { cdigv(s.drop_last(), base) * base + cdig(s.last())->0 } else { cdigv(s.drop_last(), base) }
}
pub open spec fn is_scalar(x: nat) -> bool { x < 0xD800 || (0xE000 <= x && x <= 0x10FFFF) }

pub assume_specification[ char::is_ascii_hexdigit ](c: &char) -> (r: bool)
	ensures r == is_dig(*c, 16);
pub assume_specification[ char::is_ascii_digit ](c: &char) -> (r: bool)
	ensures r == is_dig(*c, 10);
pub assume_specification[ char::is_digit ](c: char, radix: u32) -> (r: bool)
	requires 2 <= radix <= 36,
	ensures r == is_dig(c, radix as nat);
pub assume_specification[ char::is_ascii_graphic ](c: &char) -> (r: bool)
	ensures r == (0x21 <= *c as u32 <= 0x7e);
pub assume_specification[ char::is_ascii ](c: &char) -> (r: bool)
	ensures r == (*c as u32 <= 0x7f);
pub assume_specification[ char::from_u32 ](x: u32) -> (r: Option<char>)
	ensures r is Some <==> is_scalar(x as nat), r is Some ==> r->0 as u32 == x;

// <uN>::from_str_radix on a string of digits of the radix (no sign): the positional value, Err iff empty or too large.
// (Nothing is said about strings containing other characters; the lexer never passes any.)
pub assume_specification[ u128::from_str_radix ](src: &str, radix: u32) -> (r: Result<u128, core::num::ParseIntError>)
	requires 2 <= radix <= 36,
	ensures src@.len() == 0 ==> r is Err,
		src@.len() > 0 && all_dig(src@, radix as nat) ==> (r is Ok <==> cdigv(src@, radix as nat) <= u128::MAX) && (r is Ok ==> r->Ok_0 == cdigv(src@, radix as nat));
pub assume_specification[ u32::from_str_radix ](src: &str, radix: u32) -> (r: Result<u32, core::num::ParseIntError>)
	requires 2 <= radix <= 36,
	ensures src@.len() == 0 ==> r is Err,
		src@.len() > 0 && all_dig(src@, radix as nat) ==> (r is Ok <==> cdigv(src@, radix as nat) <= u32::MAX) && (r is Ok ==> r->Ok_0 == cdigv(src@, radix as nat));
pub assume_specification[ u8::from_str_radix ](src: &str, radix: u32) -> (r: Result<u8, core::num::ParseIntError>)
	requires 2 <= radix <= 36,
	ensures src@.len() == 0 ==> r is Err,
		src@.len() > 0 && all_dig(src@, radix as nat) ==> (r is Ok <==> cdigv(src@, radix as nat) <= u8::MAX) && (r is Ok ==> r->Ok_0 == cdigv(src@, radix as nat));
// RA10 target: `str::parse::<u128>()` is `u128::from_str_radix(s, 10)` (impl FromStr for u128)
#[verifier::external_body]
pub fn lexa_parse_u128(s: &str) -> (r: Result<u128, core::num::ParseIntError>)
	ensures s@.len() == 0 ==> r is Err,
		s@.len() > 0 && all_dig(s@, 10) ==> (r is Ok <==> cdigv(s@, 10) <= u128::MAX) && (r is Ok ==> r->Ok_0 == cdigv(s@, 10)),
{ s.parse() }
// RA8 target: `char::to_string` is the string consisting of that one character
#[verifier::external_body]
pub fn lexa_char_to_string(x: char) -> (r: String)
	ensures r@ == seq![x]
{ x.to_string() }
// String::len is the length in BYTES of the UTF-8 encoding; String::as_bytes is that encoding (vstd::utf8::encode_utf8,
// the same function by which vstd specifies str::as_bytes); char::encode_utf8 returns the one-character string.
pub assume_specification[ String::len ](s: &String) -> (r: usize)
	ensures r == encode_utf8(s@).len(), (forall|i: int| 0 <= i < s@.len() ==> (#[trigger] s@[i]) as u32 <= 0x7f) ==> r == s@.len();
pub assume_specification[ String::as_bytes ](s: &String) -> (r: &[u8])
	ensures r@ == encode_utf8(s@);
pub assume_specification[ char::encode_utf8 ](c: char, dst: &mut [u8]) -> (r: &mut str)
	requires old(dst)@.len() >= 4,
	ensures r@ == seq![c];
// derive-generated Clone of Location (String, Range<usize>, usize, usize) is the identity
impl Clone for Location { #[verifier::external_body] fn clone(&self) -> (r: Self) ensures r == *self { Location { source_filename: self.source_filename.clone(), span: self.span.clone(), line_number: self.line_number, line_offset: self.line_offset } } }
// RA11 target: str::split_inclusive('\n'), collected.  Exact model of the std function (trusted): the pieces concatenate to
// the source, none is empty, every piece but the last ends in '\n', and '\n' occurs nowhere else in a piece; a str is at
// most isize::MAX bytes, hence characters, long.
pub open spec fn cat(p: Seq<&str>, n: int) -> Seq<char>
	decreases n
{
	if n <= 0 { Seq::empty() } else { cat(p, n - 1) + p[n - 1]@ }
}
pub open spec fn pieces_ok(p: Seq<&str>, s: Seq<char>) -> bool {
	&&& cat(p, p.len() as int) =~= s
	&&& forall|i: int| 0 <= i < p.len() ==> (#[trigger] p[i])@.len() >= 1
	&&& forall|i: int| 0 <= i < p.len() - 1 ==> (#[trigger] p[i])@.last() == '\n'
	&&& forall|i: int, j: int| 0 <= i < p.len() && 0 <= j < p[i]@.len() - 1 ==> (#[trigger] p[i]@[j]) != '\n'
}
#[verifier::external_body]
pub fn lexa_split_inclusive<'a>(source: &'a str) -> (r: Vec<&'a str>)
	ensures pieces_ok(r@, source@), source@.len() <= isize::MAX,
{ source.split_inclusive('\n').collect() }
// RA14 target: str::strip_suffix with a char pattern
#[verifier::external_body]
pub fn lexa_strip_suffix_char<'a>(s: &'a str, c: char) -> (r: Option<&'a str>)
	ensures match r {
		Some(p) => s@.len() >= 1 && s@.last() == c && p@ =~= s@.drop_last(),
		None => s@.len() == 0 || s@.last() != c,
	},
{ s.strip_suffix(c) }
// RA13 target: byte length of a str
#[verifier::external_body]
pub fn lexa_str_len(s: &str) -> (r: usize)
	ensures r == encode_utf8(s@).len(), (r == 0) == (s@.len() == 0),
{ s.len() }

// Option::map_or (not called by the pinned lexer; present so that a refactoring that uses it is still decided)
pub assume_specification<T, U, F: core::ops::FnOnce(T) -> U>[ core::option::Option::<T>::map_or ](o: Option<T>, d: U, f: F) -> (r: U)
	requires o.is_some() ==> f.requires((o.unwrap(),)),
	ensures o.is_none() ==> r == d, o.is_some() ==> f.ensures((o.unwrap(),), r);

// further char classification methods (not called by the pinned lexer; declared so that a change which uses them is judged
// by the contracts instead of being rejected): exact on ASCII; on non-ASCII the Unicode tables are left uninterpreted
pub uninterp spec fn uni_alphabetic(c: char) -> bool;
pub uninterp spec fn uni_numeric(c: char) -> bool;
pub uninterp spec fn uni_whitespace(c: char) -> bool;
pub open spec fn ascii_alpha(c: char) -> bool { (65 <= c as u32 <= 90) || (97 <= c as u32 <= 122) }
pub open spec fn ascii_dig(c: char) -> bool { 48 <= c as u32 <= 57 }
pub assume_specification[ char::is_ascii_alphabetic ](c: &char) -> (r: bool)
	ensures r == ascii_alpha(*c);
pub assume_specification[ char::is_ascii_alphanumeric ](c: &char) -> (r: bool)
	ensures r == (ascii_alpha(*c) || ascii_dig(*c));
pub assume_specification[ char::is_ascii_lowercase ](c: &char) -> (r: bool)
	ensures r == (97 <= *c as u32 <= 122);
pub assume_specification[ char::is_ascii_uppercase ](c: &char) -> (r: bool)
	ensures r == (65 <= *c as u32 <= 90);
pub assume_specification[ char::is_alphabetic ](c: char) -> (r: bool)
	ensures (c as u32) < 128 ==> r == ascii_alpha(c), (c as u32) >= 128 ==> r == uni_alphabetic(c);
pub assume_specification[ char::is_numeric ](c: char) -> (r: bool)
	ensures (c as u32) < 128 ==> r == ascii_dig(c), (c as u32) >= 128 ==> r == uni_numeric(c);
pub assume_specification[ char::is_alphanumeric ](c: char) -> (r: bool)
	ensures (c as u32) < 128 ==> r == (ascii_alpha(c) || ascii_dig(c)), (c as u32) >= 128 ==> r == (uni_alphabetic(c) || uni_numeric(c));
pub assume_specification[ char::is_ascii_whitespace ](c: &char) -> (r: bool)
	ensures r == (*c == ' ' || *c as u32 == 9 || *c as u32 == 10 || *c as u32 == 12 || *c as u32 == 13);
pub assume_specification[ char::is_ascii_punctuation ](c: &char) -> (r: bool)
	ensures r == ((33 <= *c as u32 <= 47) || (58 <= *c as u32 <= 64) || (91 <= *c as u32 <= 96) || (123 <= *c as u32 <= 126));
pub assume_specification[ char::is_ascii_control ](c: &char) -> (r: bool)
	ensures r == ((*c as u32) < 32 || *c as u32 == 127);
