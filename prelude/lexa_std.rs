// Assumed std specs and trusted wrappers used by the alpha lexer (U-LEXA).
use vstd::utf8::*;
use vstd::string::StringSliceAdditionalSpecFns;
#[verifier::external_type_specification]
#[verifier::external_body]
pub struct ExParseIntError(core::num::ParseIntError);

pub assume_specification[ u128::from_str_radix ](src: &str, radix: u32) -> (r: Result<u128, core::num::ParseIntError>)
	requires 2 <= radix <= 36;
pub assume_specification[ u32::from_str_radix ](src: &str, radix: u32) -> (r: Result<u32, core::num::ParseIntError>)
	requires 2 <= radix <= 36;
pub assume_specification[ u8::from_str_radix ](src: &str, radix: u32) -> (r: Result<u8, core::num::ParseIntError>)
	requires 2 <= radix <= 36;
pub assume_specification[ char::from_u32 ](x: u32) -> (r: Option<char>);
pub assume_specification[ String::as_bytes ](s: &String) -> (r: &[u8]);
pub assume_specification[ String::len ](s: &String) -> (r: usize);
pub assume_specification[ char::encode_utf8 ](c: char, dst: &mut [u8]) -> (r: &mut str);
pub assume_specification[ char::is_ascii_hexdigit ](c: &char) -> (r: bool);
pub assume_specification[ char::is_ascii_digit ](c: &char) -> (r: bool);
pub assume_specification[ char::is_ascii_graphic ](c: &char) -> (r: bool);
pub assume_specification[ char::is_ascii ](c: &char) -> (r: bool);
pub assume_specification[ char::is_digit ](c: char, radix: u32) -> (r: bool)
	requires 2 <= radix <= 36;
#[verifier::external_body]
pub fn lexa_char_to_string(x: char) -> (r: String)
	ensures r@ == seq![x]
{ x.to_string() }
#[verifier::external_body]
pub fn lexa_parse_u128(s: &str) -> (r: Result<u128, core::num::ParseIntError>)
{ s.parse() }
impl Clone for Location { #[verifier::external_body] fn clone(&self) -> (r: Self) ensures r == *self { Location { source_filename: self.source_filename.clone(), span: self.span.clone(), line_number: self.line_number, line_offset: self.line_offset } } }
