// U-CONST: trusted text (std spec, opaque third-party types).  Everything else of the unit is sliced.
// termination through Vec<Self> fields (axiom of vstd, not ours)
broadcast use vstd::std_specs::vec::axiom_vec_index_decreases;
// Assumed std spec (trusted; same text as prelude/ast_opaque.rs, prelude/mutw_std.rs): rule R1 turns `v.into_iter().map(f).collect()`
// into `v.reverse(); while let Some(x) = v.pop() { out.push(f(x)) }`
pub assume_specification<T>[ <[T]>::reverse ](s: &mut [T])
	ensures final(s)@ == old(s)@.reverse();
// opaque: alpha::common::DeclarationFlag and enumset::EnumSet (constness.rs only moves the `flags` field of a declaration)
#[verifier::external_body] pub struct DeclarationFlag { _p: u8 }
#[verifier::external_body] #[verifier::accept_recursive_types(T)] pub struct EnumSet<T> { _p: core::marker::PhantomData<T> }
// Assumed std spec (trusted; same text as prelude/export_std.rs, prelude/fcall_std.rs): the derived-style `Clone` of `Result`
// clones the payload of whichever side is there (used by typer.rs `Typed for Expression::value_type`, which clones the recorded type)
pub assume_specification<T: Clone, E: Clone>[ <Result<T, E> as Clone>::clone ](a: &Result<T, E>) -> (r: Result<T, E>)
	ensures
		a is Ok ==> r is Ok && cloned::<T>(a->Ok_0, r->Ok_0),
		a is Err ==> r is Err && cloned::<E>(a->Err_0, r->Err_0);
