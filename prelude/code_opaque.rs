// Opaque stand-ins for the field types of `enum Error` that `Error::code()` never looks into
// (DESIGN.md 2.2 item 4).  `lexer::Error` is NOT opaque in this unit: code() matches on it, so the real
// enum is sliced from src/alpha/lexer.rs into `mod lexer` by units/u_code.py.
#[verifier::external_body] pub struct Location { _p: u8 }
#[verifier::external_body] pub struct ValueType { _p: u8 }
#[verifier::external_body] pub struct OperandValueType { _p: u8 }
