// U-PLIT prelude, part 2 (trusted text; everything here is ASSUMED, not proved): the parser functions that the two functions
// under contract CALL but that are not part of the unit (reference / type / argument list / array / struct body / expression
// parsing; find_builtin).  Their RESULTS are unconstrained - the unit knows nothing about what they parse; assumed is only
// location hygiene, which Location::combined_with (U-LOC, requires forward spans) needs: they keep the cursor well formed
// (every token location a forward span) and hand back nodes whose location is a forward span.
#[verifier::external_body]
pub fn parse_expression(tokens: &mut Tokens) -> (r: Result<Expression, Error>)
	requires tokens_wf(*old(tokens)),
	ensures tokens_wf(*final(tokens)), r is Ok ==> expr_wf(r->Ok_0),
{ unimplemented!() }
#[verifier::external_body]
pub fn parse_wellformed_type(tokens: &mut Tokens) -> (r: Result<ValueType, Error>)
	requires tokens_wf(*old(tokens)),
	ensures tokens_wf(*final(tokens)),
{ unimplemented!() }
#[verifier::external_body]
pub fn parse_reference(tokens: &mut Tokens) -> (r: Result<Reference, Error>)
	requires tokens_wf(*old(tokens)),
	ensures tokens_wf(*final(tokens)), r is Ok ==> forward(r->Ok_0.location),
{ unimplemented!() }
#[verifier::external_body]
pub fn parse_rest_of_reference(name: String, location: Location, tokens: &mut Tokens) -> (r: Result<Reference, Error>)
	requires tokens_wf(*old(tokens)), forward(location),
	ensures tokens_wf(*final(tokens)), r is Ok ==> forward(r->Ok_0.location),
{ unimplemented!() }
#[verifier::external_body]
pub fn parse_addressed_reference(location: Location, tokens: &mut Tokens) -> (r: Result<Reference, Error>)
	requires tokens_wf(*old(tokens)), forward(location),
	ensures tokens_wf(*final(tokens)), r is Ok ==> forward(r->Ok_0.location),
{ unimplemented!() }
#[verifier::external_body]
pub fn parse_arguments(tokens: &mut Tokens) -> (r: Result<Vec<Expression>, Error>)
	requires tokens_wf(*old(tokens)),
	ensures tokens_wf(*final(tokens)),
{ unimplemented!() }
#[verifier::external_body]
pub fn parse_body_of_structural(tokens: &mut Tokens) -> (r: Result<Vec<MemberExpression>, Error>)
	requires tokens_wf(*old(tokens)),
	ensures tokens_wf(*final(tokens)),
{ unimplemented!() }
#[verifier::external_body]
pub fn parse_rest_of_array(array: Array, tokens: &mut Tokens) -> (r: Result<Array, Error>)
	requires tokens_wf(*old(tokens)), forward(array.location),
	ensures tokens_wf(*final(tokens)), r is Ok ==> forward(r->Ok_0.location),
{ unimplemented!() }
#[verifier::external_body]
pub fn find_builtin(name: String) -> (r: (String, Option<Builtin>))
{ unimplemented!() }
// std: `i128::unsigned_abs`: "Computes the absolute value of self without any wrapping or panicking."
pub assume_specification[ i128::unsigned_abs ](x: i128) -> (r: u128)
	ensures r as int == (if x < 0 { -(x as int) } else { x as int });
