// R14 helper (VERIFIED, not assumed): first element of a slice satisfying a predicate closure.
pub fn slice_find<'a, T, P: Fn(&&'a T) -> bool>(s: &'a [T], p: P) -> (r: Option<&'a T>)
	requires forall|x: &'a T| p.requires((&x,)),
	ensures match r {
		Some(x) => exists|j: int| 0 <= j < s@.len() && *x == s@[j] && p.ensures((&&s@[j],), true)
			&& forall|k: int| 0 <= k < j ==> p.ensures((&&#[trigger] s@[k],), false),
		None => forall|k: int| 0 <= k < s@.len() ==> p.ensures((&&#[trigger] s@[k],), false),
	}
{
	let mut i: usize = 0;
	while i < s.len()
		invariant i <= s@.len(), forall|x: &'a T| p.requires((&x,)),
			forall|k: int| 0 <= k < i ==> p.ensures((&&#[trigger] s@[k],), false),
		decreases s@.len() - i,
	{
		let x = &s[i];
		if p(&x) { return Some(x); }
		i += 1;
	}
	None
}
