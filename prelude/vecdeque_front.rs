// trusted: VecDeque::front returns a reference to the first element, if any (std documentation)
pub assume_specification<T, A: core::alloc::Allocator>[ VecDeque::<T, A>::front ](d: &VecDeque<T, A>) -> (r: Option<&T>)
    ensures
        match r { Some(t) => d@.len() > 0 && *t == d@[0], None => d@.len() == 0 },
;
