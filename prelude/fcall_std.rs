// U-FCALL: trusted text (std specs, opaque third-party types, derive-generated code).  Everything else of the unit is sliced.
// vstd's model of std::collections::HashMap (u32 keys obey the hash-table key model; axioms of vstd, not ours)
use std::collections::HashMap;
broadcast use {vstd::std_specs::hash::group_hash_axioms, vstd::std_specs::vec::axiom_vec_index_decreases};
// opaque third party: enumset::EnumSet<DeclarationFlag> is only moved by this file
#[verifier::external_body] pub struct DeclarationFlag { _p: u8 }
#[verifier::external_body] #[verifier::accept_recursive_types(T)] pub struct EnumSet<T> { _p: core::marker::PhantomData<T> }
// Assumed std spec (trusted): `[T]::to_vec` clones the slice element-wise (same text as prelude/res_opaque.rs)
pub assume_specification<T: Clone>[ <[T]>::to_vec ](s: &[T]) -> (r: Vec<T>)
	ensures r@.len() == s@.len(), forall|i: int| 0 <= i < s@.len() ==> vstd::pervasive::cloned(#[trigger] s@[i], r@[i]);
// Assumed std spec (trusted): the derived-style `Clone` of `Result` clones the payload of whichever side is there (same text as prelude/export_std.rs)
pub assume_specification<T: Clone, E: Clone>[ <Result<T, E> as Clone>::clone ](a: &Result<T, E>) -> (r: Result<T, E>)
	ensures
		a is Ok ==> r is Ok && cloned::<T>(a->Ok_0, r->Ok_0),
		a is Err ==> r is Err && cloned::<E>(a->Err_0, r->Err_0);
// trusted: #[derive(Clone)] of common::Parameter is the identity
impl Clone for Parameter { #[verifier::external_body] fn clone(&self) -> (r: Self) ensures r == *self { unimplemented!() } }
// Assumed std spec (trusted; same text as prelude/ast_opaque.rs): [T]::reverse (introduced by rule R1)
pub assume_specification<T>[ <[T]>::reverse ](s: &mut [T])
	ensures final(s)@ == old(s)@.reverse();
