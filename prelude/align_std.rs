// Assumed std specs used by U-ALIGN (trusted; std documentation)
// usize::next_power_of_two: "Returns the smallest power of two greater than or equal to self"; panics (debug) / wraps to 0
// (release) when that exceeds usize::MAX, hence the precondition.
// The (deterministic) result is named by an uninterpreted function so that ghost text can refer to it.
pub uninterp spec fn next_power_of_two_spec(x: usize) -> usize;
pub assume_specification [usize::next_power_of_two] (x: usize) -> (r: usize)
	requires x <= 0x8000_0000_0000_0000usize,
	ensures r == next_power_of_two_spec(x), is_pow2(r as int), r >= x, forall|p: int| is_pow2(p) && p >= x ==> r <= p;
// [T]::to_vec: element-wise clone
pub assume_specification<T: Clone> [<[T]>::to_vec] (s: &[T]) -> (r: Vec<T>)
	ensures r@.len() == s@.len(), forall|i: int| 0 <= i < s@.len() ==> cloned::<T>(#[trigger] s@[i], r@[i]);
