// U-EXPORT prelude (trusted text; everything here is ASSUMED, not proved).
//
// (1) Trusted model of the third-party crate `enumset` (1.1.x): an `EnumSet<T>` is viewed as the mathematical
//     set of the flags it holds.  The struct is opaque (the real one is a bit mask `T::Repr`); only the two
//     operations the sliced code (`extract_public`) calls are given a spec:
//        EnumSet::clone   -- the real type is `#[derive(Copy, Clone)]`: the clone is the same value
//        EnumSet::remove  -- enumset/src/set.rs: `let contains = self.contains(value); self.repr.remove_bit(..); contains`
//     The `T: EnumSetType` bound of the real struct is dropped together with the `EnumSetType` derive on
//     `DeclarationFlag` (DESIGN.md 2.2 item 1).
#[verifier::external_body]
#[verifier::accept_recursive_types(T)]
pub struct EnumSet<T> { _p: core::marker::PhantomData<T> }

impl<T> View for EnumSet<T> {
	type V = Set<T>;
	uninterp spec fn view(&self) -> Set<T>;
}

impl<T> Clone for EnumSet<T> {
	#[verifier::external_body]
	fn clone(&self) -> (r: Self)
		ensures r == *self
	{ unimplemented!() }
}

impl<T> EnumSet<T> {
	#[verifier::external_body]
	pub fn remove(&mut self, value: T) -> (r: bool)
		ensures
			r == old(self)@.contains(value),
			final(self)@ == old(self)@.remove(value),
	{ unimplemented!() }
}

// further enumset operations (not used by the pinned code; declared so that a change which uses them is judged by the
// contracts instead of being rejected by the type checker)
impl<T> EnumSet<T> {
	#[verifier::external_body] pub fn contains(&self, value: T) -> (r: bool) ensures r == self@.contains(value) { unimplemented!() }
	#[verifier::external_body] pub fn insert(&mut self, value: T) -> (r: bool) ensures r == !old(self)@.contains(value), final(self)@ == old(self)@.insert(value) { unimplemented!() }
	#[verifier::external_body] pub fn new() -> (r: Self) ensures r@ == Set::<T>::empty() { unimplemented!() }
	#[verifier::external_body] pub fn empty() -> (r: Self) ensures r@ == Set::<T>::empty() { unimplemented!() }
	#[verifier::external_body] pub fn only(value: T) -> (r: Self) ensures r@ == Set::<T>::empty().insert(value) { unimplemented!() }
	#[verifier::external_body] pub fn is_empty(&self) -> (r: bool) ensures r == (self@ == Set::<T>::empty()) { unimplemented!() }
	#[verifier::external_body] pub fn clear(&mut self) ensures final(self)@ == Set::<T>::empty() { unimplemented!() }
	#[verifier::external_body] pub fn difference(&self, o: Self) -> (r: Self) ensures r@ == self@.difference(o@) { unimplemented!() }
	#[verifier::external_body] pub fn intersection(&self, o: Self) -> (r: Self) ensures r@ == self@.intersect(o@) { unimplemented!() }
	#[verifier::external_body] pub fn union(&self, o: Self) -> (r: Self) ensures r@ == self@.union(o@) { unimplemented!() }
}
impl<T> Copy for EnumSet<T> {}

// (2) Opaque stand-ins for the field types of `enum Declaration` that `export` only clones or drops
//     (DESIGN.md 2.2 item 4); their derived `Clone` is assumed to be the identity.
#[verifier::external_body] pub struct Location { _p: u8 }
#[verifier::external_body] pub struct Identifier { _p: u8 }
#[verifier::external_body] pub struct Expression { _p: u8 }
#[verifier::external_body] pub struct ValueType { _p: u8 }
#[verifier::external_body] pub struct Parameter { _p: u8 }
#[verifier::external_body] pub struct Member { _p: u8 }
#[verifier::external_body] pub struct FunctionBody { _p: u8 }
#[verifier::external_body] pub struct Poison { _p: u8 }
impl Clone for Location { #[verifier::external_body] fn clone(&self) -> (r: Self) ensures r == *self { unimplemented!() } }
impl Clone for Identifier { #[verifier::external_body] fn clone(&self) -> (r: Self) ensures r == *self { unimplemented!() } }
impl Clone for Expression { #[verifier::external_body] fn clone(&self) -> (r: Self) ensures r == *self { unimplemented!() } }
impl Clone for ValueType { #[verifier::external_body] fn clone(&self) -> (r: Self) ensures r == *self { unimplemented!() } }
impl Clone for Parameter { #[verifier::external_body] fn clone(&self) -> (r: Self) ensures r == *self { unimplemented!() } }
impl Clone for Member { #[verifier::external_body] fn clone(&self) -> (r: Self) ensures r == *self { unimplemented!() } }
impl Clone for FunctionBody { #[verifier::external_body] fn clone(&self) -> (r: Self) ensures r == *self { unimplemented!() } }
impl Clone for Poison { #[verifier::external_body] fn clone(&self) -> (r: Self) ensures r == *self { unimplemented!() } }
