// ---- comparisons (hand-written driver; the compared functions above are generated) ----------------------------
use enumset::EnumSet;
use penne::alpha::common::DeclarationFlag;

fn vecs() -> Vec<Vec<i32>> {
    let mut out = vec![vec![]];
    for a in -1..4 { out.push(vec![a]); for b in 0..4 { out.push(vec![a, b]); for c in 2..4 { out.push(vec![a, b, c]); out.push(vec![c, a, b, a]); } } }
    out
}

fn main() {
    let mut n: u64 = 0;
    // R1 / R2 / R3: stateful closures, order of side effects and of results
    for v in vecs() {
        let (mut s1, mut s2) = (1, 1);
        assert_eq!(orig_R1(v.clone(), &mut s1), rew_R1(v.clone(), &mut s2)); assert_eq!(s1, s2);
        let (mut s1, mut s2) = (1, 1);
        assert_eq!(orig_R2(v.clone(), &mut s1), rew_R2(v.clone(), &mut s2)); assert_eq!(s1, s2);
        assert_eq!(orig_R17(v.clone()), rew_R17(v.clone()));
        n += 3;
    }
    println!("RULECHECK R1/R2/R17 map-collect and enumerate loops: {} vectors, original == rewritten (results and closure state)", vecs().len());
    for o in [None, Some(0), Some(3), Some(-7)] { let (mut s1, mut s2) = (5, 5); assert_eq!(orig_R3(o, &mut s1), rew_R3(o, &mut s2)); assert_eq!(s1, s2); n += 1; }
    println!("RULECHECK R3 Option::map to match: 4 cases equal");
    for a in -3..6 { for b in -3..6 { assert_eq!(orig_R4(a, b), rew_R4(a, b)); assert_eq!(orig_R13(a, b), rew_R13(a, b)); assert_eq!(orig_R20(a, b), rew_R20(a, b)); n += 3; } }
    println!("RULECHECK R4 closure inlining, R13 assert_eq, R20 parameter patterns: 81 argument pairs each, equal");
    for a in [0usize, 1, 13, 14, 15, 199, 200, 201, usize::MAX] { for b in [0usize, 99, 100, 101, usize::MAX] { assert_eq!(orig_R21(a, b), rew_R21(a, b)); n += 1; } }
    println!("RULECHECK R21 std::cmp::min/max vs usize_min/usize_max: 45 pairs equal");
    // helper shims against the std functions they replace
    for v in vecs() {
        for k in -1..5 {
            assert_eq!(slice_find(v.as_slice(), |x: &&i32| **x == k), v.iter().find(|x| **x == k));
            assert_eq!(slice_any(v.as_slice(), |x: &i32| *x == k), v.iter().any(|x| *x == k));
            n += 2;
        }
        let f = |x: i32| x > 1;
        assert_eq!(slice_count(v.as_slice(), f), v.iter().filter(|&&x| f(x)).count()); n += 1;
    }
    println!("RULECHECK R14/R22 slice_find, slice_any, slice_count vs iter().find/any/filter().count(): all vectors x 6 keys equal");
    // R7 slice_eq vs byte-string patterns
    let words: [&[u8]; 8] = [b"fn", b"f", b"", b"fnn", b"i8", b"i128", b"usize", b"u128"];
    for a in words { for b in words { assert_eq!(slice_eq(a, b), a == b); n += 1; } }
    println!("RULECHECK R7 slice_eq vs ==: 64 pairs equal");
    // R5 PeekIter vs Peekable<Enumerate<Copied<Iter<u8>>>> on all byte strings of length <= 4 over a 3-letter alphabet and all
    // operation sequences of length <= 5 over {next, peek, next_if(!= b'a')}
    let alphabet = [b'a', b'\n', b'z'];
    let mut strings: Vec<Vec<u8>> = vec![vec![]];
    for len in 1..=4 { let mut cur: Vec<Vec<u8>> = vec![vec![]]; for _ in 0..len { let mut nxt = vec![]; for s in &cur { for c in alphabet { let mut t = s.clone(); t.push(c); nxt.push(t); } } cur = nxt; } strings.extend(cur); }
    let mut seqs: Vec<Vec<u8>> = vec![vec![]];
    for len in 1..=5 { let mut cur: Vec<Vec<u8>> = vec![vec![]]; for _ in 0..len { let mut nxt = vec![]; for s in &cur { for c in 0..3u8 { let mut t = s.clone(); t.push(c); nxt.push(t); } } cur = nxt; } seqs.extend(cur); }
    let mut cases = 0u64;
    for s in &strings { for ops in &seqs {
        let mut a = s.iter().copied().enumerate().peekable();
        let mut b = PeekIter::new(s.as_slice());
        for op in ops { match op {
            0 => assert_eq!(a.next(), b.next()),
            1 => assert_eq!(a.peek().copied(), b.peek()),
            _ => assert_eq!(a.next_if(|&(_, y)| y != b'a'), b.next_if(|p: &(usize, u8)| p.1 != b'a')),
        } }
        cases += 1;
    } }
    println!("RULECHECK R5 PeekIter vs std Peekable chain: {} (string, operation sequence) cases equal", cases);
    // finite-domain assumed std specs
    for x in 0..=255u8 { assert_eq!(x.is_ascii_graphic(), (0x21..=0x7e).contains(&x)); assert_eq!(x.is_ascii(), x <= 0x7f); }
    println!("RULECHECK u8::is_ascii / is_ascii_graphic: all 256 bytes match the assumed spec");
    for x in 0..0x120000u32 { let scalar = x < 0xD800 || (0xE000 <= x && x <= 0x10FFFF); assert_eq!(char::from_u32(x).is_some(), scalar); }
    assert!(char::from_u32(u32::MAX).is_none());
    println!("RULECHECK char::from_u32: 0..0x120000 and u32::MAX match is_scalar");
    for d in 0..=255u8 { assert_eq!(penne::delta::lexer::ValueTypeKeyword::from_repr(d).is_some(), d <= 14); }
    println!("RULECHECK strum from_repr(ValueTypeKeyword): Some iff discriminant <= 14 (all 256 values)");
    // enumset bit model over the 5-flag enum: bit of a flag, insert, contains, difference, from, ==
    let flags = [DeclarationFlag::Public, DeclarationFlag::External, DeclarationFlag::Main, DeclarationFlag::Forward, DeclarationFlag::OpaqueStruct];
    let bit = |f: DeclarationFlag| -> u8 { match f { DeclarationFlag::Public => 1, DeclarationFlag::External => 2, DeclarationFlag::Main => 4, DeclarationFlag::Forward => 8, DeclarationFlag::OpaqueStruct => 16 } };
    let set_of = |bits: u8| -> EnumSet<DeclarationFlag> { let mut s = EnumSet::new(); for f in flags { if bits & bit(f) != 0 { s.insert(f); } } s };
    let bits_of = |s: EnumSet<DeclarationFlag>| -> u8 { let mut b = 0; for f in flags { if s.contains(f) { b |= bit(f); } } b };
    for a in 0..32u8 {
        let s = set_of(a); assert_eq!(bits_of(s), a); assert_eq!(s.as_u8(), a);
        for f in flags {
            let mut t = s; t.insert(f); assert_eq!(bits_of(t), a | bit(f));
            assert_eq!(s.contains(f), a & bit(f) != 0);
            assert_eq!(bits_of(s.difference(EnumSet::from(f))), a & !bit(f));
            assert_eq!(bits_of(EnumSet::from(f)), bit(f));
            assert_eq!(s == f, a == bit(f));
            let mut r = s; r.remove(f); assert_eq!(bits_of(r), a & !bit(f));
        }
        for b in 0..32u8 { assert_eq!(set_of(a) == set_of(b), a == b); }
        assert_eq!(s.is_empty(), a == 0);
    }
    assert_eq!(bits_of(EnumSet::new()), 0);
    println!("RULECHECK enumset over DeclarationFlag: 32 sets x 5 flags: new/insert/contains/difference/from/remove/==/is_empty match the bit model (and as_u8)");
    println!("RULECHECK total comparisons: {}", n + cases);
}
