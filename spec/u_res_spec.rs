// ---------------------------------------------------------------------------------------------
// U-RES ghost specification (hand-written, ghost only).  Oracle for property C07, second half:
//   "each operator is applied only to its documented type class: arithmetic to integers, bitwise and
//    shift to unsigned integers, negation to signed, ordering not to pointers, `as` only between
//    primitive types.  Every program violating one of these rules is rejected with the matching E5xx code."
// The classes below are written from that sentence and docs/errors.md (E550-E553), not from resolver.rs.
// `signed`, `unsigned_fixed`, `teq`, `wf` come from spec/u_vt_spec.rs (module value_type).
// ---------------------------------------------------------------------------------------------

// ---- identifier equality: alpha::common::Identifier has a hand-written `==`; this is its meaning, and the
// sliced `impl PartialEq for Identifier :: fn eq` is VERIFIED against it (vstd's spec of PartialEq::eq).
// It discharges the hypothesis `id_eq::<I>()` of U-VT for the one identifier type the compiler uses.
pub open spec fn id_equal(a: Identifier, b: Identifier) -> bool {
	if a.resolution_id > 0 { a.resolution_id == b.resolution_id } else { loc_eq(a.location, b.location) }
}
impl vstd::std_specs::cmp::PartialEqSpecImpl for Identifier {
	open spec fn obeys_eq_spec() -> bool { true }
	open spec fn eq_spec(&self, o: &Self) -> bool { id_equal(*self, *o) }
}

// trusted: `#[derive(PartialEq)]` on the field-less enum BinaryOp is structural equality (Verus does not verify derived
// impls; checked by mutation that this spec is assumed, not proved).  Used once: `op == BinaryOp::AdvancePointer`.
impl vstd::std_specs::cmp::PartialEqSpecImpl for BinaryOp {
	open spec fn obeys_eq_spec() -> bool { true }
	open spec fn eq_spec(&self, o: &Self) -> bool { *self == *o }
}

// `Errors: From<Error>` etc. opt out of vstd's value-level `from_spec` (a Vec cannot be built in spec code);
// the sliced `from` bodies are verified against their own `ensures` instead.
impl vstd::std_specs::convert::FromSpecImpl<Error> for Errors {
	open spec fn obeys_from_spec() -> bool { false }
	open spec fn from_spec(e: Error) -> Self { arbitrary() }
}
impl vstd::std_specs::convert::FromSpecImpl<Poison> for Errors {
	open spec fn obeys_from_spec() -> bool { false }
	open spec fn from_spec(e: Poison) -> Self { arbitrary() }
}
impl<T1: Into<Errors>, T2: Into<Errors>> vstd::std_specs::convert::FromSpecImpl<(T1, T2)> for Errors {
	open spec fn obeys_from_spec() -> bool { false }
	open spec fn from_spec(e: (T1, T2)) -> Self { arbitrary() }
}
// a poisoned value carries the error that poisoned it, or nothing when that error was already reported
pub open spec fn poison_errors(p: Poison) -> Seq<Error> {
	match p { Poison::Error(e) => seq![e], Poison::Poisoned => Seq::empty() }
}

// ---- operands: the type the typer recorded for an expression, when there is one and it is not poisoned
pub open spec fn given_type(o: Option<Poisonable<ValueType>>) -> Option<ValueType> {
	match o { Some(Ok(t)) => Some(t), _ => None }
}
pub open spec fn known_type(e: Expression) -> Option<ValueType> { given_type(expr_type(e)) }
pub open spec fn has_type(e: Expression) -> bool { known_type(e) is Some }
pub open spec fn type_of(e: Expression) -> ValueType { known_type(e)->0 }
// "both sides of each binary operator / comparison have the identical type" (identical = what `==` on types computes)
pub open spec fn operands_identical(l: Expression, r: Expression) -> bool {
	has_type(l) && has_type(r) && teq(type_of(r), type_of(l))
}

// ---- type classes of the property statement ------------------------------------------------
// "integers": i8..i128, u8..u128, usize
pub open spec fn integer(t: ValueType) -> bool { signed(t) || unsigned_fixed(t) || t is Usize }
// arithmetic: integers; `char8` is an 8-bit integer code unit (alias of u8), read inclusively (DESIGN.md C07)
pub open spec fn arithmetic_class(t: ValueType) -> bool { integer(t) || t is Char8 }
// bitwise and shift: unsigned integers of fixed width
pub open spec fn bits_class(t: ValueType) -> bool { unsigned_fixed(t) }
// negation: signed integers
pub open spec fn negation_class(t: ValueType) -> bool { signed(t) }
// complement: bool (logical not) or unsigned fixed-width integers
pub open spec fn complement_class(t: ValueType) -> bool { t is Bool || unsigned_fixed(t) }
// a primitive: what can be compared by value
pub open spec fn primitive(t: ValueType) -> bool { integer(t) || t is Char8 || t is Bool }
// ordering: primitives, never pointers
pub open spec fn ordering_class(t: ValueType) -> bool { primitive(t) && !(t is Pointer) }
// equality: primitives and pointers (address comparison)
pub open spec fn equality_class(t: ValueType) -> bool { primitive(t) || t is Pointer }
// `..` advances a pointer
pub open spec fn pointer_class(t: ValueType) -> bool { t is Pointer }

pub open spec fn is_arithmetic(op: BinaryOp) -> bool { op is Add || op is Subtract || op is Multiply || op is Divide || op is Modulo }
pub open spec fn is_bitwise_or_shift(op: BinaryOp) -> bool { op is BitwiseAnd || op is BitwiseOr || op is BitwiseXor || op is ShiftLeft || op is ShiftRight }
pub open spec fn is_ordering(op: ComparisonOp) -> bool { op is IsGreater || op is IsLess || op is IsGE || op is IsLE }

pub open spec fn binary_class(op: BinaryOp, t: ValueType) -> bool {
	if is_arithmetic(op) { arithmetic_class(t) } else if is_bitwise_or_shift(op) { bits_class(t) } else { pointer_class(t) }
}
pub open spec fn unary_class(op: UnaryOp, t: ValueType) -> bool {
	if op is Negative { negation_class(t) } else { complement_class(t) }
}
pub open spec fn comparison_class(op: ComparisonOp, t: ValueType) -> bool {
	if is_ordering(op) { ordering_class(t) } else { equality_class(t) }
}

// ---- what a table of operand types accepts ---------------------------------------------------
// an entry is a concrete type (matched with the derived `==`, i.e. teq) or the wildcard "any pointer"
pub open spec fn entry_matches(e: OperandValueType, t: ValueType) -> bool {
	match e {
		value_type::OperandValueType::ValueType(v) => teq(v, t),
		value_type::OperandValueType::Pointer => t is Pointer,
	}
}
// t is accepted by table s  <=>  some entry matches (declarative form)
pub open spec fn in_table(s: Seq<OperandValueType>, t: ValueType) -> bool {
	exists|k: int| 0 <= k < s.len() && entry_matches(#[trigger] s[k], t)
}
// the same as a finite disjunction over the first n entries (form that unfolds on a literal table)
pub open spec fn in_table_upto(s: Seq<OperandValueType>, n: nat, t: ValueType) -> bool
	decreases n
{
	if n == 0 { false } else { entry_matches(s[n - 1], t) || in_table_upto(s, (n - 1) as nat, t) }
}
pub proof fn lemma_in_table_upto(s: Seq<OperandValueType>, n: nat, t: ValueType)
	requires n <= s.len()
	ensures in_table_upto(s, n, t) == exists|k: int| 0 <= k < n && entry_matches(#[trigger] s[k], t)
	decreases n
{
	if n > 0 {
		lemma_in_table_upto(s, (n - 1) as nat, t);
		if entry_matches(s[n - 1], t) { assert(0 <= n - 1 < n && entry_matches(s[n - 1], t)); }
	}
}
pub broadcast proof fn lemma_in_table(s: Seq<OperandValueType>, t: ValueType)
	ensures #[trigger] in_table(s, t) == in_table_upto(s, s.len(), t)
{
	lemma_in_table_upto(s, s.len(), t);
}
// a table *is* a class when it accepts exactly the types of the class
pub open spec fn table_is(s: Seq<OperandValueType>, class: spec_fn(ValueType) -> bool) -> bool {
	forall|t: ValueType| #[trigger] in_table(s, t) == class(t)
}

// ---- the diagnostics -------------------------------------------------------------------------
// E550 (docs/errors.md: "An operator is used that is not valid for the type of its operand(s)")
pub open spec fn is_e550(e: Error, t: ValueType, op_loc: Location, operand_loc: Location) -> bool {
	e is InvalidOperandType && e->InvalidOperandType_value_type == t
		&& e->InvalidOperandType_location_of_op == op_loc && e->InvalidOperandType_location_of_operand == operand_loc
}
// E551 ("The types of the left and right operand of a binary operator do not match")
pub open spec fn is_e551(e: Error, l: ValueType, r: ValueType, op_loc: Location, l_loc: Location, r_loc: Location) -> bool {
	e is MismatchedOperandTypes && e->type_of_left == l && e->type_of_right == r
		&& e->MismatchedOperandTypes_location_of_op == op_loc && e->location_of_left == l_loc && e->location_of_right == r_loc
}
// E553 ("A bitcast is attempted between incompatible types")
pub open spec fn is_e553(e: Error, from: ValueType, to: ValueType, operand_loc: Location, type_loc: Location) -> bool {
	e is InvalidBitCast && e->InvalidBitCast_value_type == from && e->InvalidBitCast_coerced_type == to
		&& e->InvalidBitCast_location_of_operand == operand_loc && e->InvalidBitCast_location_of_type == type_loc
}
pub open spec fn single(r: Errors) -> Error { r.errors@[0] }
pub open spec fn is_single(r: Errors) -> bool { r.errors@.len() == 1 }

// ---- casts -------------------------------------------------------------------------------------
// `as` (E552): only between *different* primitive types: integer <-> integer, u8 <-> char8, bool -> integer
// ("The only way to get a bool from another type is using conditionals", docs/errors.md E552)
pub open spec fn primitive_conversion(a: ValueType, b: ValueType) -> bool {
	!teq(a, b) && ( (integer(a) && integer(b))
		|| (a is Uint8 && b is Char8) || (a is Char8 && b is Uint8)
		|| (a is Bool && integer(b)) )
}
// `cast .. as` (E553): pointer to pointer, or no-op
pub open spec fn bit_cast(a: ValueType, b: ValueType) -> bool { teq(a, b) || (a is Pointer && b is Pointer) }

// ---- consequences named by the property (proved, not assumed) ----------------------------------
// no operator class contains a compound type other than Pointer, and only `==`/`!=`/`..` admit pointers
pub proof fn theorem_classes_are_primitive_or_pointer(t: ValueType)
	ensures
		forall|op: BinaryOp| #[trigger] binary_class(op, t) ==> (if op is AdvancePointer { t is Pointer } else { integer(t) || t is Char8 }),
		forall|op: BinaryOp| is_bitwise_or_shift(op) && #[trigger] binary_class(op, t) ==> !signed(t) && !(t is Usize) && !(t is Char8) && !(t is Bool),
		forall|op: UnaryOp| op is Negative && #[trigger] unary_class(op, t) ==> signed(t),
		forall|op: ComparisonOp| is_ordering(op) && #[trigger] comparison_class(op, t) ==> !(t is Pointer),
{ }
// a primitive conversion never involves a compound type and never produces a bool; it is never a no-op
pub proof fn theorem_conversion_only_between_primitives(a: ValueType, b: ValueType)
	requires primitive_conversion(a, b)
	ensures primitive(a), primitive(b), !(b is Bool), a != b,
{
	if a == b { lemma_teq_refl_primitive(a); }
}
proof fn lemma_teq_refl_primitive(a: ValueType)
	requires primitive(a)
	ensures teq(a, a)
{ }
