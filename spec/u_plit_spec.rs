// ---------------------------------------------------------------------------------------------------------------------------
// U-PLIT ghost specification (hand-written, ghost only): C09 "literals mean exactly what they say" for the first-generation
// parser.  Written from the property statement: "the expression carries exactly what the token says".
//
//   peeked(t)                 the token the cursor SHOWS: the next one, unless it failed to lex or compares equal to the reserved token
//   advanced(t0, t1)          exactly one token was taken: t1 is t0 without its first token, last_location is that token's
//   token_value(tok)          the number a literal token spells (NakedDecimal / BitInteger / SuffixedInteger / CharLiteral)
//   is_literal_of(tok, l, e)  e is the literal expression for token tok at location l (the clause list of C09, verbatim)
//   denoted(e)                the number an expression denotes when it is an integer literal or a negation of one
//   MIN_MAGNITUDE             2^127, the one magnitude that exists only negated
// ---------------------------------------------------------------------------------------------------------------------------
pub open spec fn forward(l: Location) -> bool { l.span.start <= l.span.end }
pub open spec fn covers(l: Location, part: Location) -> bool { l.span.start <= part.span.start && part.span.end <= l.span.end }
pub open spec fn tokens_wf(t: Tokens) -> bool {
	forward(t.last_location) && forall|i: int| 0 <= i < t.tokens@.len() ==> forward((#[trigger] t.tokens@[i]).location)
}
pub open spec fn hidden_by_reservation(t: Tokens, tok: Token) -> bool {
	t.reserved_token is Some && token_eq(t.reserved_token->Some_0, tok)
}
pub open spec fn peeked(t: Tokens) -> Option<Token> {
	if t.tokens@.len() > 0 && t.tokens@[0].result is Ok && !hidden_by_reservation(t, t.tokens@[0].result->Ok_0) {
		Some(t.tokens@[0].result->Ok_0)
	} else {
		None
	}
}
pub open spec fn advanced(t0: Tokens, t1: Tokens) -> bool {
	&&& t0.tokens@.len() > 0
	&&& t1.tokens@ =~= t0.tokens@.subrange(1, t0.tokens@.len() as int)
	&&& t1.last_location == t0.tokens@[0].location
	&&& t1.reserved_token == t0.reserved_token
}
// the next token lexed fine and is tok
pub open spec fn next_is(t: Tokens, tok: Token) -> bool { t.tokens@.len() > 0 && t.tokens@[0].result == Ok::<Token, lexer::Error>(tok) }
pub open spec fn has_expectation(tok: Token) -> bool {
	tok is Assignment || tok is BraceLeft || tok is BraceRight || tok is BracketLeft || tok is BracketRight || tok is Dot
	|| tok is ParenLeft || tok is ParenRight || tok is Pipe || tok is Semicolon
}

// ---- expressions and their locations (Expression::location panics on a poison)
pub open spec fn loc_ok(e: Expression) -> bool
	decreases e
{
	match e {
		Expression::Autocoerce { expression, .. } => loc_ok(*expression),
		Expression::Poison(_) => false,
		_ => true,
	}
}
pub open spec fn eloc(e: Expression) -> Location
	decreases e
{
	match e {
		Expression::Binary { location, .. } => location,
		Expression::Unary { location, .. } => location,
		Expression::BooleanLiteral { location, .. } => location,
		Expression::SignedIntegerLiteral { location, .. } => location,
		Expression::BitIntegerLiteral { location, .. } => location,
		Expression::StringLiteral { location, .. } => location,
		Expression::ArrayLiteral { array, .. } => array.location,
		Expression::Structural { location, .. } => location,
		Expression::Parenthesized { location, .. } => location,
		Expression::Deref { reference, .. } => reference.location,
		Expression::Autocoerce { expression, .. } => eloc(*expression),
		Expression::BitCast { location, .. } => location,
		Expression::TypeCast { location, .. } => location,
		Expression::LengthOfArray { location, .. } => location,
		Expression::SizeOf { location, .. } => location,
		Expression::FunctionCall { name, .. } => name.location,
		Expression::Poison(_) => arbitrary(),
	}
}
pub open spec fn expr_wf(e: Expression) -> bool { loc_ok(e) && forward(eloc(e)) }

// ---- what a literal token says
pub spec const MIN_MAGNITUDE: int = 0x8000_0000_0000_0000_0000_0000_0000_0000;
pub open spec fn is_integer_token(tok: Token) -> bool { tok is NakedDecimal || tok is BitInteger || tok is SuffixedInteger || tok is CharLiteral }
pub open spec fn is_scalar_literal(tok: Token) -> bool { is_integer_token(tok) || tok is Bool }
pub open spec fn token_value(tok: Token) -> int {
	match tok {
		Token::NakedDecimal(v) => v as int,
		Token::BitInteger(v) => v as int,
		Token::SuffixedInteger { value, .. } => value as int,
		Token::CharLiteral(c) => c as int,
		_ => 0,
	}
}
// the type a literal token states: none for a naked literal, its suffix, char8 for a character
pub open spec fn stated_type(tok: Token) -> Option<Poisonable<ValueType>> {
	match tok {
		Token::SuffixedInteger { suffix_type, .. } => Some(Ok(suffix_type)),
		Token::CharLiteral(_) => Some(Ok(ValueType::Char8)),
		_ => None,
	}
}
// a literal is recorded as a SIGNED integer literal iff it is a decimal without suffix, or has a signed suffix, and fits i128
pub open spec fn read_as_signed(tok: Token) -> bool {
	token_value(tok) <= i128::MAX && match tok {
		Token::NakedDecimal(_) => true,
		Token::SuffixedInteger { suffix_type, .. } => value_type::signed(suffix_type),
		_ => false,
	}
}
pub open spec fn is_literal_of(tok: Token, l: Location, e: Expression) -> bool {
	match tok {
		Token::Bool(b) => e == (Expression::BooleanLiteral { value: b, location: l }),
		_ => is_integer_token(tok) && if read_as_signed(tok) {
			e == (Expression::SignedIntegerLiteral { value: token_value(tok) as i128, value_type: stated_type(tok), location: l })
		} else {
			e == (Expression::BitIntegerLiteral { value: token_value(tok) as u128, value_type: stated_type(tok), location: l })
		},
	}
}
pub open spec fn denoted(e: Expression) -> Option<int>
	decreases e
{
	match e {
		Expression::SignedIntegerLiteral { value, .. } => Some(value as int),
		Expression::BitIntegerLiteral { value, .. } => Some(value as int),
		Expression::Unary { op: UnaryOp::Negative, expression, .. } => match denoted(*expression) { Some(v) => Some(-v), None => None },
		_ => None,
	}
}
// ---- negation
// `-` folds into the literal when the literal is read as signed and is not zero
pub open spec fn folds_when_negated(tok: Token) -> bool { read_as_signed(tok) && token_value(tok) >= 1 }
// 2^127 written as a decimal without suffix or with the suffix i128: exists only negated (i128::MIN)
pub open spec fn spells_magnitude_of_min(tok: Token) -> bool {
	token_value(tok) == MIN_MAGNITUDE && match tok {
		Token::NakedDecimal(_) => true,
		Token::SuffixedInteger { suffix_type, .. } => suffix_type is Int128,
		_ => false,
	}
}
// e is `- <literal tok at l>` with the minus sign at l_op
pub open spec fn is_negation_of_literal(tok: Token, min_seen: bool, l: Location, l_op: Location, e: Expression) -> bool {
	if folds_when_negated(tok) {
		e matches Expression::SignedIntegerLiteral { value, value_type, .. } && value == -token_value(tok) && value_type == stated_type(tok)
	} else if spells_magnitude_of_min(tok) && min_seen {
		e matches Expression::SignedIntegerLiteral { value, value_type, .. } && value == i128::MIN && value_type == stated_type(tok)
	} else {
		e matches Expression::Unary { op, expression, location_of_op, .. } && op is Negative && location_of_op == l_op && is_literal_of(tok, l, *expression)
	}
}

// ---- string literals: the run of adjacent string tokens that the cursor shows
pub open spec fn is_string(lt: LexedToken) -> bool { lt.result is Ok && lt.result->Ok_0 is StringLiteral }
pub open spec fn shown_string(lt: LexedToken, reserved: Option<Token>) -> bool {
	is_string(lt) && !(reserved is Some && token_eq(reserved->Some_0, lt.result->Ok_0))
}
// how many tokens of s, from index `from` on, are shown string literals in a row
pub open spec fn string_run(s: Seq<LexedToken>, reserved: Option<Token>, from: int) -> int
	decreases s.len() - from
{
	if 0 <= from < s.len() && shown_string(s[from], reserved) { 1 + string_run(s, reserved, from + 1) } else { 0 }
}
pub open spec fn bytes_of(lt: LexedToken) -> Seq<u8> {
	match lt.result { Ok(Token::StringLiteral { bytes }) => bytes@, _ => Seq::empty() }
}
// the bytes of the first k tokens, in order
pub open spec fn bytes_of_run(s: Seq<LexedToken>, k: int) -> Seq<u8>
	decreases k
{
	if k <= 0 { Seq::empty() } else { bytes_of_run(s, k - 1) + bytes_of(s[k - 1]) }
}

// ---- theorems ----------------------------------------------------------------------------------------------------------------
// the number denoted by `- literal` is the negation of the number the token spells: in NO case another value
pub proof fn theorem_negation_denotes_the_negated_value(tok: Token, min_seen: bool, l: Location, l_op: Location, e: Expression)
	requires is_integer_token(tok), is_negation_of_literal(tok, min_seen, l, l_op, e),
	ensures denoted(e) == Some(-token_value(tok)),
{
	if !folds_when_negated(tok) && !(spells_magnitude_of_min(tok) && min_seen) {
		let inner = *e->Unary_expression;
		assert(denoted(inner) == Some(token_value(tok)));
	}
}
// a literal denotes what its token spells
pub proof fn theorem_literal_denotes_the_token_value(tok: Token, l: Location, e: Expression)
	requires is_integer_token(tok), is_literal_of(tok, l, e),
	ensures denoted(e) == Some(token_value(tok)),
{
}
pub proof fn lemma_string_run_step(s: Seq<LexedToken>, reserved: Option<Token>, from: int, n: int)
	requires 0 <= from, 0 <= n, from + n <= s.len(), forall|i: int| from <= i < from + n ==> shown_string(#[trigger] s[i], reserved),
	ensures string_run(s, reserved, from) == n + string_run(s, reserved, from + n),
	decreases n,
{
	if n > 0 { lemma_string_run_step(s, reserved, from + 1, n - 1); }
}

// ---- shorthands of the contracts
pub open spec fn has_next(t: Tokens) -> bool { t.tokens@.len() > 0 && t.tokens@[0].result is Ok }
pub open spec fn next_token(t: Tokens) -> Token { t.tokens@[0].result->Ok_0 }
pub open spec fn next_location(t: Tokens) -> Location { t.tokens@[0].location }
// the cursor shows `sign` and the token behind it is a scalar literal
pub open spec fn sign_then_literal(t: Tokens) -> bool {
	t.tokens@.len() >= 2 && t.tokens@[1].result is Ok && is_scalar_literal(t.tokens@[1].result->Ok_0)
}
pub open spec fn second_token(t: Tokens) -> Token { t.tokens@[1].result->Ok_0 }
pub open spec fn dropped(t0: Tokens, k: int, t1: Tokens) -> bool {
	0 <= k <= t0.tokens@.len() && t1.tokens@ =~= t0.tokens@.subrange(k, t0.tokens@.len() as int) && t1.reserved_token == t0.reserved_token
}
pub open spec fn same_line(l: Location, first: Location) -> bool {
	l.source_filename == first.source_filename && l.line_number == first.line_number && l.line_offset == first.line_offset
}
pub proof fn lemma_advanced_wf(t0: Tokens, t1: Tokens)
	requires tokens_wf(t0), advanced(t0, t1),
	ensures tokens_wf(t1),
{
	assert forall|i: int| 0 <= i < t1.tokens@.len() implies forward((#[trigger] t1.tokens@[i]).location) by {
		assert(t1.tokens@[i] == t0.tokens@[i + 1]);
	}
}
pub open spec fn same_cursor(t0: Tokens, t1: Tokens) -> bool {
	t1.tokens@ =~= t0.tokens@ && t1.last_location == t0.last_location && t1.reserved_token == t0.reserved_token
}
