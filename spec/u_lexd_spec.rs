// ---------------------------------------------------------------------------------------------
// U-LEXD ghost specification (delta lexer + token buffers).
// ---------------------------------------------------------------------------------------------
pub open spec fn dec_val(a: u8) -> Option<u8> { if 48 <= a <= 57 { Some((a - 48) as u8) } else { None } }
pub open spec fn hex_val(a: u8) -> Option<u8> {
	if 48 <= a <= 57 { Some((a - 48) as u8) } else if 97 <= a <= 102 { Some((a - 87) as u8) } else if 65 <= a <= 70 { Some((a - 55) as u8) } else { None }
}
// the eleven documented integer type suffixes: i8 i16 i32 i64 i128 u8 u16 u32 u64 u128 usize
pub open spec fn suffix_type(s: Seq<u8>) -> Option<ValueTypeKeyword> {
	if s == seq![105u8, 56u8] { Some(ValueTypeKeyword::Int8) }
	else if s == seq![105u8, 49u8, 54u8] { Some(ValueTypeKeyword::Int16) }
	else if s == seq![105u8, 51u8, 50u8] { Some(ValueTypeKeyword::Int32) }
	else if s == seq![105u8, 54u8, 52u8] { Some(ValueTypeKeyword::Int64) }
	else if s == seq![105u8, 49u8, 50u8, 56u8] { Some(ValueTypeKeyword::Int128) }
	else if s == seq![117u8, 56u8] { Some(ValueTypeKeyword::Uint8) }
	else if s == seq![117u8, 49u8, 54u8] { Some(ValueTypeKeyword::Uint16) }
	else if s == seq![117u8, 51u8, 50u8] { Some(ValueTypeKeyword::Uint32) }
	else if s == seq![117u8, 54u8, 52u8] { Some(ValueTypeKeyword::Uint64) }
	else if s == seq![117u8, 49u8, 50u8, 56u8] { Some(ValueTypeKeyword::Uint128) }
	else if s == seq![117u8, 115u8, 105u8, 122u8, 101u8] { Some(ValueTypeKeyword::Usize) }
	else { None }
}
pub open spec fn is_suffix(s: Seq<u8>) -> bool { suffix_type(s) is Some }
pub open spec fn ident_cont(x: u8) -> bool { (97 <= x <= 122) || (65 <= x <= 90) || (48 <= x <= 57) || x == 95 }

// loop invariants of lex_source_into_buffer (all over the abstraction iter.pos / location, not over temporaries)
pub open spec fn mainv(iter: PeekIter, source: &[u8], start_of_line: u32, line_number: u32) -> bool {
	iter.src@ == source@ && iter.pos <= source@.len() && source@.len() <= 0x8000_0000
	&& start_of_line as int <= iter.pos as int && 1 <= line_number as int <= iter.pos as int + 1
}
pub open spec fn ctx(iter: PeekIter, source: &[u8], loc: TokenLocation, i: usize, start_of_line: u32, line_number: u32) -> bool {
	iter.src@ == source@ && iter.pos <= source@.len() && source@.len() <= 0x8000_0000
	&& loc.start as int <= i as int && i < loc.end as int && i < source@.len()
	&& loc.start_of_line == start_of_line && loc.line_number == line_number
	&& start_of_line as int <= loc.start as int && 1 <= line_number as int <= i as int + 1
}
pub open spec fn li(iter: PeekIter, source: &[u8], loc: TokenLocation, i: usize, start_of_line: u32, line_number: u32) -> bool {
	ctx(iter, source, loc, i, start_of_line, line_number) && loc.end as int == iter.pos as int
}

// ---- token buffers (tokens.rs) --------------------------------------------------------------
// Safety invariant of TokensBuffer (the `// Safety:` comments of tokens.rs made checkable):
// the three spare-capacity slices have equal length and cells [0, num_tokens) of all three are initialised.
pub open spec fn tb_inv(b: TokensBuffer) -> bool {
	&&& b.num_tokens <= b.tokens@.len()
	&&& b.tokens@.len() == b.token_vaps@.len()
	&&& b.tokens@.len() == b.token_locations@.len()
	&&& b.tokens@.len() <= 0x1000000
	&&& b.integer_payloads@.len() <= 0x1000000
	&&& forall|i: int| 0 <= i < b.num_tokens ==> mu_val(#[trigger] b.tokens@[i]).is_some()
	&&& forall|i: int| 0 <= i < b.num_tokens ==> mu_val(#[trigger] b.token_vaps@[i]).is_some()
	&&& forall|i: int| 0 <= i < b.num_tokens ==> mu_val(#[trigger] b.token_locations@[i]).is_some()
	&&& vaps_ok(b)
}
// every packed word written so far is well formed (opaque: only push_token and lex_source_into_tokens look inside)
#[verifier::opaque]
pub open spec fn vaps_ok(b: TokensBuffer) -> bool { forall|i: int| 0 <= i < b.num_tokens ==> vap_ok(mu_val(#[trigger] b.token_vaps@[i])->0) }
// the token cells written so far are unchanged (opaque: only push_end_of_source looks inside)
#[verifier::opaque]
pub open spec fn toks_same(b0: TokensBuffer, b1: TokensBuffer) -> bool { forall|i: int| 0 <= i < b0.num_tokens ==> mu_val(b1.tokens@[i]) == mu_val(#[trigger] b0.tokens@[i]) }
// the last two tokens written are EndOfSource
pub open spec fn ends_eos(b: TokensBuffer) -> bool {
	b.num_tokens >= 2 && mu_val(b.tokens@[b.num_tokens - 1]) == Some(BaseToken::EndOfSource) && mu_val(b.tokens@[b.num_tokens - 2]) == Some(BaseToken::EndOfSource)
}
// what every &mut method of the buffer preserves: slice lengths, and the identity of the borrowed slices
// (prophecy: the final value of the inner &mut is the final value of the one we started with)
pub open spec fn tb_frame(b0: TokensBuffer, b1: TokensBuffer) -> bool {
	&&& b1.tokens@.len() == b0.tokens@.len()
	&&& b1.num_tokens >= b0.num_tokens
}
// a Tokens value is well formed for lexing: three empty vectors of equal capacity
pub open spec fn tokens_fresh(t: Tokens) -> bool {
	&&& t.tokens@.len() == 0 && t.token_vaps@.len() == 0 && t.token_locations@.len() == 0
	&&& vec_cap(t.token_vaps) == vec_cap(t.tokens) && vec_cap(t.token_locations) == vec_cap(t.tokens)
	&&& vec_cap(t.tokens) <= 0x1000000
	&&& 1 <= t.integer_payloads@.len() <= 0x1000000
}
proof fn lemma_consts()
	ensures MAX_NUM_TOKENS == 0x1000000, MAX_NUM_PAYLOADS == 0x1000000, MAX_SOURCE_LEN == 0x8000_0000, MAX_NUM_LEXING_ERRORS == 100,
		(1usize << 16) == 0x10000,
{
	assert(MAX_NUM_TOKENS == 0x1000000) by (compute_only);
	assert(MAX_NUM_PAYLOADS == 0x1000000) by (compute_only);
	assert(MAX_SOURCE_LEN == 0x8000_0000) by (compute_only);
	assert((1usize << 16) == 0x10000) by (bit_vector);
}

// ---- integer literal values (C09): value of a digit string in a base, `_` separators skipped ----
pub open spec fn bin_val(a: u8) -> Option<u8> { if a == 48 { Some(0u8) } else if a == 49 { Some(1u8) } else { None } }
pub open spec fn digv(s: Seq<u8>, base: nat) -> nat
	decreases s.len()
{
	if s.len() == 0 { 0 } else {
		let d = if base == 16 { hex_val(s.last()) } else if base == 10 { dec_val(s.last()) } else { bin_val(s.last()) };
		match d { Some(x) => digv(s.drop_last(), base) * base + x as nat, None => digv(s.drop_last(), base) }
	}
}
pub open spec fn digcount(s: Seq<u8>, base: nat) -> nat
	decreases s.len()
{
	if s.len() == 0 { 0 } else {
		let d = if base == 16 { hex_val(s.last()) } else if base == 10 { dec_val(s.last()) } else { bin_val(s.last()) };
		digcount(s.drop_last(), base) + (if d is Some { 1nat } else { 0nat })
	}
}
pub open spec fn two128() -> nat { (u128::MAX as nat) + 1 }
proof fn lemma_digv_push(s: Seq<u8>, b: u8, base: nat)
	ensures
		digv(s.push(b), base) == (match (if base == 16 { hex_val(b) } else if base == 10 { dec_val(b) } else { bin_val(b) }) { Some(x) => digv(s, base) * base + x as nat, None => digv(s, base) }),
		digcount(s.push(b), base) == digcount(s, base) + (if (if base == 16 { hex_val(b) } else if base == 10 { dec_val(b) } else { bin_val(b) }) is Some { 1nat } else { 0nat }),
{
	assert(s.push(b).drop_last() =~= s);
	assert(s.push(b).last() == b);
}
proof fn lemma_subrange_push(s: Seq<u8>, a: int, p: int)
	requires 0 <= a <= p < s.len()
	ensures s.subrange(a, p + 1) =~= s.subrange(a, p).push(s[p])
{ }
pub open spec fn pow2n(n: nat) -> nat decreases n { if n == 0 { 1 } else { 2 * pow2n((n - 1) as nat) } }
proof fn lemma_pow2n_128()
	ensures pow2n(128) == two128(), pow2n(127) * 2 == two128()
{
	assert(pow2n(128) == two128()) by (compute_only);
	assert(pow2n(127) * 2 == pow2n(128));
}
proof fn lemma_pow2n_mono(a: nat, b: nat)
	requires a <= b
	ensures pow2n(a) <= pow2n(b)
	decreases b - a
{
	if a < b { lemma_pow2n_mono(a, (b - 1) as nat); }
}
