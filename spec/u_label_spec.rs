// ---------------------------------------------------------------------------------------------
// U-LABEL ghost specification: the C04 oracle.
//   St    abstract label stack (innermost scope last); stk() maps the analyzer's Vec<Vec<_>> to it
//   eff   what analysing a statement does to (stack, next resolution id); effs: same for a block suffix
//         (statements are processed last to first, so the state before statement k is effs(b, k+1, ..))
//   ok    relation between a statement and its analysed result: a goto resolves iff its label is visible
//         (else E400 UndefinedLabel); a label is accepted iff its name is not visible (else E420)
//   theorem_visibility: "visible when statement i is analysed" <==> "label occurs later in the same block
//         or is visible in an enclosing block" - the sentence of the property.
// ---------------------------------------------------------------------------------------------
pub type St = Seq<Seq<Identifier>>;
pub open spec fn stk(a: Analyzer) -> St { Seq::new(a.label_stack@.len(), |i: int| a.label_stack@[i]@) }
pub open spec fn has2(scope: Seq<Identifier>, name: Seq<char>) -> bool { exists|j: int| 0 <= j < scope.len() && (#[trigger] scope[j]).name@ == name }
pub open spec fn vis(st: St, name: Seq<char>) -> bool { exists|i: int| 0 <= i < st.len() && has2(#[trigger] st[i], name) }
pub open spec fn mk(label: Identifier, rid: int) -> Identifier { Identifier { name: label.name, location: label.location, resolution_id: rid as u32, is_authoritative: true } }
pub open spec fn push_inner(st: St, id: Identifier) -> St {
    if st.len() == 0 { seq![seq![id]] } else { st.update(st.len() - 1, st[st.len() - 1].push(id)) }
}
pub open spec fn eff(s: Statement, st: St, rid: int) -> (St, int)
    decreases s, 0int
{
    match s {
        Statement::Label { label, .. } => (push_inner(st, mk(label, rid)), rid + 1),
        Statement::If { then_branch, else_branch, .. } => {
            let a = eff(*then_branch, st, rid);
            match else_branch { None => a, Some(e) => eff(*e.branch, a.0, a.1) }
        },
        Statement::Block(b) => (st, effs(b, 0, st.push(Seq::empty()), rid).1),
        _ => (st, rid),
    }
}
pub open spec fn effs(b: Block, k: int, st: St, rid: int) -> (St, int)
    decreases b, b.statements@.len() - k
{
    if k < 0 || k >= b.statements@.len() { (st, rid) } else {
        let a = effs(b, k + 1, st, rid);
        eff(b.statements@[k], a.0, a.1)
    }
}
pub open spec fn goto_ok(r: Statement, label: Identifier, location: Location, st: St) -> bool {
    if vis(st, label.name@) {
        r is Goto && r->Goto_location == location && r->Goto_label.name == label.name && r->Goto_label.location == label.location
        && !r->Goto_label.is_authoritative
        && exists|i: int, j: int| 0 <= i < st.len() && 0 <= j < st[i].len() && (#[trigger] st[i][j]).name@ == label.name@ && r->Goto_label.resolution_id == st[i][j].resolution_id
    } else {
        r == Statement::Poison(Poison::Error(Error::UndefinedLabel { name: label.name, location: label.location }))
    }
}
pub open spec fn label_ok(r: Statement, label: Identifier, location: Location, st: St, rid: int) -> bool {
    if vis(st, label.name@) {
        r is Poison && r->Poison_0 is Error && r->Poison_0->Error_0 is DuplicateDeclarationLabel
    } else {
        r == (Statement::Label { label: mk(label, rid), location })
    }
}
pub open spec fn ok(r: Statement, s: Statement, st: St, rid: int) -> bool
    decreases s, 0int
{
    match s {
        Statement::Goto { label, location } => goto_ok(r, label, location, st),
        Statement::Label { label, location } => label_ok(r, label, location, st, rid),
        Statement::If { condition, then_branch, else_branch, location } => {
            &&& r is If && r->If_condition == condition && r->If_location == location
            &&& ok(*r->If_then_branch, *then_branch, st, rid)
            &&& match else_branch {
                None => r->If_else_branch is None,
                Some(e) => r->If_else_branch is Some && r->If_else_branch->0.location_of_else == e.location_of_else
                    && ok(*r->If_else_branch->0.branch, *e.branch, eff(*then_branch, st, rid).0, eff(*then_branch, st, rid).1),
            }
        },
        Statement::Block(b) => r is Block && okb(r->Block_0, b, st, rid),
        _ => r == s,
    }
}
pub open spec fn okb(rb: Block, b: Block, st: St, rid: int) -> bool
    decreases b, b.statements@.len() + 1
{
    &&& rb.location == b.location
    &&& rb.statements@.len() == b.statements@.len()
    &&& forall|i: int| 0 <= i < b.statements@.len() ==> ok_at(#[trigger] rb.statements@[i], b, i, st, rid)
}
pub open spec fn ok_at(r: Statement, b: Block, i: int, st: St, rid: int) -> bool
    decreases b, b.statements@.len()
{
    if 0 <= i < b.statements@.len() {
        let a = effs(b, i + 1, st.push(Seq::empty()), rid);
        ok(r, b.statements@[i], a.0, a.1)
    } else { true }
}
proof fn lemma_eff(s: Statement, st: St, rid: int)
	requires st.len() >= 1,
	ensures eff(s, st, rid).1 >= rid, eff(s, st, rid).0.len() == st.len(), eff(s, st, rid).0.drop_last() =~= st.drop_last(),
	decreases s, 0int
{
	match s {
		Statement::If { then_branch, else_branch, .. } => {
			lemma_eff(*then_branch, st, rid);
			let a = eff(*then_branch, st, rid);
			match else_branch { None => {}, Some(e) => { lemma_eff(*e.branch, a.0, a.1); } }
		},
		Statement::Block(b) => { lemma_effs(b, 0, st.push(Seq::empty()), rid); },
		_ => {},
	}
}
proof fn lemma_effs_mono(b: Block, k: int, m: int, st: St, rid: int)
	requires st.len() >= 1, 0 <= k <= m,
	ensures effs(b, k, st, rid).1 >= effs(b, m, st, rid).1,
	decreases m - k
{
	if k < m {
		lemma_effs_mono(b, k + 1, m, st, rid);
		if k < b.statements@.len() { lemma_effs(b, k + 1, st, rid); let a = effs(b, k + 1, st, rid); lemma_eff(b.statements@[k], a.0, a.1); }
	}
}
proof fn lemma_effs(b: Block, k: int, st: St, rid: int)
	requires st.len() >= 1,
	ensures effs(b, k, st, rid).1 >= rid, effs(b, k, st, rid).0.len() == st.len(), effs(b, k, st, rid).0.drop_last() =~= st.drop_last(),
	decreases b, b.statements@.len() - k
{
	if k < 0 || k >= b.statements@.len() {} else {
		lemma_effs(b, k + 1, st, rid);
		let a = effs(b, k + 1, st, rid);
		lemma_eff(b.statements@[k], a.0, a.1);
	}
}


// ---------- characterisation: what is visible when statement i of block b is analysed ----------
pub open spec fn declares(s: Statement, name: Seq<char>) -> bool
    decreases s
{
    match s {
        Statement::Label { label, .. } => label.name@ == name,
        Statement::If { then_branch, else_branch, .. } =>
            declares(*then_branch, name) || (else_branch is Some && declares(*else_branch->0.branch, name)),
        _ => false,
    }
}
pub open spec fn label_after(b: Block, i: int, name: Seq<char>) -> bool {
    exists|k: int| i < k < b.statements@.len() && declares(#[trigger] b.statements@[k], name)
}
proof fn lemma_push_inner(st: St, id: Identifier, name: Seq<char>)
    requires st.len() >= 1,
    ensures has2(push_inner(st, id)[st.len() - 1], name) <==> (has2(st[st.len() - 1], name) || id.name@ == name),
{
    let a = st[st.len() - 1]; let b = push_inner(st, id)[st.len() - 1];
    assert(b =~= a.push(id));
    if has2(b, name) {
        let j = choose|j: int| 0 <= j < b.len() && (#[trigger] b[j]).name@ == name;
        if j < a.len() { assert(a[j].name@ == name); }
    }
    if has2(a, name) {
        let j = choose|j: int| 0 <= j < a.len() && (#[trigger] a[j]).name@ == name;
        assert(b[j].name@ == name);
    }
    if id.name@ == name { assert(b[a.len() as int].name@ == name); }
}
proof fn lemma_eff_scope(s: Statement, st: St, rid: int, name: Seq<char>)
    requires st.len() >= 1,
    ensures has2(eff(s, st, rid).0[st.len() - 1], name) <==> (has2(st[st.len() - 1], name) || declares(s, name)),
    decreases s, 0int
{
    lemma_eff(s, st, rid);
    match s {
        Statement::Label { label, .. } => { lemma_push_inner(st, mk(label, rid), name); },
        Statement::If { then_branch, else_branch, .. } => {
            lemma_eff_scope(*then_branch, st, rid, name);
            lemma_eff(*then_branch, st, rid);
            let a = eff(*then_branch, st, rid);
            match else_branch { None => {}, Some(e) => { lemma_eff_scope(*e.branch, a.0, a.1, name); } }
        },
        _ => {},
    }
}
proof fn lemma_effs_scope(b: Block, k: int, st: St, rid: int, name: Seq<char>)
    requires st.len() >= 1, 0 <= k <= b.statements@.len(),
    ensures has2(effs(b, k, st, rid).0[st.len() - 1], name) <==> (has2(st[st.len() - 1], name) || label_after(b, k - 1, name)),
    decreases b.statements@.len() - k
{
    if k >= b.statements@.len() {
    } else {
        lemma_effs_scope(b, k + 1, st, rid, name);
        lemma_effs(b, k + 1, st, rid);
        let a = effs(b, k + 1, st, rid);
        lemma_eff_scope(b.statements@[k], a.0, a.1, name);
        if label_after(b, k - 1, name) {
            let w = choose|w: int| k - 1 < w < b.statements@.len() && declares(#[trigger] b.statements@[w], name);
            if w > k { assert(label_after(b, k, name)); }
        }
        if label_after(b, k, name) {
            let w = choose|w: int| k < w < b.statements@.len() && declares(#[trigger] b.statements@[w], name);
            assert(label_after(b, k - 1, name));
        }
        if declares(b.statements@[k], name) { assert(label_after(b, k - 1, name)); }
    }
}
/// The sentence of the property: when statement i of block b is analysed under outer stack st,
/// a name is visible iff a label of that name occurs later in the same block
/// (directly, or as an unbraced branch of an `if` there) or is visible in the enclosing blocks.
proof fn theorem_visibility(b: Block, i: int, st: St, rid: int, name: Seq<char>)
    requires 0 <= i < b.statements@.len(),
    ensures vis(effs(b, i + 1, st.push(Seq::empty()), rid).0, name) <==> (vis(st, name) || label_after(b, i, name)),
{
    let s1 = st.push(Seq::<Identifier>::empty());
    lemma_effs(b, i + 1, s1, rid);
    lemma_effs_scope(b, i + 1, s1, rid, name);
    let r = effs(b, i + 1, s1, rid).0;
    assert(r.len() == s1.len());
    assert(r.drop_last() =~= st);
    assert(!has2(s1[s1.len() - 1], name));
    if vis(r, name) {
        let x = choose|x: int| 0 <= x < r.len() && has2(#[trigger] r[x], name);
        if x < st.len() { assert(r.drop_last()[x] == r[x]); assert(has2(st[x], name)); }
    }
    if vis(st, name) {
        let x = choose|x: int| 0 <= x < st.len() && has2(#[trigger] st[x], name);
        assert(r.drop_last()[x] == r[x]);
        assert(has2(r[x], name));
    }
    if label_after(b, i, name) { assert(has2(r[r.len() - 1], name)); }
}

// function bodies are scoped like a block (push_scope .. pop_scope around the reverse traversal)
pub open spec fn as_block(f: FunctionBody) -> Block { Block { statements: f.statements, location: arbitrary() } }
pub open spec fn okf(r: FunctionBody, f: FunctionBody, st: St, rid: int) -> bool {
	&&& r.return_value == f.return_value
	&&& r.return_value_identifier == f.return_value_identifier
	&&& r.statements@.len() == f.statements@.len()
	&&& forall|i: int| 0 <= i < f.statements@.len() ==> ok_at(#[trigger] r.statements@[i], as_block(f), i, st, rid)
}
// a declaration starts from the EMPTY stack: no label of another function is ever visible
pub open spec fn effd(d: Declaration, rid: int) -> int {
	match d {
		Declaration::Function { body: Ok(b), .. } => effs(as_block(b), 0, seq![Seq::<Identifier>::empty()], rid).1,
		_ => rid,
	}
}
pub open spec fn okd(r: Declaration, d: Declaration, rid: int) -> bool {
	match d {
		Declaration::Function { name, parameters, body, return_type, flags, location_of_declaration, location_of_return_type } => {
			&&& r is Function
			&&& r->Function_name == name && r->Function_parameters == parameters && r->Function_return_type == return_type
			&&& r->Function_flags == flags && r->Function_location_of_declaration == location_of_declaration
			&&& r->Function_location_of_return_type == location_of_return_type
			&&& match body { Ok(b) => r->Function_body is Ok && okf(r->Function_body->Ok_0, b, Seq::empty(), rid), Err(p) => r->Function_body == body }
		},
		_ => r == d,
	}
}
pub open spec fn effp(p: Seq<Declaration>, k: int, rid: int) -> int
	decreases k
{
	if k <= 0 || k > p.len() { rid } else { effd(p[k - 1], effp(p, k - 1, rid)) }
}
proof fn lemma_effd(d: Declaration, rid: int)
	ensures effd(d, rid) >= rid
{
	match d {
		Declaration::Function { body: Ok(b), .. } => { lemma_effs(as_block(b), 0, seq![Seq::<Identifier>::empty()], rid); },
		_ => {},
	}
}
proof fn lemma_effp_mono(p: Seq<Declaration>, k: int, m: int, rid: int)
	requires 0 <= k <= m <= p.len()
	ensures effp(p, k, rid) <= effp(p, m, rid)
	decreases m - k
{
	if k < m { lemma_effp_mono(p, k, m - 1, rid); lemma_effd(p[m - 1], effp(p, m - 1, rid)); }
}
