// ---------------------------------------------------------------------------------------------------------------------------
// U-COLLECT ghost specification (hand-written, ghost only): the error collection of the resolver.
//
// Every stage before the resolver leaves its diagnostics IN the tree as `Poison::Error(e)`; the resolver's generic
// combinators (Vec, tuples, Option, Box, Poisonable) are what turns them into the rejection a user sees.  The contract is
// stated ONCE, on `trait Resolvable` (three spec functions injected into the trait by units/u_collect.py):
//     v.errs()            the errors v resolves to, in order (field order / element order, depth first)
//     v.poisoned()        some part of v is `Err(Poison::Poisoned)` - a part that an earlier stage gave up on WITHOUT an error
//     v.resolves_to(x)    x is the resolved form of v (a relation: a Vec / Box cannot be built in spec code)
//     resolve(v) is Ok        <==>  v.errs() is empty and v is not poisoned
//     resolve(v) == Ok(x)     ==>   v.resolves_to(x)
//     resolve(v) == Err(e)    ==>   e.errors@ == v.errs()          NOTHING LOST, NOTHING ADDED, ORDER KEPT
// and every impl DEFINES the three functions from those of its parts (units/u_collect.py):
//     (a, b)        a.errs() + b.errs()                              likewise 3- and 4-tuples, in field order
//     Vec           the concatenation over the elements, in order    (list_errs)
//     Option        that of the payload, or empty
//     Box           that of the content
//     Poisonable    Ok(x): x.errs();  Err(Poison::Error(e)): [e];  Err(Poison::Poisoned): EMPTY - and poisoned
//
// FINDING that the contract makes explicit: `Err(Poison::Poisoned).resolve()` is `Err(Errors { errors: [] })` (error.rs,
// `impl From<Poison> for Errors`: "Do not show any errors because this thing was poisoned by a different error").  So
// `resolve` can FAIL WITH AN EMPTY LIST: a tree that holds a `Poisoned` and no `Poison::Error` is rejected without any
// diagnostic.  That every `Poisoned` is accompanied by an error elsewhere in the tree is an invariant of the EARLIER stages,
// not of the resolver (theorem_silent_failure_needs_a_poisoned_part: an empty Err happens only then).
// ---------------------------------------------------------------------------------------------------------------------------

// what `Errors::from(poison)` holds
pub open spec fn poison_errs(p: Poison) -> Seq<Error> {
	match p { Poison::Error(e) => seq![e], Poison::Poisoned => Seq::empty() }
}

// the three functions of a list, from those of its elements
pub open spec fn list_errs<T: Resolvable>(s: Seq<T>) -> Seq<Error>
	decreases s.len()
{
	if s.len() == 0 { Seq::empty() } else { list_errs(s.drop_last()) + s.last().errs() }
}
pub open spec fn list_poisoned<T: Resolvable>(s: Seq<T>) -> bool
	decreases s.len()
{
	if s.len() == 0 { false } else { list_poisoned(s.drop_last()) || s.last().poisoned() }
}
pub open spec fn list_resolves_to<T: Resolvable>(s: Seq<T>, x: Seq<T::Item>) -> bool {
	s.len() == x.len() && forall|i: int| 0 <= i < s.len() ==> (#[trigger] s[i]).resolves_to(x[i])
}

// check_surface_level_errors: the top-level declarations that ARE an error, and the error each one is
pub open spec fn is_surface_error(d: Declaration) -> bool { d matches Declaration::Poison(Poison::Error(_)) }
pub open spec fn surface_error() -> spec_fn(Declaration) -> bool { |d: Declaration| is_surface_error(d) }
pub open spec fn is_error_of(d: Declaration, e: Error) -> bool { d == Declaration::Poison(Poison::Error(e)) }
pub open spec fn error_of() -> spec_fn(Declaration, Error) -> bool { |d: Declaration, e: Error| is_error_of(d, e) }
pub open spec fn surface_errors(s: Seq<Declaration>) -> Seq<Error> {
	s.filter(surface_error()).map_values(|d: Declaration| d->Poison_0->Error_0)
}

// `Errors: From<Error>` / `Errors: From<Poison>` opt out of vstd's value-level `from_spec` (a Vec cannot be built in spec code);
// the sliced `from` bodies are verified against their own `ensures` instead (same text as spec/u_acc_spec.rs)
impl vstd::std_specs::convert::FromSpecImpl<Error> for Errors {
	open spec fn obeys_from_spec() -> bool { false }
	open spec fn from_spec(e: Error) -> Self { arbitrary() }
}
impl vstd::std_specs::convert::FromSpecImpl<Poison> for Errors {
	open spec fn obeys_from_spec() -> bool { false }
	open spec fn from_spec(p: Poison) -> Self { arbitrary() }
}

// ---- consequences of the contract ----------------------------------------------------------------------------------------------
// the contract in one predicate
pub open spec fn collected<V: Resolvable>(v: V, r: Result<V::Item, Errors>) -> bool {
	&&& r is Ok <==> (v.errs().len() == 0 && !v.poisoned())
	&&& r is Ok ==> v.resolves_to(r->Ok_0)
	&&& r is Err ==> r->Err_0.errors@ == v.errs()
}
// a rejection without any diagnostic happens only when some part is `Poisoned`
pub proof fn theorem_silent_failure_needs_a_poisoned_part<V: Resolvable>(v: V, r: Result<V::Item, Errors>)
	requires collected(v, r), r is Err, r->Err_0.errors@.len() == 0,
	ensures v.poisoned(),
{
}
// an error placed anywhere in a list surfaces: the list is rejected and the error is in the reported list
pub proof fn theorem_an_error_in_a_list_is_reported<T: Resolvable>(s: Seq<T>, k: int, j: int)
	requires 0 <= k < s.len(), 0 <= j < s[k].errs().len(),
	ensures list_errs(s).len() > 0, list_errs(s).contains(s[k].errs()[j]),
	decreases s.len(),
{
	let e = s[k].errs()[j];
	if k == s.len() - 1 {
		let front = list_errs(s.drop_last());
		assert(list_errs(s)[front.len() + j] == e);
	} else {
		assert(s.drop_last()[k] == s[k]);
		theorem_an_error_in_a_list_is_reported(s.drop_last(), k, j);
		let front = list_errs(s.drop_last());
		let i = choose|i: int| 0 <= i < front.len() && front[i] == e;
		assert(list_errs(s)[i] == e);
	}
}
// a poisoned part (an `Err(Poison::Error(e))` in a Poisonable field) is an error of the whole: instance for a pair in a list
pub proof fn theorem_poison_error_in_a_field_is_reported<A: Resolvable, B: Resolvable>(a: Poisonable<A>, b: B, e: Error)
	requires a == Err::<A, Poison>(Poison::Error(e)),
	ensures (a, b).errs().len() > 0, (a, b).errs()[0] == e,
{
}
// a `Poisoned` top-level declaration is not a surface error, and a list without surface errors has none to report
pub proof fn theorem_poisoned_declaration_contributes_nothing(s: Seq<Declaration>)
	requires forall|i: int| 0 <= i < s.len() ==> !is_surface_error(#[trigger] s[i]),
	ensures surface_errors(s).len() == 0, !is_surface_error(Declaration::Poison(Poison::Poisoned)),
	decreases s.len(),
{
	reveal(Seq::filter);
	if s.len() > 0 {
		assert forall|i: int| 0 <= i < s.drop_last().len() implies !is_surface_error(#[trigger] s.drop_last()[i]) by { assert(s.drop_last()[i] == s[i]); }
		theorem_poisoned_declaration_contributes_nothing(s.drop_last());
	}
}
