// ---------------------------------------------------------------------------------------------
// U-ALIGN ghost specification: the C11 oracle for word/struct layout (hand-written, ghost only).
//   round_up(s, a)   the least multiple of a that is >= s                     (what `align` must return)
//   member_align(sz) natural alignment of a member of sz bytes: least power of two >= sz, capped at
//                    MAXIMUM_ALIGNMENT (8)
//   layout(ms, n)    (offset after the first n members, largest alignment so far): every sized member is
//                    placed at the next multiple of its alignment
//   struct_size(ms)  the offset after the last member rounded up to the structure's alignment
//   align_struct_spec: a word is rejected with E380 (WordSizeMismatch) iff struct_size > declared size
// ---------------------------------------------------------------------------------------------
pub open spec fn round_up(s: int, a: int) -> int { if s % a == 0 { s } else { s + (a - s % a) } }

pub open spec fn is_pow2(p: int) -> bool
	decreases p
{
	p == 1 || (p > 1 && p % 2 == 0 && is_pow2(p / 2))
}

pub open spec fn member_align(sz: int) -> int {
	if sz <= 1 { 1 } else if sz <= 2 { 2 } else if sz <= 4 { 4 } else { 8 }
}

// size of a type as a word member, as documented for U-VT (C11.vt.word_member_size*): integers, char8, bool, nested words
pub open spec fn wm_size(t: ValueType) -> Option<usize> {
	if value_type::signed(t) || value_type::unsigned_fixed(t) || t is Char8 { Some((value_type::bits(t) / 8) as usize) }
	else if t is Bool { Some(1usize) }
	else if t is Word { Some(t->Word_size_in_bytes) }
	else { None }
}
pub open spec fn msize(m: Member) -> Option<usize> {
	match m.value_type { Ok(vt) => wm_size(vt), Err(_) => None }
}
pub open spec fn imax(a: int, b: int) -> int { if a >= b { a } else { b } }

pub open spec fn layout(ms: Seq<Member>, n: int) -> (int, int)
	decreases n
{
	if n <= 0 || n > ms.len() { (0, 1) } else {
		let p = layout(ms, n - 1);
		match msize(ms[n - 1]) {
			Some(sz) => (round_up(p.0, member_align(sz as int)) + sz, imax(p.1, member_align(sz as int))),
			None => p,
		}
	}
}
pub open spec fn struct_size(ms: Seq<Member>) -> int { round_up(layout(ms, ms.len() as int).0, layout(ms, ms.len() as int).1) }
pub open spec fn struct_alignment(ms: Seq<Member>) -> int { layout(ms, ms.len() as int).1 }
pub open spec fn has_poisoned_member(ms: Seq<Member>) -> bool { exists|i: int| 0 <= i < ms.len() && (#[trigger] ms[i]).value_type is Err }

// what align_struct must answer
pub open spec fn align_struct_spec(ms: Seq<Member>, st: Poisonable<ValueType>) -> Poisonable<ValueType> {
	match st {
		Err(e) => Err(e),
		Ok(t) => if has_poisoned_member(ms) { Err(Poison::Poisoned) } else {
			match t {
				ValueType::Word { identifier, size_in_bytes } =>
					if struct_size(ms) <= size_in_bytes { Ok(t) } else {
						Err(Poison::Error(Error::WordSizeMismatch {
							inferred_size_in_bits: (8 * struct_size(ms)) as usize,
							declared_size_in_bits: (8 * size_in_bytes) as usize,
							location_of_identifier: identifier.location,
							location_of_keyword: identifier.location,
						}))
					},
				_ => Ok(t),
			}
		},
	}
}
// the assert!/unreachable! sites of align_struct: the structural type is a struct or a word, and every (non-poisoned)
// member of a word has a word-member size (established by Member::analyze_and_fix / can_be_word_member; caller not under contract)
pub open spec fn align_struct_shape_ok(ms: Seq<Member>, st: Poisonable<ValueType>) -> bool {
	st is Ok ==> {
		&&& st->Ok_0 is Struct || st->Ok_0 is Word
		&&& st->Ok_0 is Word ==> forall|i: int| 0 <= i < ms.len() && (#[trigger] ms[i]).value_type is Ok ==> msize(ms[i]) is Some
	}
}
// no arithmetic overflow: the size in BITS of the padded structure fits a usize
pub open spec fn layout_fits(ms: Seq<Member>) -> bool { 8 * (layout(ms, ms.len() as int).0 + 8) <= usize::MAX }

// side effect of align_struct: the structure (identifier + members) is entered in the typer's structure table
// under its resolution id; every other key and every other table is left alone
pub open spec fn structure_recorded(t0: Typer, t1: Typer, id: Identifier, ms: Seq<Member>) -> bool {
	&&& t1.structures@.contains_key(id.resolution_id)
	&&& t1.structures@[id.resolution_id].identifier == id
	&&& t1.structures@[id.resolution_id].members@ =~= ms
	&&& t1.structures@ == t0.structures@.insert(id.resolution_id, t1.structures@[id.resolution_id])
	&&& t1.symbols == t0.symbols && t1.functions == t0.functions
	&&& t1.calculated_named_lengths == t0.calculated_named_lengths && t1.contextual_type == t0.contextual_type
}

// ---------- align ----------
pub proof fn lemma_mult_window_unique(s: int, a: int, x: int, y: int)
	requires a > 0, x % a == 0, y % a == 0, s <= x < s + a, s <= y < s + a,
	ensures x == y,
{
	vstd::arithmetic::div_mod::lemma_fundamental_div_mod(x, a);
	vstd::arithmetic::div_mod::lemma_fundamental_div_mod(y, a);
	let p = x / a; let q = y / a;
	assert(x == a * p && y == a * q);
	if p < q { assert(a * q - a * p >= a) by(nonlinear_arith) requires a > 0, p < q; }
	if q < p { assert(a * p - a * q >= a) by(nonlinear_arith) requires a > 0, q < p; }
}
pub proof fn lemma_round_up(s: int, a: int)
	requires a > 0, s >= 0,
	ensures round_up(s, a) % a == 0, s <= round_up(s, a) < s + a,
{
	vstd::arithmetic::div_mod::lemma_fundamental_div_mod(s, a);
	vstd::arithmetic::div_mod::lemma_mod_bound(s, a);
	if s % a != 0 {
		let q = s / a;
		assert(round_up(s, a) == a * (q + 1)) by(nonlinear_arith) requires round_up(s, a) == s + a - s % a, s == a * q + s % a;
		vstd::arithmetic::div_mod::lemma_mod_multiples_basic(q + 1, a);
		assert(a * (q + 1) == (q + 1) * a) by(nonlinear_arith);
	}
}
// the expression computed by `align`, in int arithmetic
pub proof fn lemma_align(s: int, a: int)
	requires a > 0, s >= 0,
	ensures (a * ((s + a - 1) / a)) % a == 0, s <= a * ((s + a - 1) / a) <= s + a - 1, a * ((s + a - 1) / a) == round_up(s, a),
{
	let x = s + a - 1; let q = x / a; let r = a * q;
	vstd::arithmetic::div_mod::lemma_fundamental_div_mod(x, a);
	vstd::arithmetic::div_mod::lemma_mod_bound(x, a);
	vstd::arithmetic::div_mod::lemma_mod_multiples_basic(q, a);
	assert(a * q == q * a) by(nonlinear_arith);
	lemma_round_up(s, a);
	lemma_mult_window_unique(s, a, r, round_up(s, a));
}

// ---------- member alignment ----------
pub proof fn lemma_pow2_small()
	ensures is_pow2(1), is_pow2(2), is_pow2(4), is_pow2(8), !is_pow2(3), !is_pow2(5), !is_pow2(6), !is_pow2(7), !is_pow2(0),
{
	reveal_with_fuel(is_pow2, 5);
}
// member_align is "least power of two >= sz, capped at 8": p is any least power of two >= sz
pub proof fn lemma_member_align(sz: int, p: int)
	requires sz >= 0, is_pow2(p), p >= sz, forall|q: int| is_pow2(q) && q >= sz ==> p <= q,
	ensures member_align(sz) == (if p <= 8 { p } else { 8 }), 1 <= member_align(sz) <= 8, is_pow2(member_align(sz)),
{
	lemma_pow2_small();
	if sz <= 1 { assert(p <= 1); assert(p >= 1) by { reveal_with_fuel(is_pow2, 2); } }
	else if sz <= 2 { assert(p <= 2); }
	else if sz <= 4 { assert(p <= 4); }
	else if sz <= 8 { assert(p <= 8); }
}

// ---------- layout ----------
pub proof fn lemma_layout_step(ms: Seq<Member>, n: int)
	requires 0 <= n <= ms.len(),
	ensures 0 <= layout(ms, n).0, 1 <= layout(ms, n).1 <= 8, is_pow2(layout(ms, n).1),
		n > 0 ==> layout(ms, n - 1).0 <= layout(ms, n).0 && layout(ms, n - 1).1 <= layout(ms, n).1,
		n > 0 && msize(ms[n - 1]) is Some ==> msize(ms[n - 1])->0 <= layout(ms, n).0,
	decreases n
{
	lemma_pow2_small();
	if n > 0 {
		lemma_layout_step(ms, n - 1);
		match msize(ms[n - 1]) {
			Some(sz) => { lemma_round_up(layout(ms, n - 1).0, member_align(sz as int)); },
			None => {},
		}
	}
}
pub proof fn lemma_layout_mono(ms: Seq<Member>, n: int, m: int)
	requires 0 <= n <= m <= ms.len(),
	ensures 0 <= layout(ms, n).0 <= layout(ms, m).0, 1 <= layout(ms, n).1 <= layout(ms, m).1 <= 8,
	decreases m - n
{
	lemma_layout_step(ms, m);
	if n < m { lemma_layout_mono(ms, n, m - 1); }
}
// THEOREM (the explicit bound of DESIGN.md C11): fewer than 2^56 members of at most 16 bytes each (the largest
// primitive is 128 bits, the largest word is word128) never overflow
pub proof fn theorem_explicit_bound_suffices(ms: Seq<Member>)
	requires ms.len() < 0x100_0000_0000_0000, forall|i: int| 0 <= i < ms.len() && msize(#[trigger] ms[i]) is Some ==> msize(ms[i])->0 <= 16,
	ensures layout_fits(ms),
{
	lemma_layout_bound(ms, ms.len() as int);
}
proof fn lemma_layout_bound(ms: Seq<Member>, n: int)
	requires 0 <= n <= ms.len(), forall|i: int| 0 <= i < ms.len() && msize(#[trigger] ms[i]) is Some ==> msize(ms[i])->0 <= 16,
	ensures 0 <= layout(ms, n).0 <= 23 * n,
	decreases n
{
	if n > 0 {
		lemma_layout_bound(ms, n - 1);
		lemma_layout_step(ms, n - 1);
		match msize(ms[n - 1]) {
			Some(sz) => { lemma_round_up(layout(ms, n - 1).0, member_align(sz as int)); },
			None => {},
		}
	}
}
// THEOREM: the structure size is a multiple of the structure alignment and of no less than the sum of the member sizes
pub proof fn theorem_struct_size_aligned(ms: Seq<Member>)
	ensures struct_size(ms) % struct_alignment(ms) == 0, struct_size(ms) >= layout(ms, ms.len() as int).0,
{
	lemma_layout_step(ms, ms.len() as int);
	lemma_round_up(layout(ms, ms.len() as int).0, layout(ms, ms.len() as int).1);
}
