// ---------------------------------------------------------------------------------------------
// U-SYM ghost specification: the C07 oracle for the typer's symbol table (hand-written, ghost only).
// C07 "no implicit conversions": both sides of an initialisation / assignment / parameter binding have the identical
// type apart from the documented coercions.  The typer enforces this by UNIFICATION: every site that mentions a
// variable `put`s the type it sees under the variable's resolution id; the table accepts the put only when the
// recorded type and the new type are the same type seen at different levels of knowledge, phrased with the
// relations of U-VT (spec/u_vt_spec.rs: teq, concretizes, declared_as, coercion), and otherwise answers E500.
//   keeps(ot, vt)     the recorded type ot already says all that vt says: identical, or ot is vt with the unknown
//                     parts (array-like forms, unresolved struct-or-word) made known            -> nothing changes
//   unifies(vt, ot, ..) vt says more than ot and may REPLACE it:
//                     - the symbol was recorded by its declaration (authoritative identifier) and vt fills in the
//                       declared array-like form with exact element types (declared_as), or
//                     - vt comes from the declaration itself (new identifier authoritative) and the recorded,
//                       inferred type is a less concrete form of it (concretizes) or is what a documented
//                       coercion of it yields (coercion: array -> slice / view, struct -> view)
//   anything else     E500 ConflictingTypes, table unchanged
// A poisoned symbol (an error was already reported for it) accepts every typed put silently and stays poisoned.
// ---------------------------------------------------------------------------------------------
pub type SymTab = Map<u32, Symbol>;

pub open spec fn keeps(ot: ValueType, vt: ValueType) -> bool {
	value_type::teq(ot, vt) || value_type::concretizes(ot, vt)
}
pub open spec fn unifies(vt: ValueType, ot: ValueType, recorded_by_declaration: bool, put_by_declaration: bool) -> bool {
	||| (recorded_by_declaration && value_type::declared_as(vt, ot))
	||| (put_by_declaration && (value_type::concretizes(vt, ot) || value_type::coercion(vt, ot)))
}
pub open spec fn conflict(s: Symbol, nid: Identifier, vt: ValueType) -> Error {
	Error::ConflictingTypes {
		name: nid.name,
		current_type: vt,
		previous_type: s.value_type->Ok_0,
		location: nid.location,
		previous: s.identifier.location,
	}
}
// E433 of retrieve_named_length: an array length names a constant whose value constant folding did not deliver
pub open spec fn not_a_constant(name: Identifier, declared_at: Location) -> Error {
	Error::NotACompileTimeConstant { name: name.name, location: name.location, location_of_declaration: declared_at }
}
// vocabulary of the put_symbol contract
pub open spec fn typed(t: Option<Poisonable<ValueType>>) -> bool { t is Some && t->Some_0 is Ok }
pub open spec fn recorded_typed(tab: SymTab, id: Identifier) -> bool { tab.contains_key(id.resolution_id) && tab[id.resolution_id].value_type is Ok }
pub open spec fn recorded_poisoned(tab: SymTab, id: Identifier) -> bool { tab.contains_key(id.resolution_id) && tab[id.resolution_id].value_type is Err }
pub open spec fn recorded_type(tab: SymTab, id: Identifier) -> ValueType { tab[id.resolution_id].value_type->Ok_0 }
pub open spec fn unifies_with_recorded(tab: SymTab, id: Identifier, vt: ValueType) -> bool {
	unifies(vt, tab[id.resolution_id].value_type->Ok_0, tab[id.resolution_id].identifier.is_authoritative, id.is_authoritative)
}
// what a typed put does to a symbol that is already in the table
pub open spec fn update_spec(s: Symbol, nid: Identifier, vt: ValueType) -> (Symbol, Result<(), Error>) {
	match s.value_type {
		Err(_) => (s, Ok(())),
		Ok(ot) =>
			if keeps(ot, vt) { (s, Ok(())) }
			else if s.identifier.is_authoritative && value_type::declared_as(vt, ot) { (Symbol { identifier: s.identifier, value_type: Ok(vt) }, Ok(())) }
			else if nid.is_authoritative && (value_type::concretizes(vt, ot) || value_type::coercion(vt, ot)) { (Symbol { identifier: nid, value_type: Ok(vt) }, Ok(())) }
			else { (s, Err(conflict(s, nid, vt))) },
	}
}
// poisoning: the poison replaces whatever was recorded (a type or an earlier poison); the declaring identifier is kept
pub open spec fn poison_spec(tab: SymTab, id: Identifier, p: Poison) -> SymTab {
	if tab.contains_key(id.resolution_id) { tab.insert(id.resolution_id, Symbol { identifier: tab[id.resolution_id].identifier, value_type: Err(p) }) }
	else { tab.insert(id.resolution_id, Symbol { identifier: id, value_type: Err(p) }) }
}
pub open spec fn put_spec(tab: SymTab, id: Identifier, t: Option<Poisonable<ValueType>>) -> (SymTab, Result<(), Error>) {
	match t {
		None => (tab, Ok(())),
		Some(Err(p)) => (poison_spec(tab, id, p), Ok(())),
		Some(Ok(vt)) =>
			if tab.contains_key(id.resolution_id) { (tab.insert(id.resolution_id, update_spec(tab[id.resolution_id], id, vt).0), update_spec(tab[id.resolution_id], id, vt).1) }
			else { (tab.insert(id.resolution_id, Symbol { identifier: id, value_type: Ok(vt) }), Ok(())) },
	}
}
// lookups: the recorded type; a recorded poison (which may carry the error to report) is handed out to the declaration
// only, every other mention sees the silent Poisoned
pub open spec fn get_spec(tab: SymTab, name: Identifier) -> Option<Poisonable<ValueType>> {
	if !tab.contains_key(name.resolution_id) { None }
	else {
		match tab[name.resolution_id].value_type {
			Ok(vt) => Some(Ok(vt)),
			Err(p) => Some(Err(if name.is_authoritative { p } else { Poison::Poisoned })),
		}
	}
}
pub open spec fn valid_declaration_spec(tab: SymTab, name: Identifier) -> Option<(ValueType, Location)> {
	if tab.contains_key(name.resolution_id) && tab[name.resolution_id].value_type is Ok {
		Some((tab[name.resolution_id].value_type->Ok_0, tab[name.resolution_id].identifier.location))
	} else { None }
}
// every key but k is left alone
pub open spec fn same_except(m0: SymTab, m1: SymTab, k: u32) -> bool {
	forall|j: u32| j != k ==> (#[trigger] m1.contains_key(j) == m0.contains_key(j)) && (m0.contains_key(j) ==> m1[j] == m0[j])
}
pub open spec fn other_tables_same(t0: Typer, t1: Typer) -> bool {
	&&& t1.functions == t0.functions && t1.structures == t0.structures
	&&& t1.calculated_named_lengths == t0.calculated_named_lengths && t1.contextual_type == t0.contextual_type
}
// the wellformedness assert!s at the head of do_update_symbol (established by the parser / fix_type_for_flags; callers not under contract)
pub open spec fn put_types_wellformed(tab: SymTab, id: Identifier, t: Option<Poisonable<ValueType>>) -> bool {
	typed(t) && recorded_typed(tab, id) ==> value_type::wf(t->Some_0->Ok_0) && value_type::wf(recorded_type(tab, id))
}

// `From<Error> for Poison` (error.rs, sliced and verified): vstd's From contract is stated through FromSpec
impl vstd::std_specs::convert::FromSpecImpl<Error> for Poison {
	open spec fn obeys_from_spec() -> bool { true }
	open spec fn from_spec(v: Error) -> Self { Poison::Error(v) }
}

// frame of HashMap::get_mut (prelude/sym_std.rs) for u32 keys: PROVED from vstd's axioms for borrowed keys.  Stated with
// quantifiers because the borrow of the map ends at the tail of the function, where no ghost statement can be put.
pub proof fn lemma_get_mut_frame<V>()
	ensures forall|m0: Map<u32, V>, m1: Map<u32, V>, rest: Map<u32, V>, k: u32| #![trigger borrowed_key_removed(m0, rest, &k), borrowed_key_removed(m1, rest, &k)]
		borrowed_key_removed(m0, rest, &k) && borrowed_key_removed(m1, rest, &k) && m1.contains_key(k) ==> m1 == m0.insert(k, m1[k]),
{
	assert forall|m0: Map<u32, V>, m1: Map<u32, V>, rest: Map<u32, V>, k: u32|
		borrowed_key_removed(m0, rest, &k) && borrowed_key_removed(m1, rest, &k) && m1.contains_key(k) implies m1 == m0.insert(k, m1[k]) by {
		assert forall|k2: u32| k2 != k implies (m1.contains_key(k2) == m0.contains_key(k2) && m1[k2] == m0[k2]) by {
			assert(m1.remove(k).contains_key(k2) == m0.remove(k).contains_key(k2));
			assert(m1.remove(k)[k2] == m0.remove(k)[k2]);
		}
		assert(m1 =~= m0.insert(k, m1[k]));
	}
}

// ---- C07 kernel theorems: what unification can never do --------------------------------------------------------
// scalar = the primitive types of the language (what "implicit conversion" is about)
pub open spec fn is_scalar(t: ValueType) -> bool {
	t is Void || t is Bool || t is Char8 || t is Usize || value_type::signed(t) || value_type::unsigned_fixed(t)
}
// THEOREM: whenever the table keeps or replaces a recorded type, a scalar on either side forces the two types to be
// the SAME type: no int/int, bool/int, char8/u8 ... unification, in no direction, whoever is authoritative
pub proof fn theorem_unification_never_converts_scalars(vt: ValueType, ot: ValueType, a: bool, b: bool)
	requires keeps(ot, vt) || unifies(vt, ot, a, b), is_scalar(vt) || is_scalar(ot),
	ensures vt == ot,
{
	reveal_with_fuel(value_type::teq, 2);
	reveal_with_fuel(value_type::concretizes, 2);
	reveal_with_fuel(value_type::like, 2);
}
// THEOREM: unification never turns a recorded pointer into a non-pointer: the new type is a pointer again, or the slice
// pointer that a pointer to an array-like / endless array stands for
pub proof fn theorem_unification_keeps_pointers(vt: ValueType, ot: ValueType, a: bool, b: bool)
	requires keeps(ot, vt) || unifies(vt, ot, a, b), ot is Pointer,
	ensures vt is Pointer || (vt is SlicePointer && value_type::deref(ot) is Arraylike || vt is SlicePointer && value_type::is_ptr_to_endless(ot, value_type::elem(vt))),
{
	reveal_with_fuel(value_type::teq, 2);
	reveal_with_fuel(value_type::concretizes, 2);
	reveal_with_fuel(value_type::like, 2);
}
// THEOREM: the table changes a symbol only along `unifies`: the outcome of a typed put is the old symbol, or the put type
pub proof fn theorem_update_only_refines(s: Symbol, nid: Identifier, vt: ValueType)
	requires s.value_type is Ok,
	ensures ({
		let (s1, r) = update_spec(s, nid, vt);
		&&& s1.value_type is Ok
		&&& s1 == s || (s1.value_type->Ok_0 == vt && r is Ok && unifies(vt, s.value_type->Ok_0, s.identifier.is_authoritative, nid.is_authoritative))
		&&& r is Err ==> s1 == s && !keeps(s.value_type->Ok_0, vt) && !unifies(vt, s.value_type->Ok_0, s.identifier.is_authoritative, nid.is_authoritative)
	}),
{ }

// ---- the same at every depth: the type at the bottom of the array / pointer spine -------------------------------------
// spine_leaf(t): strip every array form and every pointer / view layer: what is left is the primitive, struct or word
// that the variable ultimately holds or points to
pub open spec fn spine_leaf(t: ValueType) -> ValueType
	decreases t
{
	if value_type::has_elem(t) { spine_leaf(value_type::elem(t)) } else if value_type::is_ptrlike(t) { spine_leaf(value_type::deref(t)) } else { t }
}
// two bottom types are "the same": identical up to the one documented alias char8 ~ u8 (norm), or a struct / word whose
// kind is not resolved yet on one side.  (Closed under swapping by definition: identifier equality is not symmetric.)
pub open spec fn leaf_compat(x: ValueType, y: ValueType) -> bool {
	||| value_type::teq(value_type::norm(x), value_type::norm(y))
	||| value_type::teq(value_type::norm(y), value_type::norm(x))
	||| ((x is Struct || x is Word) && y is UnresolvedStructOrWord)
	||| ((y is Struct || y is Word) && x is UnresolvedStructOrWord)
}
proof fn lemma_leaf_norm(t: ValueType)
	ensures spine_leaf(value_type::norm(t)) == value_type::norm(spine_leaf(t)), value_type::is_leaf(spine_leaf(t)),
	decreases t
{
	if value_type::has_elem(t) { lemma_leaf_norm(value_type::elem(t)); }
	else if value_type::is_ptrlike(t) { lemma_leaf_norm(value_type::deref(t)); }
}
proof fn lemma_leaf_teq(a: ValueType, b: ValueType)
	requires value_type::teq(a, b)
	ensures value_type::teq(spine_leaf(a), spine_leaf(b)), value_type::teq(value_type::norm(spine_leaf(a)), value_type::norm(spine_leaf(b))),
	decreases a
{
	if value_type::has_elem(a) { lemma_leaf_teq(value_type::elem(a), value_type::elem(b)); }
	else if value_type::is_ptrlike(a) { lemma_leaf_teq(value_type::deref(a), value_type::deref(b)); }
}
proof fn lemma_leaf_same_type(a: ValueType, b: ValueType)
	requires value_type::same_type(a, b)
	ensures value_type::teq(value_type::norm(spine_leaf(a)), value_type::norm(spine_leaf(b))),
{
	lemma_leaf_norm(a); lemma_leaf_norm(b);
	lemma_leaf_teq(value_type::norm(a), value_type::norm(b));
}
proof fn lemma_leaf_like(a: ValueType, b: ValueType)
	requires value_type::like(a, b)
	ensures value_type::teq(value_type::norm(spine_leaf(a)), value_type::norm(spine_leaf(b))),
	decreases a
{
	if (a is Array || a is ArrayWithNamedLength || a is EndlessArray) && b is Arraylike { lemma_leaf_like(value_type::elem(a), value_type::elem(b)); }
	else { lemma_leaf_teq(a, b); }
}
proof fn lemma_leaf_concretizes(a: ValueType, b: ValueType)
	requires value_type::concretizes(a, b)
	ensures leaf_compat(spine_leaf(a), spine_leaf(b)),
	decreases a
{
	reveal_with_fuel(spine_leaf, 3);
	let ea = value_type::elem(a); let eb = value_type::elem(b);
	match a {
		ValueType::Array { .. } => if b is Array { lemma_leaf_concretizes(ea, eb); } else { lemma_leaf_like(a, b); },
		ValueType::ArrayWithNamedLength { .. } => if b is ArrayWithNamedLength { lemma_leaf_concretizes(ea, eb); } else { lemma_leaf_like(a, b); },
		ValueType::Slice { .. } => if b is Slice { lemma_leaf_concretizes(ea, eb); } else if b is Arraylike { lemma_leaf_like(ea, eb); } else { lemma_leaf_teq(a, b); },
		ValueType::SlicePointer { .. } =>
			if b is SlicePointer { lemma_leaf_concretizes(ea, eb); }
			else if b is Arraylike { lemma_leaf_like(ea, eb); }
			else if b is Pointer && value_type::deref(b) is Arraylike { lemma_leaf_like(ea, value_type::elem(value_type::deref(b))); }
			else { lemma_leaf_teq(a, b); },
		ValueType::EndlessArray { .. } => if b is EndlessArray { lemma_leaf_concretizes(ea, eb); } else { lemma_leaf_like(a, b); },
		ValueType::Arraylike { .. } => if b is Arraylike { lemma_leaf_concretizes(ea, eb); } else { lemma_leaf_teq(a, b); },
		ValueType::Struct { .. } => if b is UnresolvedStructOrWord { } else { lemma_leaf_teq(a, b); },
		ValueType::Word { .. } => if b is UnresolvedStructOrWord { } else { lemma_leaf_teq(a, b); },
		ValueType::View { .. } => if b is View { lemma_leaf_concretizes(value_type::deref(a), value_type::deref(b)); } else { lemma_leaf_teq(a, b); },
		ValueType::Pointer { .. } => if b is Pointer { lemma_leaf_concretizes(value_type::deref(a), value_type::deref(b)); } else { lemma_leaf_teq(a, b); },
		_ => { lemma_leaf_teq(a, b); },
	}
}
proof fn lemma_leaf_declared_as(a: ValueType, b: ValueType)
	requires value_type::declared_as(a, b)
	ensures leaf_compat(spine_leaf(a), spine_leaf(b)),
{
	reveal_with_fuel(spine_leaf, 3);
	if (a is Array || a is ArrayWithNamedLength || a is Slice) && b is Arraylike { lemma_leaf_teq(value_type::elem(a), value_type::elem(b)); }
	else if a is SlicePointer && b is Pointer { lemma_leaf_teq(value_type::elem(a), value_type::elem(value_type::deref(b))); }
	else { lemma_leaf_teq(a, b); }
}
proof fn lemma_leaf_coercion(a: ValueType, b: ValueType)
	requires value_type::coercion(a, b)
	ensures leaf_compat(spine_leaf(a), spine_leaf(b)),
{
	reveal_with_fuel(spine_leaf, 3);
	if a is Struct { lemma_leaf_teq(value_type::deref(b), a); }
	else if b is Slice { lemma_leaf_same_type(value_type::elem(a), value_type::elem(b)); }
	else { lemma_leaf_same_type(value_type::elem(a), value_type::elem(value_type::deref(b))); }
}
// THEOREM (C07 kernel of the symbol table): whatever the table keeps or replaces, the bottom type of the variable is the
// same before and after: no put can turn an array of / pointer to T into an array of / pointer to a different T, at any depth
pub proof fn theorem_unification_preserves_bottom_type(vt: ValueType, ot: ValueType, a: bool, b: bool)
	requires keeps(ot, vt) || unifies(vt, ot, a, b),
	ensures leaf_compat(spine_leaf(vt), spine_leaf(ot)),
{
	if value_type::teq(ot, vt) { lemma_leaf_teq(ot, vt); }
	else if value_type::concretizes(ot, vt) { lemma_leaf_concretizes(ot, vt); }
	else if value_type::declared_as(vt, ot) { lemma_leaf_declared_as(vt, ot); }
	else if value_type::concretizes(vt, ot) { lemma_leaf_concretizes(vt, ot); }
	else { lemma_leaf_coercion(vt, ot); }
}
// COROLLARY: when that bottom type is a primitive on either side, it is the identical primitive up to the alias char8 ~ u8
pub proof fn corollary_bottom_primitive_is_identical(vt: ValueType, ot: ValueType, a: bool, b: bool)
	requires keeps(ot, vt) || unifies(vt, ot, a, b), is_scalar(spine_leaf(vt)) || is_scalar(spine_leaf(ot)),
	ensures value_type::norm(spine_leaf(vt)) == value_type::norm(spine_leaf(ot)),
{
	theorem_unification_preserves_bottom_type(vt, ot, a, b);
}
