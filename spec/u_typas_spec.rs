// ---------------------------------------------------------------------------------------------
// U-TYPAS ghost specification (C07): analyze_assignment_steps - the steps of an assignment target with the automatic
// steps made explicit.  The walk follows the RECORDED type of the place (not looked through, unlike type_of_place):
//   before an index or member step, every pointer / view the current type has on top is looked through, one
//       Autoderef / Autoview each (at most MAX_ADDRESS_DEPTH = 127 of them: size regime of the parser);
//   before an index step, an array reached as a slice (view) or slice pointer gets an Autodeslice saying which;
//   the index step records whether the array is endless; the given steps are otherwise passed on unchanged;
//   at the end, the `&` markers of the target are set against the pointer depth of the type reached: missing ones are
//   Autoderefs, excess ones are reported as the excess address depth.
// ---------------------------------------------------------------------------------------------
pub struct AsState { pub cur: ValueType, pub out: Seq<ReferenceStep> }

pub open spec fn peel(t: ValueType, out: Seq<ReferenceStep>, n: nat) -> (ValueType, Seq<ReferenceStep>)
	decreases n
{
	if n == 0 { (t, out) } else {
		match t {
			ValueType::Pointer { deref_type } => peel(*deref_type, out.push(ReferenceStep::Autoderef), (n - 1) as nat),
			ValueType::View { deref_type } => peel(*deref_type, out.push(ReferenceStep::Autoview), (n - 1) as nat),
			_ => (t, out),
		}
	}
}
pub open spec fn endless_of(t: ValueType) -> Option<bool> {
	if t is Array || t is ArrayWithNamedLength || t is Slice || t is SlicePointer { Some(false) } else if t is EndlessArray { Some(true) } else { None }
}
pub open spec fn deslice(t: ValueType, out: Seq<ReferenceStep>) -> Seq<ReferenceStep> {
	if t is Slice { out.push(ReferenceStep::Autodeslice { offset: DesliceOffset::ArrayByView }) }
	else if t is SlicePointer { out.push(ReferenceStep::Autodeslice { offset: DesliceOffset::ArrayByPointer }) }
	else { out }
}
// one given step; None = the walk cannot go on (an unreachable!() of the code)
pub open spec fn as_step(s: AsState, step: ReferenceStep, tab: SymTab) -> Option<AsState> {
	match step {
		ReferenceStep::Element { argument, .. } => {
			let p = peel(s.cur, s.out, 127);
			if value_type::has_elem(p.0) {
				Some(AsState { cur: value_type::elem(p.0), out: deslice(p.0, p.1).push(ReferenceStep::Element { argument, is_endless: endless_of(p.0) }) })
			} else { None }
		},
		ReferenceStep::Member { member, .. } => {
			let p = peel(s.cur, s.out, 127);
			match get_spec(tab, member) {
				Some(Ok(t)) => Some(AsState { cur: t, out: p.1.push(step) }),
				_ => None,
			}
		},
		ReferenceStep::Autoderef => if s.cur is Pointer { Some(AsState { cur: value_type::deref(s.cur), out: s.out.push(step) }) } else { None },
		ReferenceStep::Autoview => if s.cur is View { Some(AsState { cur: value_type::deref(s.cur), out: s.out.push(step) }) } else { None },
		ReferenceStep::Autodeslice { offset } => Some(AsState { cur: if offset is Length { ValueType::Usize } else { s.cur }, out: s.out.push(step) }),
	}
}
pub open spec fn as_fold(base: ValueType, steps: Seq<ReferenceStep>, k: int, tab: SymTab) -> Option<AsState>
	decreases k
{
	if k <= 0 { Some(AsState { cur: base, out: Seq::empty() }) } else {
		match as_fold(base, steps, k - 1, tab) {
			Some(s) => as_step(s, steps[k - 1], tab),
			None => None,
		}
	}
}
pub open spec fn derefs(out: Seq<ReferenceStep>, n: nat) -> Seq<ReferenceStep>
	decreases n
{
	if n == 0 { out } else { derefs(out, (n - 1) as nat).push(ReferenceStep::Autoderef) }
}
// the `&` markers of the target against the pointer depth of the type reached
pub open spec fn as_finish(s: AsState, address_depth: u8) -> (Seq<ReferenceStep>, u8) {
	let pd = value_type::pdepth(s.cur);
	if address_depth as nat <= pd { (derefs(s.out, (pd - address_depth) as nat), 0u8) }
	else { (s.out, (address_depth - pd) as u8) }
}
// caller obligations: the walk can go on at every step (the unreachable!() sites), and the size regime of pointer_depth()
pub open spec fn as_pre(base: ValueType, steps: Seq<ReferenceStep>, tab: SymTab) -> bool {
	&&& as_fold(base, steps, steps.len() as int, tab) is Some
	&&& value_type::pdepth(as_fold(base, steps, steps.len() as int, tab)->Some_0.cur) <= usize::MAX
}
pub proof fn lemma_as_fold_prefix(base: ValueType, steps: Seq<ReferenceStep>, k: int, n: int, tab: SymTab)
	requires 0 <= k <= n, as_fold(base, steps, n, tab) is Some,
	ensures as_fold(base, steps, k, tab) is Some,
	decreases n - k
{
	if k < n { lemma_as_fold_prefix(base, steps, k, n - 1, tab); }
}
pub proof fn lemma_peel_stops(t: ValueType, out: Seq<ReferenceStep>, n: nat)
	requires !(t is Pointer) && !(t is View),
	ensures peel(t, out, n) == (t, out),
{ }
