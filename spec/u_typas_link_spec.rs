// U-TYPAS, part 2: the link between the walk of analyze_assignment_steps (spec/u_typas_spec.rs) and the type of a place (spec/u_typref_spec.rs)
// ---- the obligations FOLLOW from "the place has a type" (type_of_place of U-TYPREF) --------------------------------------
// size regime of the parser (MAX_REFERENCE_DEPTH / MAX_ADDRESS_DEPTH = 127): no type stacks more than 127 pointers / views
pub open spec fn layers(t: ValueType) -> nat
	decreases t
{
	match t {
		ValueType::Pointer { deref_type } => 1 + layers(*deref_type),
		ValueType::View { deref_type } => 1 + layers(*deref_type),
		_ => 0,
	}
}
pub open spec fn shallow(t: ValueType) -> bool
	decreases t
{
	&&& layers(t) <= 127
	&&& value_type::is_ptrlike(t) ==> shallow(value_type::deref(t))
	&&& value_type::has_elem(t) ==> shallow(value_type::elem(t))
}
pub proof fn lemma_shallow_strip(t: ValueType)
	requires shallow(t),
	ensures shallow(value_type::strip(t)),
	decreases t
{
	if value_type::is_ptrlike(t) { lemma_shallow_strip(value_type::deref(t)); }
}
pub open spec fn tab_shallow(tab: SymTab) -> bool {
	forall|k: u32| tab.contains_key(k) && (#[trigger] tab[k]).value_type is Ok ==> shallow(tab[k].value_type->Ok_0)
}
// looking through at most 127 layers is looking through all of them
pub proof fn lemma_peel_is_strip(t: ValueType, out: Seq<ReferenceStep>, n: nat)
	requires layers(t) <= n,
	ensures peel(t, out, n).0 == value_type::strip(t),
	decreases n
{
	if n > 0 && value_type::is_ptrlike(t) { lemma_peel_is_strip(value_type::deref(t), out.push(if t is Pointer { ReferenceStep::Autoderef } else { ReferenceStep::Autoview }), (n - 1) as nat); }
}
pub open spec fn parsed_steps(steps: Seq<ReferenceStep>) -> bool { forall|k: int| 0 <= k < steps.len() ==> (#[trigger] steps[k]) is Element || steps[k] is Member }
// the steps as get_type_of_reference leaves them (U-TYPREF: member_steps_passed_are_resolved)
pub open spec fn resolved_steps(steps0: Seq<ReferenceStep>, out: Seq<ReferenceStep>, x0: ValueType, r: Reference, d: Location, tab: SymTab, structs: Structs) -> bool {
	&&& out.len() == steps0.len()
	&&& forall|k: int| 0 <= k < out.len() ==> #[trigger] out[k] == step_resolved(steps0[k], place_fold(x0, steps0, k, r, d, tab, structs)->Typed_0, structs)
}
// THEOREM: for a parsed reference whose place has a type (place_fold is Typed after all the steps), walking the RESOLVED steps from
// the recorded type of the base never meets an unreachable!(): every index step meets an array form and every member step a member
// whose type is recorded - and the type the walk reaches is, looked through, the type of the place
pub proof fn theorem_typed_place_can_be_walked(bt: ValueType, steps0: Seq<ReferenceStep>, out: Seq<ReferenceStep>, k: int, r: Reference, d: Location, tab: SymTab, structs: Structs)
	requires
		0 <= k <= steps0.len(), parsed_steps(steps0), shallow(bt), tab_shallow(tab),
		resolved_steps(steps0, out, value_type::strip(bt), r, d, tab, structs),
		place_fold(value_type::strip(bt), steps0, k, r, d, tab, structs) is Typed,
	ensures
		as_fold(bt, out, k, tab) is Some,
		value_type::strip(as_fold(bt, out, k, tab)->Some_0.cur) == place_fold(value_type::strip(bt), steps0, k, r, d, tab, structs)->Typed_0,
		shallow(as_fold(bt, out, k, tab)->Some_0.cur),
	decreases k
{
	reveal(step_resolved);
	let x0 = value_type::strip(bt);
	if k > 0 {
		assert(place_fold(x0, steps0, k - 1, r, d, tab, structs) is Typed);
		theorem_typed_place_can_be_walked(bt, steps0, out, k - 1, r, d, tab, structs);
		let s = as_fold(bt, out, k - 1, tab)->Some_0;
		let x = place_fold(x0, steps0, k - 1, r, d, tab, structs)->Typed_0;
		let st0 = steps0[k - 1];
		assert(out[k - 1] == step_resolved(st0, x, structs));
		lemma_peel_is_strip(s.cur, s.out, 127);
		lemma_shallow_strip(s.cur);
		if st0 is Member {
			let m = member_access_name(structs, structure_of(x)->Some_0, st0->Member_member);
			assert(get_spec(tab, m) is Some && get_spec(tab, m)->Some_0 is Ok);
			assert(tab.contains_key(m.resolution_id));
		}
	}
}
