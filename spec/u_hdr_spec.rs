// ---------------------------------------------------------------------------------------------
// U-HDR ghost specification: the C17 oracle.
//   pubs(nodes, i)   indices >= i of the nodes that are NOT inside a private zone
//                    (StartPrivateZone{end} .. =end is skipped; everything from an EndlessPrivateZone on is private)
//   wfz              zones are well bracketed along the scan   (parser's obligation)
//   ref_ok / refs_ok no node id stored in a public node points below the number of skipped nodes
//                    ("no reference crosses a zone")                (parser's obligation)
//   conv_ok(r, n, sk) r is node n as it must appear in the header: `pub` flag cleared, function body
//                    removed (FunctionImpl -> NoMoreItems), node ids shifted by the sk skipped nodes, rest identical
// ---------------------------------------------------------------------------------------------
pub open spec fn ref_ok(n: ParseNode, skipped: int) -> bool {
	match n {
		ParseNode::ThenElse { then } => u24v(then.0) >= skipped,
		ParseNode::If { comparison } => u24v(comparison.0) >= skipped,
		ParseNode::Block { first } => u24v(first.0) >= skipped,
		ParseNode::Item { at } => u24v(at.0) >= skipped,
		ParseNode::List { first } => u24v(first.0) >= skipped,
		ParseNode::ListItem { next } => u24v(next.0) >= skipped,
		_ => true,
	}
}
pub open spec fn pubs(nodes: Seq<ParseNode>, i: int) -> Seq<int>
	decreases nodes.len() - i
{
	if i < 0 || i >= nodes.len() { Seq::empty() } else { match nodes[i] {
		ParseNode::StartPrivateZone { end } => if i <= u24v(end.0) < nodes.len() { pubs(nodes, u24v(end.0) + 1) } else { Seq::empty() },
		ParseNode::EndPrivateZone { .. } => Seq::empty(),
		ParseNode::EndlessPrivateZone => Seq::empty(),
		_ => seq![i] + pubs(nodes, i + 1),
	} }
}
pub open spec fn wfz(nodes: Seq<ParseNode>, i: int) -> bool
	decreases nodes.len() - i
{
	if i < 0 || i >= nodes.len() { true } else { match nodes[i] {
		ParseNode::StartPrivateZone { end } => i < u24v(end.0) < nodes.len() && nodes[u24v(end.0)] is EndPrivateZone && wfz(nodes, u24v(end.0) + 1),
		ParseNode::EndPrivateZone { .. } => false,
		ParseNode::EndlessPrivateZone => true,
		_ => wfz(nodes, i + 1),
	} }
}
pub open spec fn refs_ok(nodes: Seq<ParseNode>) -> bool {
	forall|k: int| 0 <= k < pubs(nodes, 0).len() ==> ref_ok(nodes[#[trigger] pubs(nodes, 0)[k]], pubs(nodes, 0)[k] - k)
}
pub open spec fn tree_ok(nodes: Seq<ParseNode>) -> bool { nodes.len() < 0x1000000 && wfz(nodes, 0) }
pub open spec fn id_shift(r: NodeId, n: NodeId, sk: int) -> bool { u24v(r.0) == u24v(n.0) - sk }
pub open spec fn conv_ok(r: ParseNode, n: ParseNode, sk: int) -> bool {
	match n {
		ParseNode::DeclarationFlags(f) => r is DeclarationFlags && r->DeclarationFlags_0.bits == f.bits & !1u8,
		ParseNode::ThenElse { then } => r is ThenElse && id_shift(r->ThenElse_then, then, sk),
		ParseNode::If { comparison } => r is If && id_shift(r->If_comparison, comparison, sk),
		ParseNode::Block { first } => r is Block && id_shift(r->Block_first, first, sk),
		ParseNode::Item { at } => r is Item && id_shift(r->Item_at, at, sk),
		ParseNode::List { first } => r is List && id_shift(r->List_first, first, sk),
		ParseNode::ListItem { next } => r is ListItem && id_shift(r->ListItem_next, next, sk),
		ParseNode::FunctionImpl { .. } => r is NoMoreItems,
		_ => r == n,
	}
}
pub open spec fn is_decl(n: ParseNode) -> bool {
	n is ConstantDeclaration || n is FunctionDeclaration || n is StructureDeclaration || n is ImportDeclaration
}
// every position of the header holds a public node: none comes from inside a zone and there is no zone marker
proof fn lemma_pubs_are_public(nodes: Seq<ParseNode>, i: int, k: int)
	requires 0 <= k < pubs(nodes, i).len(), 0 <= i
	ensures i <= pubs(nodes, i)[k] < nodes.len(),
		!(nodes[pubs(nodes, i)[k]] is StartPrivateZone), !(nodes[pubs(nodes, i)[k]] is EndPrivateZone), !(nodes[pubs(nodes, i)[k]] is EndlessPrivateZone),
	decreases nodes.len() - i
{
	if i >= nodes.len() { } else { match nodes[i] {
		ParseNode::StartPrivateZone { end } => { if i <= u24v(end.0) < nodes.len() { lemma_pubs_are_public(nodes, u24v(end.0) + 1, k); } },
		ParseNode::EndPrivateZone { .. } => {},
		ParseNode::EndlessPrivateZone => {},
		_ => { if k > 0 { lemma_pubs_are_public(nodes, i + 1, k - 1); assert(pubs(nodes, i)[k] == pubs(nodes, i + 1)[k - 1]); } },
	} }
}

// indices below i of the declaration nodes, in order
pub open spec fn decl_idx(nodes: Seq<ParseNode>, i: int) -> Seq<int>
	decreases i
{
	if i <= 0 || i > nodes.len() { Seq::empty() }
	else if is_decl(nodes[i - 1]) { decl_idx(nodes, i - 1).push(i - 1) }
	else { decl_idx(nodes, i - 1) }
}
proof fn lemma_pubs_len(nodes: Seq<ParseNode>, i: int)
	requires 0 <= i <= nodes.len()
	ensures pubs(nodes, i).len() <= nodes.len() - i
	decreases nodes.len() - i
{
	if i >= nodes.len() { } else { match nodes[i] {
		ParseNode::StartPrivateZone { end } => { if i <= u24v(end.0) < nodes.len() { lemma_pubs_len(nodes, u24v(end.0) + 1); } },
		ParseNode::EndPrivateZone { .. } => {},
		ParseNode::EndlessPrivateZone => {},
		_ => { lemma_pubs_len(nodes, i + 1); },
	} }
}
