// ---------------------------------------------------------------------------------------------
// U-PREFS ghost specification (C17, parser side): no reference crosses a zone.
// Included AFTER spec/u_parse_spec.rs (whose pre / post / linv / list_in are extended textually by units/u_prefs.py with
// `rinv`) and spec/u_hdr_spec.rs (ref_ok, refs_ok, pubs, wfz: the header builder's vocabulary, unchanged).
//
// refs_ok(nodes) - what build_header REQUIRES - says: a node outside every private zone stores no node id below the number
// of nodes skipped before it (convert_for_head subtracts that number from every stored id).  The parser keeps a stronger,
// local fact: along the scan that skips closed zones, every node outside the zones stores only ids at or above the FLOOR,
// the position right after the last closed zone in front of it - i.e. no node id stored outside a zone refers to a node in
// or before a zone that lies between the two.  All skipped nodes lie below the floor, hence refs_ok.
//   rfs(s, i, f)   the scan invariant from position i with floor f
//   efl(s, i, f)   the floor with which the scan arrives at the end (or at the open zone): what the NEXT pushed node must respect
//   rinv(b)        rfs of the written cells, and the current floor is not beyond them
//   cfl(b)         the current floor of a buffer
// Opening a zone keeps the floor (whatever is pushed inside the zone is skipped); closing it (set_public) raises the floor
// to the end of the buffer; plain pushes and patches keep it.
// ---------------------------------------------------------------------------------------------
pub open spec fn rfs(s: Seq<ParseNode>, i: int, f: int) -> bool
	decreases s.len() - i
{
	if i < 0 || i >= s.len() { true } else { match s[i] {
		ParseNode::StartPrivateZone { end } => if i < u24v(end.0) < s.len() { rfs(s, u24v(end.0) + 1, u24v(end.0) + 1) } else { true },
		ParseNode::EndPrivateZone { .. } => true,
		ParseNode::EndlessPrivateZone => true,
		_ => ref_ok(s[i], f) && rfs(s, i + 1, f),
	} }
}
pub open spec fn efl(s: Seq<ParseNode>, i: int, f: int) -> int
	decreases s.len() - i
{
	if i < 0 || i >= s.len() { f } else { match s[i] {
		ParseNode::StartPrivateZone { end } => if i < u24v(end.0) < s.len() { efl(s, u24v(end.0) + 1, u24v(end.0) + 1) } else { f },
		ParseNode::EndPrivateZone { .. } => f,
		ParseNode::EndlessPrivateZone => f,
		_ => efl(s, i + 1, f),
	} }
}
#[verifier::opaque]
pub open spec fn cfl(b: ParseBuffer) -> int { efl(cells(b), 0, 0) }
#[verifier::opaque]
pub open spec fn rinv(b: ParseBuffer) -> bool { rfs(cells(b), 0, 0) && 0 <= efl(cells(b), 0, 0) <= b.num_nodes }
// a node that stores no id, or only ids at or above the current floor
pub open spec fn fits_floor(b: ParseBuffer, n: ParseNode) -> bool { ref_ok(n, cfl(b)) }

proof fn lemma_ref_ok_mono(n: ParseNode, a: int, b: int)
	requires ref_ok(n, a), b <= a
	ensures ref_ok(n, b)
{
}
// appending a plain node that respects the arrival floor (inside an open zone: any plain node)
proof fn lemma_rfs_push_plain(s: Seq<ParseNode>, i: int, f: int, a: Option<int>, n: ParseNode)
	requires wfs(s, i, a), rfs(s, i, f), !marker(n), 0 <= i, a is Some ==> a->0 < s.len(), a is None ==> ref_ok(n, efl(s, i, f))
	ensures rfs(s.push(n), i, f), efl(s.push(n), i, f) == efl(s, i, f)
	decreases s.len() - i
{
	let t = s.push(n);
	if i >= s.len() {
		if i == s.len() { assert(t[i] == n); assert(rfs(t, i + 1, f)); assert(efl(t, i + 1, f) == f); }
	} else {
		assert(t[i] == s[i]);
		match s[i] {
			ParseNode::StartPrivateZone { end } => { let e = u24v(end.0); assert(t[e] == s[e]); lemma_rfs_push_plain(s, e + 1, e + 1, a, n); },
			ParseNode::EndPrivateZone { .. } => {},
			ParseNode::EndlessPrivateZone => {},
			_ => { lemma_rfs_push_plain(s, i + 1, f, a, n); },
		}
	}
}
// opening a zone at the end
proof fn lemma_rfs_push_endless(s: Seq<ParseNode>, i: int, f: int)
	requires wfs(s, i, None), rfs(s, i, f), 0 <= i <= s.len()
	ensures rfs(s.push(ParseNode::EndlessPrivateZone), i, f), efl(s.push(ParseNode::EndlessPrivateZone), i, f) == efl(s, i, f)
	decreases s.len() - i
{
	let t = s.push(ParseNode::EndlessPrivateZone);
	if i >= s.len() {
		if i == s.len() { assert(t[i] == ParseNode::EndlessPrivateZone); }
	} else {
		assert(t[i] == s[i]);
		match s[i] {
			ParseNode::StartPrivateZone { end } => { let e = u24v(end.0); assert(t[e] == s[e]); lemma_rfs_push_endless(s, e + 1, e + 1); },
			ParseNode::EndPrivateZone { .. } => {},
			ParseNode::EndlessPrivateZone => {},
			_ => { lemma_rfs_push_endless(s, i + 1, f); },
		}
	}
}
// closing the active zone z: the whole zone is skipped from now on and the floor moves behind its end marker
proof fn lemma_rfs_close(s: Seq<ParseNode>, i: int, f: int, z: int, endn: ParseNode, startn: ParseNode)
	requires wfs(s, i, Some(z)), rfs(s, i, f), 0 <= i, 0 <= z < s.len(), s[z] is EndlessPrivateZone, endn is EndPrivateZone,
		startn is StartPrivateZone, u24v(startn->StartPrivateZone_end.0) == s.len()
	ensures rfs(s.push(endn).update(z, startn), i, f), efl(s.push(endn).update(z, startn), i, f) == s.len() + 1
	decreases s.len() - i
{
	let t = s.push(endn).update(z, startn);
	if i >= s.len() {
	} else if i == z {
		assert(t[z] == startn);
		assert(rfs(t, s.len() as int + 1, s.len() as int + 1));
		assert(efl(t, s.len() as int + 1, s.len() as int + 1) == s.len() + 1);
	} else {
		assert(t[i] == s[i]);
		match s[i] {
			ParseNode::StartPrivateZone { end } => {
				let e = u24v(end.0);
				assert(e != z);
				assert(t[e] == s[e]);
				lemma_rfs_close(s, e + 1, e + 1, z, endn, startn);
			},
			ParseNode::EndPrivateZone { .. } => {},
			ParseNode::EndlessPrivateZone => {},
			_ => { lemma_rfs_close(s, i + 1, f, z, endn, startn); },
		}
	}
}
// patching a plain cell k with a plain node that stores no id below k (the floor at k is never above k)
proof fn lemma_rfs_update_plain(s: Seq<ParseNode>, i: int, f: int, a: Option<int>, k: int, n: ParseNode)
	requires wfs(s, i, a), rfs(s, i, f), 0 <= f <= i, 0 <= k < s.len(), !marker(s[k]), !marker(n), ref_ok(n, k)
	ensures rfs(s.update(k, n), i, f), efl(s.update(k, n), i, f) == efl(s, i, f)
	decreases s.len() - i
{
	let t = s.update(k, n);
	if i >= s.len() {
	} else if i == k {
		assert(t[i] == n);
		lemma_ref_ok_mono(n, k, f);
		lemma_rfs_update_plain(s, i + 1, f, a, k, n);
	} else {
		assert(t[i] == s[i]);
		match s[i] {
			ParseNode::StartPrivateZone { end } => { let e = u24v(end.0); assert(e != k); assert(t[e] == s[e]); lemma_rfs_update_plain(s, e + 1, e + 1, a, k, n); },
			ParseNode::EndPrivateZone { .. } => {},
			ParseNode::EndlessPrivateZone => {},
			_ => { lemma_rfs_update_plain(s, i + 1, f, a, k, n); },
		}
	}
}
// the arrival floor is a position of the sequence
proof fn lemma_efl_bound(s: Seq<ParseNode>, i: int, f: int, a: Option<int>)
	requires wfs(s, i, a), 0 <= f <= i
	ensures 0 <= efl(s, i, f) && (i <= s.len() ==> efl(s, i, f) <= s.len())
	decreases s.len() - i
{
	if i >= s.len() { } else { match s[i] {
		ParseNode::StartPrivateZone { end } => { lemma_efl_bound(s, u24v(end.0) + 1, u24v(end.0) + 1, a); },
		ParseNode::EndPrivateZone { .. } => {},
		ParseNode::EndlessPrivateZone => {},
		_ => { lemma_efl_bound(s, i + 1, f, a); },
	} }
}
// ---- the scan invariant gives the header builder its precondition ----------------------------------------------------------------
// sk = number of nodes skipped before position i (never more than the floor): the k-th public node from i on has
// sk + (its position - i - k) nodes skipped before it
proof fn lemma_rfs_implies_refs(s: Seq<ParseNode>, i: int, f: int, sk: int)
	requires wfz(s, i), rfs(s, i, f), 0 <= i, sk <= f, sk <= i
	ensures forall|k: int| 0 <= k < pubs(s, i).len() ==> ref_ok(s[#[trigger] pubs(s, i)[k]], sk + pubs(s, i)[k] - i - k)
	decreases s.len() - i
{
	if i >= s.len() { } else { match s[i] {
		ParseNode::StartPrivateZone { end } => {
			let e = u24v(end.0);
			lemma_rfs_implies_refs(s, e + 1, e + 1, sk + (e + 1 - i));
			assert forall|k: int| 0 <= k < pubs(s, i).len() implies ref_ok(s[#[trigger] pubs(s, i)[k]], sk + pubs(s, i)[k] - i - k) by {
				assert(pubs(s, i)[k] == pubs(s, e + 1)[k]);
			}
		},
		ParseNode::EndPrivateZone { .. } => {},
		ParseNode::EndlessPrivateZone => {},
		_ => {
			lemma_rfs_implies_refs(s, i + 1, f, sk);
			assert forall|k: int| 0 <= k < pubs(s, i).len() implies ref_ok(s[#[trigger] pubs(s, i)[k]], sk + pubs(s, i)[k] - i - k) by {
				if k == 0 {
					assert(pubs(s, i)[0] == i);
					lemma_ref_ok_mono(s[i], f, sk);
				} else {
					assert(pubs(s, i)[k] == pubs(s, i + 1)[k - 1]);
				}
			}
		},
	} }
}
proof fn lemma_rinv_implies_refs_ok(s: Seq<ParseNode>, a: Option<int>)
	requires wfs(s, 0, a), rfs(s, 0, 0)
	ensures refs_ok(s)
{
	lemma_wfs_implies_wfz(s, 0, a);
	lemma_rfs_implies_refs(s, 0, 0, 0);
}
