// ---------------------------------------------------------------------------------------------
// U-LEXA ghost specification (alpha lexer, src/alpha/lexer.rs).
// ---------------------------------------------------------------------------------------------
// ---- C14: span bookkeeping protocol of lex_line -------------------------------------------------
// a token appended by lex_line(line, _, off, line_number, tokens): on the given line, span well formed and not before the line
pub open spec fn tok_wf(t: LexedToken, off: int, line_number: usize) -> bool {
	t.location.line_number == line_number && off <= t.location.span.start <= t.location.span.end
}
// the tokens appended so far: old tokens untouched, every new token well formed and ending at or before `upto`,
// spans of consecutive new tokens increasing and never overlapping
pub open spec fn toks_ok(t: Seq<LexedToken>, t0: Seq<LexedToken>, off: int, line_number: usize, upto: int) -> bool {
	&&& t.len() >= t0.len()
	&&& t.subrange(0, t0.len() as int) =~= t0
	&&& forall|k: int| t0.len() <= k < t.len() ==> tok_wf(#[trigger] t[k], off, line_number) && t[k].location.span.end <= upto
	&&& forall|j: int, k: int| t0.len() <= j < k < t.len() ==> (#[trigger] t[j]).location.span.end <= (#[trigger] t[k]).location.span.start
}
proof fn lemma_toks_push(t: Seq<LexedToken>, t0: Seq<LexedToken>, off: int, line_number: usize, upto: int, x: LexedToken, upto2: int)
	requires toks_ok(t, t0, off, line_number, upto), tok_wf(x, off, line_number), upto <= x.location.span.start, x.location.span.end <= upto2,
	ensures toks_ok(t.push(x), t0, off, line_number, upto2),
{
	let t2 = t.push(x);
	assert(t2.subrange(0, t0.len() as int) =~= t.subrange(0, t0.len() as int));
	assert forall|k: int| t0.len() <= k < t2.len() implies tok_wf(#[trigger] t2[k], off, line_number) && t2[k].location.span.end <= upto2 by {
		if k < t.len() { assert(t2[k] == t[k]); }
	}
	assert forall|j: int, k: int| t0.len() <= j < k < t2.len() implies (#[trigger] t2[j]).location.span.end <= (#[trigger] t2[k]).location.span.start by {
		assert(t2[j] == t[j]);
		if k < t.len() { assert(t2[k] == t[k]); }
	}
}
// position bookkeeping while one token is being scanned: the iterator walks `line`, the token started at character
// `line_offset` of the line, and `source_offset_start` is the source offset of that character
pub open spec fn scan(iter: CharPeekIter, line: &str, off: usize, line_offset: usize, start: usize) -> bool {
	iter.src@ == line@ && iter.pos <= line@.len() && line_offset < iter.pos && start == off + line_offset
	&& off + line@.len() + 1 <= usize::MAX
}
// the (first) error token of a quoted literal lies inside the characters of that literal consumed so far
pub open spec fn errtok_wf(t: LexedToken, start: usize, end: usize, line_number: usize) -> bool {
	t.location.line_number == line_number && start <= t.location.span.start <= t.location.span.end <= end
}
// the sliced `impl PartialEq for Identifier` (needed as supertrait of value_type::Identifier only, never called by the lexer)
// is given no spec: obeys_eq_spec == false (same as spec/u_lint_spec.rs)
impl vstd::std_specs::cmp::PartialEqSpecImpl for Identifier {
	open spec fn obeys_eq_spec() -> bool { false }
	open spec fn eq_spec(&self, other: &Self) -> bool { true }
}

// ---- C09: the documented value of a character / string literal ------------------------------------
// UTF-8 from the standard's table, in plain arithmetic (independent of vstd's bit-level definition; lemma_utf8 relates them)
pub open spec fn utf8_scalar(v: nat) -> Seq<u8> {
	if v < 0x80 { seq![v as u8] }
	else if v < 0x800 { seq![(0xC0 + v / 64) as u8, (0x80 + v % 64) as u8] }
	else if v < 0x10000 { seq![(0xE0 + v / 4096) as u8, (0x80 + (v / 64) % 64) as u8, (0x80 + v % 64) as u8] }
	else { seq![(0xF0 + v / 262144) as u8, (0x80 + (v / 4096) % 64) as u8, (0x80 + (v / 64) % 64) as u8, (0x80 + v % 64) as u8] }
}
proof fn lemma_utf8(c: char)
	ensures encode_utf8(seq![c]) =~= utf8_scalar(c as nat)
{
	let v = c as u32;
	reveal_with_fuel(encode_utf8, 2);
	assert(seq![c].drop_first() =~= Seq::<char>::empty());
	assert(v <= 0x7f ==> (v & 127) as u8 == v) by (bit_vector);
	assert(0x80 <= v <= 0x7ff ==> (192u8 | ((v >> 6) & 31) as u8) == 192 + v / 64 && (128u8 | (v & 63) as u8) == 128 + v % 64) by (bit_vector);
	assert(0x800 <= v <= 0xffff ==> (224u8 | ((v >> 12) & 15) as u8) == 224 + v / 4096 && (128u8 | ((v >> 6) & 63) as u8) == 128 + (v / 64) % 64 && (128u8 | (v & 63) as u8) == 128 + v % 64) by (bit_vector);
	assert(0x10000 <= v <= 0x10ffff ==> (240u8 | ((v >> 18) & 7) as u8) == 240 + v / 262144 && (128u8 | ((v >> 12) & 63) as u8) == 128 + (v / 4096) % 64 && (128u8 | ((v >> 6) & 63) as u8) == 128 + (v / 64) % 64 && (128u8 | (v & 63) as u8) == 128 + v % 64) by (bit_vector);
}
// \n \r \t \\ \' \" \0
pub open spec fn simple_esc(e: char) -> Option<u8> {
	if e == 'n' { Some(10u8) } else if e == 'r' { Some(13u8) } else if e == 't' { Some(9u8) } else if e == '\\' { Some(92u8) }
	else if e == '\'' { Some(39u8) } else if e == '"' { Some(34u8) } else if e == '0' { Some(0u8) } else { None }
}
// number of consecutive hexadecimal digits from position p on
pub open spec fn hexrun(s: Seq<char>, p: int) -> int
	decreases s.len() - p
{
	if 0 <= p < s.len() && is_dig(s[p], 16) { 1 + hexrun(s, p + 1) } else { 0 }
}
// one element of the content of a quoted literal starting at position p (not the closing quote):
// Some((number of characters, bytes it denotes)), or None when it is malformed.
//   \n \r \t \\ \' \" \0   the documented byte;   \xHH  exactly the single byte 0xHH (all 256 values);
//   \u{H..H}  the UTF-8 encoding of that scalar value;   a space, a graphic ASCII character: its byte;
//   a non-ASCII character: its UTF-8 encoding;   other ASCII (control) characters: malformed.
pub open spec fn elem(s: Seq<char>, p: int) -> Option<(int, Seq<u8>)> {
	let c = s[p];
	if c == '\\' {
		if p + 1 >= s.len() { None }
		else {
			let e = s[p + 1];
			if simple_esc(e) is Some { Some((2int, seq![simple_esc(e)->0])) }
			else if e == 'x' {
				if p + 3 < s.len() && is_dig(s[p + 2], 16) && is_dig(s[p + 3], 16) { Some((4int, seq![(cdig(s[p + 2])->0 * 16 + cdig(s[p + 3])->0) as u8])) } else { None }
			}
			else if e == 'u' {
				if p + 2 < s.len() && s[p + 2] == '{' {
					let k = hexrun(s, p + 3);
					let v = cdigv(s.subrange(p + 3, p + 3 + k), 16);
					if p + 3 + k < s.len() && s[p + 3 + k] == '}' && k >= 1 && is_scalar(v) { Some((4 + k, utf8_scalar(v))) } else { None }
				} else { None }
			}
			else { None }
		}
	}
	else if c == ' ' { Some((1int, seq![32u8])) }
	else if 0x21 <= c as u32 <= 0x7e { Some((1int, seq![c as u8])) }
	else if c as u32 <= 0x7f { None }
	else { Some((1int, utf8_scalar(c as nat))) }
}
pub open spec fn elen(s: Seq<char>, p: int) -> int { match elem(s, p) { Some(e) => e.0, None => 0 } }
pub open spec fn ebytes(s: Seq<char>, p: int) -> Seq<u8> { match elem(s, p) { Some(e) => e.1, None => Seq::<u8>::empty() } }
// s[a..b) is a sequence of well formed elements none of which is the bare quote character q
pub open spec fn lit_ok(s: Seq<char>, a: int, b: int, q: char) -> bool
	decreases b - a
{
	if a >= b { a == b } else { 0 <= a < s.len() && s[a] != q && elem(s, a) is Some && elen(s, a) >= 1 && a + elen(s, a) <= b && lit_ok(s, a + elen(s, a), b, q) }
}
// the bytes denoted by s[a..b)
pub open spec fn lit_bytes(s: Seq<char>, a: int, b: int) -> Seq<u8>
	decreases b - a
{
	if a >= b || !(elem(s, a) is Some && elen(s, a) >= 1 && a + elen(s, a) <= b) { Seq::<u8>::empty() } else { ebytes(s, a) + lit_bytes(s, a + elen(s, a), b) }
}
// appending one element at the end
pub open spec fn lit_step(s: Seq<char>, a: int, p: int, q: char) -> bool {
	(lit_ok(s, a, p, q) && 0 <= p < s.len() && s[p] != q && elem(s, p) is Some && elen(s, p) >= 1)
	==> (lit_ok(s, a, p + elen(s, p), q) && lit_bytes(s, a, p + elen(s, p)) == lit_bytes(s, a, p) + ebytes(s, p))
}
proof fn lemma_lit_step(s: Seq<char>, a: int, p: int, q: char)
	requires a <= p
	ensures lit_step(s, a, p, q)
	decreases p - a
{
	if lit_ok(s, a, p, q) && 0 <= p < s.len() && s[p] != q && elem(s, p) is Some && elen(s, p) >= 1 {
		let n = elen(s, p);
		let eb = ebytes(s, p);
		if a == p {
			assert(lit_ok(s, p + n, p + n, q));
			assert(lit_bytes(s, p + n, p + n) =~= Seq::<u8>::empty());
			assert(lit_bytes(s, p, p) =~= Seq::<u8>::empty());
			assert(lit_bytes(s, p, p + n) =~= eb);
			assert(lit_bytes(s, a, p + n) =~= lit_bytes(s, a, p) + eb);
		} else {
			let a2 = a + elen(s, a);
			assert(lit_ok(s, a2, p, q));
			lemma_lit_step(s, a2, p, q);
			assert(lit_bytes(s, a, p + n) =~= ebytes(s, a) + lit_bytes(s, a2, p + n));
			assert(lit_bytes(s, a, p) =~= ebytes(s, a) + lit_bytes(s, a2, p));
			assert(lit_bytes(s, a, p + n) =~= lit_bytes(s, a, p) + eb);
		}
	}
}
proof fn lemma_cdigv2(s: Seq<char>, base: nat)
	requires s.len() == 2, all_dig(s, base)
	ensures cdigv(s, base) == cdig(s[0])->0 * base + cdig(s[1])->0
{
	let s1 = s.drop_last();
	assert(s1.len() == 1 && s1.last() == s[0] && s.last() == s[1]);
	assert(is_dig(s[0], base) && is_dig(s[1], base));
	assert(cdigv(s1.drop_last(), base) == 0);
	assert(cdigv(s1, base) == cdigv(s1.drop_last(), base) * base + cdig(s[0])->0);
	assert(0 * base == 0) by (nonlinear_arith);
	assert(cdigv(s, base) == cdigv(s1, base) * base + cdig(s[1])->0);
}

// ---- identifier class and the eleven integer suffixes -----------------------------------------------
pub open spec fn ident_cont(x: char) -> bool { (97 <= x as u32 <= 122) || (65 <= x as u32 <= 90) || (48 <= x as u32 <= 57) || x as u32 == 95 }
pub open spec fn suffix_type(s: Seq<char>) -> Option<ValueType> {
	if s == "i8"@ { Some(ValueType::Int8) }
	else if s == "i16"@ { Some(ValueType::Int16) }
	else if s == "i32"@ { Some(ValueType::Int32) }
	else if s == "i64"@ { Some(ValueType::Int64) }
	else if s == "i128"@ { Some(ValueType::Int128) }
	else if s == "u8"@ { Some(ValueType::Uint8) }
	else if s == "u16"@ { Some(ValueType::Uint16) }
	else if s == "u32"@ { Some(ValueType::Uint32) }
	else if s == "u64"@ { Some(ValueType::Uint64) }
	else if s == "u128"@ { Some(ValueType::Uint128) }
	else if s == "usize"@ { Some(ValueType::Usize) }
	else { None }
}
pub open spec fn is_suffix(s: Seq<char>) -> bool { suffix_type(s) is Some }

// ---- C09: integer literals -----------------------------------------------------------------------------
// number of digits of the base in s (the `_` separators and anything else do not count)
pub open spec fn cdigcount(s: Seq<char>, base: nat) -> nat
	decreases s.len()
{
	if s.len() == 0 { 0 } else { cdigcount(s.drop_last(), base) + (if is_dig(s.last(), base) { 1nat } else { 0nat }) }
}
proof fn lemma_cdig_push(s: Seq<char>, c: char, base: nat)
	ensures
		cdigv(s.push(c), base) == (if is_dig(c, base) { cdigv(s, base) * base + cdig(c)->0 } else { cdigv(s, base) }),
		cdigcount(s.push(c), base) == cdigcount(s, base) + (if is_dig(c, base) { 1nat } else { 0nat }),
{
	assert(s.push(c).drop_last() =~= s);
	assert(s.push(c).last() == c);
}
proof fn lemma_sub_push(s: Seq<char>, a: int, p: int)
	requires 0 <= a <= p < s.len()
	ensures s.subrange(a, p + 1) =~= s.subrange(a, p).push(s[p])
{ }
// length of the run of digits of the base and `_` separators starting at p; of identifier characters starting at p
pub open spec fn numrun(s: Seq<char>, p: int, base: nat) -> int
	decreases s.len() - p
{
	if 0 <= p < s.len() && (is_dig(s[p], base) || s[p] == '_') { 1 + numrun(s, p + 1, base) } else { 0 }
}
pub open spec fn idrun(s: Seq<char>, p: int) -> int
	decreases s.len() - p
{
	if 0 <= p < s.len() && ident_cont(s[p]) { 1 + idrun(s, p + 1) } else { 0 }
}
// the token denoted by digits of value v (written in base 10 when `naked`) followed by the suffix text sfx:
// beyond 128 bits E140, no suffix: the plain literal, one of the eleven suffixes: the suffixed literal, else E141
pub open spec fn int_token(v: nat, sfx: Seq<char>, naked: bool) -> Result<Token, Error> {
	if v > u128::MAX { Err(Error::InvalidIntegerLength) }
	else if sfx.len() == 0 { if naked { Ok(Token::NakedDecimal(v as u128)) } else { Ok(Token::BitInteger(v as u128)) } }
	else { match suffix_type(sfx) { Some(t) => Ok(Token::SuffixedInteger { value: v as u128, suffix_type: t }), None => Err(Error::InvalidIntegerTypeSuffix) } }
}
// [1-9][0-9_]*[a-zA-Z0-9_]* starting at lo
pub open spec fn dec_token(s: Seq<char>, lo: int) -> Result<Token, Error> {
	let dend = lo + numrun(s, lo, 10);
	let send = dend + idrun(s, dend);
	int_token(cdigv(s.subrange(lo, dend), 10), s.subrange(dend, send), true)
}
pub open spec fn dec_token_end(s: Seq<char>, lo: int) -> int { lo + numrun(s, lo, 10) + idrun(s, lo + numrun(s, lo, 10)) }
// 0 | 0x[0-9a-fA-F_]* | 0b[01_]*, then [a-zA-Z0-9_]*, starting at lo.  None: `0x` / `0b` without any digit (not specified here)
pub open spec fn zero_base(s: Seq<char>, lo: int) -> nat {
	if lo + 1 < s.len() && s[lo + 1] == 'x' { 16 } else if lo + 1 < s.len() && s[lo + 1] == 'b' { 2 } else { 0 }
}
pub open spec fn zero_token(s: Seq<char>, lo: int) -> Option<Result<Token, Error>> {
	let base = zero_base(s, lo);
	if base == 0 {
		let send = lo + 1 + idrun(s, lo + 1);
		Some(int_token(0, s.subrange(lo + 1, send), true))
	} else {
		let dend = lo + 2 + numrun(s, lo + 2, base);
		let send = dend + idrun(s, dend);
		if cdigcount(s.subrange(lo + 2, dend), base) == 0 { None }
		else { Some(int_token(cdigv(s.subrange(lo + 2, dend), base), s.subrange(dend, send), false)) }
	}
}
pub open spec fn zero_token_end(s: Seq<char>, lo: int) -> int {
	let base = zero_base(s, lo);
	if base == 0 { lo + 1 + idrun(s, lo + 1) } else { lo + 2 + numrun(s, lo + 2, base) + idrun(s, lo + 2 + numrun(s, lo + 2, base)) }
}
// value part of a literal starting with 0, once its digits have been read up to dend: the value of the digits, or E140 beyond 128 bits
// (nothing is said about `0x` / `0b` without digits)
pub open spec fn zv_ok(value: Result<u128, Error>, s: Seq<char>, lo: int, dend: int) -> bool {
	let base = zero_base(s, lo);
	if base == 0 { value == Ok::<u128, Error>(0u128) }
	else if cdigcount(s.subrange(lo + 2, dend), base) == 0 { true }
	else {
		let v = cdigv(s.subrange(lo + 2, dend), base);
		match value { Ok(x) => x == v, Err(e) => e is InvalidIntegerLength && v > u128::MAX }
	}
}

// ---- C14: the whole file (lex) ---------------------------------------------------------------------------
// all tokens so far: spans well formed and ending at or before `upto`, spans increasing and never overlapping,
// line numbers between 1 and `lines` (at least 1 for the placeholder of an empty file) and never decreasing
pub open spec fn file_ok(t: Seq<LexedToken>, upto: int, lines: int) -> bool {
	&&& forall|k: int| 0 <= k < t.len() ==> (#[trigger] t[k]).location.span.start <= t[k].location.span.end <= upto && 1 <= t[k].location.line_number <= (if lines >= 1 { lines } else { 1 })
	&&& forall|j: int, k: int| 0 <= j < k < t.len() ==> (#[trigger] t[j]).location.span.end <= (#[trigger] t[k]).location.span.start && t[j].location.line_number <= t[k].location.line_number
}
proof fn lemma_file_step(t0: Seq<LexedToken>, t: Seq<LexedToken>, off: int, i: int, len: int, adv: int)
	requires file_ok(t0, off, i), toks_ok(t, t0, off, (1 + i) as usize, off + len), 0 <= i, 1 + i <= usize::MAX, 0 <= len <= adv,
	ensures file_ok(t, off + adv, i + 1),
{
	assert forall|k: int| 0 <= k < t0.len() implies #[trigger] t[k] == t0[k] by {
		assert(t.subrange(0, t0.len() as int)[k] == t[k]);
	}
}
// ---- the lines of the file: pieces of split_inclusive('\n') (model in prelude/lexa_std.rs) ----
// what strip_line_terminator must return: the piece without its "\n" or "\r\n"
pub open spec fn stripped(s: Seq<char>) -> Seq<char> {
	if s.len() >= 1 && s.last() == '\n' {
		let t = s.drop_last();
		if t.len() >= 1 && t.last() == '\r' { t.drop_last() } else { t }
	} else { s }
}
pub open spec fn catlen(p: Seq<&str>, n: int) -> int
	decreases n
{
	if n <= 0 { 0 } else { catlen(p, n - 1) + p[n - 1]@.len() }
}
proof fn lemma_cat_len(p: Seq<&str>, n: int)
	requires 0 <= n <= p.len()
	ensures cat(p, n).len() == catlen(p, n)
	decreases n
{
	if n > 0 { lemma_cat_len(p, n - 1); }
}
proof fn lemma_catlen_mono(p: Seq<&str>, a: int, b: int)
	requires 0 <= a <= b <= p.len()
	ensures catlen(p, a) <= catlen(p, b)
	decreases b - a
{
	if a < b { lemma_catlen_mono(p, a, b - 1); }
}
proof fn lemma_catlen_ge(p: Seq<&str>, n: int)
	requires 0 <= n <= p.len(), forall|i: int| 0 <= i < p.len() ==> (#[trigger] p[i])@.len() >= 1
	ensures catlen(p, n) >= n
	decreases n
{
	if n > 0 { lemma_catlen_ge(p, n - 1); }
}
// piece i is the source text at its offset: the offset the lexer keeps is the true character index
proof fn lemma_piece_at(p: Seq<&str>, n: int, i: int)
	requires 0 <= i < n <= p.len()
	ensures cat(p, n).subrange(catlen(p, i), catlen(p, i) + p[i]@.len()) =~= p[i]@, catlen(p, i) + p[i]@.len() <= cat(p, n).len(),
	decreases n
{
	lemma_cat_len(p, n); lemma_cat_len(p, n - 1); lemma_cat_len(p, i);
	if i == n - 1 {
		assert(cat(p, n) =~= cat(p, n - 1) + p[n - 1]@);
	} else {
		lemma_piece_at(p, n - 1, i);
		lemma_catlen_mono(p, i + 1, n - 1);
		assert(cat(p, n) =~= cat(p, n - 1) + p[n - 1]@);
		assert(cat(p, n).subrange(catlen(p, i), catlen(p, i) + p[i]@.len()) =~= cat(p, n - 1).subrange(catlen(p, i), catlen(p, i) + p[i]@.len()));
	}
}
// ---- C14: words: [a-zA-Z_][a-zA-Z0-9_]* is a reserved word, the placeholder `_`, a builtin (followed by `!`) or an identifier ----
// the 34 reserved words and `_` (README/features: fn var const if goto loop else cast as true false, the primitive type names,
// import pub extern struct word8..word128)
pub open spec fn kw_token(s: Seq<char>) -> Option<Token> {
	if s == "fn"@ { Some(Token::Fn) }
	else if s == "var"@ { Some(Token::Var) }
	else if s == "const"@ { Some(Token::Const) }
	else if s == "if"@ { Some(Token::If) }
	else if s == "goto"@ { Some(Token::Goto) }
	else if s == "loop"@ { Some(Token::Loop) }
	else if s == "else"@ { Some(Token::Else) }
	else if s == "cast"@ { Some(Token::Cast) }
	else if s == "as"@ { Some(Token::As) }
	else if s == "true"@ { Some(Token::Bool(true)) }
	else if s == "false"@ { Some(Token::Bool(false)) }
	else if s == "void"@ { Some(Token::Type(ValueType::Void)) }
	else if s == "i8"@ { Some(Token::Type(ValueType::Int8)) }
	else if s == "i16"@ { Some(Token::Type(ValueType::Int16)) }
	else if s == "i32"@ { Some(Token::Type(ValueType::Int32)) }
	else if s == "i64"@ { Some(Token::Type(ValueType::Int64)) }
	else if s == "i128"@ { Some(Token::Type(ValueType::Int128)) }
	else if s == "u8"@ { Some(Token::Type(ValueType::Uint8)) }
	else if s == "u16"@ { Some(Token::Type(ValueType::Uint16)) }
	else if s == "u32"@ { Some(Token::Type(ValueType::Uint32)) }
	else if s == "u64"@ { Some(Token::Type(ValueType::Uint64)) }
	else if s == "u128"@ { Some(Token::Type(ValueType::Uint128)) }
	else if s == "usize"@ { Some(Token::Type(ValueType::Usize)) }
	else if s == "char8"@ { Some(Token::Type(ValueType::Char8)) }
	else if s == "bool"@ { Some(Token::Type(ValueType::Bool)) }
	else if s == "import"@ { Some(Token::Import) }
	else if s == "pub"@ { Some(Token::Pub) }
	else if s == "extern"@ { Some(Token::Extern) }
	else if s == "struct"@ { Some(Token::Struct) }
	else if s == "word8"@ { Some(Token::Word8) }
	else if s == "word16"@ { Some(Token::Word16) }
	else if s == "word32"@ { Some(Token::Word32) }
	else if s == "word64"@ { Some(Token::Word64) }
	else if s == "word128"@ { Some(Token::Word128) }
	else if s == "_"@ { Some(Token::Placeholder) }
	else { None }
}
pub open spec fn ident_start(x: char) -> bool { (97 <= x as u32 <= 122) || (65 <= x as u32 <= 90) || x as u32 == 95 }
// the token starting at lo (an identifier start), and where it ends
pub open spec fn word_ok(result: Result<Token, Error>, s: Seq<char>, lo: int, pos: int) -> bool {
	let n = 1 + idrun(s, lo + 1);
	let text = s.subrange(lo, lo + n);
	if kw_token(text) is Some { result == Ok::<Token, Error>(kw_token(text)->0) && pos == lo + n }
	else if lo + n < s.len() && s[lo + n] == '!' { result is Ok && result->Ok_0 is Builtin && result->Ok_0->Builtin_0@ == text && pos == lo + n + 1 }
	else { result is Ok && result->Ok_0 is Identifier && result->Ok_0->Identifier_0@ == text && pos == lo + n }
}

// ---- C14: punctuation: longest match of the one- and two-character tokens of the language ------------
pub open spec fn nxt(s: Seq<char>, lo: int, c: char) -> bool { lo + 1 < s.len() && s[lo + 1] == c }
pub open spec fn punct_two(s: Seq<char>, lo: int) -> bool {
	let c = s[lo];
	(c == '<' && (nxt(s, lo, '<') || nxt(s, lo, '='))) || (c == '>' && (nxt(s, lo, '>') || nxt(s, lo, '='))) || (c == '|' && nxt(s, lo, ':'))
	|| (c == '!' && nxt(s, lo, '=')) || (c == '.' && nxt(s, lo, '.')) || (c == '=' && nxt(s, lo, '=')) || (c == '-' && nxt(s, lo, '>'))
}
// None: not punctuation, or the start of a `//` comment
pub open spec fn punct_tok(s: Seq<char>, lo: int) -> Option<Token> {
	let c = s[lo];
	if c == '(' { Some(Token::ParenLeft) } else if c == ')' { Some(Token::ParenRight) }
	else if c == '{' { Some(Token::BraceLeft) } else if c == '}' { Some(Token::BraceRight) }
	else if c == '[' { Some(Token::BracketLeft) } else if c == ']' { Some(Token::BracketRight) }
	else if c == '<' { if nxt(s, lo, '<') { Some(Token::ShiftLeft) } else if nxt(s, lo, '=') { Some(Token::IsLE) } else { Some(Token::AngleLeft) } }
	else if c == '>' { if nxt(s, lo, '>') { Some(Token::ShiftRight) } else if nxt(s, lo, '=') { Some(Token::IsGE) } else { Some(Token::AngleRight) } }
	else if c == '|' { if nxt(s, lo, ':') { Some(Token::PipeForType) } else { Some(Token::Pipe) } }
	else if c == '&' { Some(Token::Ampersand) } else if c == '^' { Some(Token::Caret) }
	else if c == '!' { if nxt(s, lo, '=') { Some(Token::DoesNotEqual) } else { Some(Token::Exclamation) } }
	else if c == '+' { Some(Token::Plus) } else if c == '*' { Some(Token::Times) } else if c == '%' { Some(Token::Modulo) }
	else if c == ':' { Some(Token::Colon) } else if c == ';' { Some(Token::Semicolon) }
	else if c == '.' { if nxt(s, lo, '.') { Some(Token::Dots) } else { Some(Token::Dot) } }
	else if c == ',' { Some(Token::Comma) }
	else if c == '=' { if nxt(s, lo, '=') { Some(Token::Equals) } else { Some(Token::Assignment) } }
	else if c == '-' { if nxt(s, lo, '>') { Some(Token::Arrow) } else { Some(Token::Minus) } }
	else if c == '/' { if nxt(s, lo, '/') { None } else { Some(Token::Divide) } }
	else { None }
}
pub open spec fn other_char(c: char) -> bool {
	!(ident_start(c) || 48 <= c as u32 <= 57 || c == '"' || c == '\'' || c == ' ' || c == '\t' || c == '/'
	|| c == '(' || c == ')' || c == '{' || c == '}' || c == '[' || c == ']' || c == '<' || c == '>' || c == '|' || c == '&' || c == '^' || c == '!'
	|| c == '+' || c == '*' || c == '%' || c == ':' || c == ';' || c == '.' || c == ',' || c == '=' || c == '-')
}
