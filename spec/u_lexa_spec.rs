// ---------------------------------------------------------------------------------------------
// U-LEXA ghost specification (alpha lexer, src/alpha/lexer.rs).
// ---------------------------------------------------------------------------------------------
// ---- C14: span bookkeeping protocol of lex_line -------------------------------------------------
// a token appended by lex_line(line, _, off, line_number, tokens): on the given line, span well formed and not before the line
pub open spec fn tok_wf(t: LexedToken, off: int, line_number: usize) -> bool {
	t.location.line_number == line_number && off <= t.location.span.start <= t.location.span.end
}
// the tokens appended so far: old tokens untouched, every new token well formed and ending at or before `upto`,
// spans of consecutive new tokens increasing and never overlapping
pub open spec fn toks_ok(t: Seq<LexedToken>, t0: Seq<LexedToken>, off: int, line_number: usize, upto: int) -> bool {
	&&& t.len() >= t0.len()
	&&& t.subrange(0, t0.len() as int) =~= t0
	&&& forall|k: int| t0.len() <= k < t.len() ==> tok_wf(#[trigger] t[k], off, line_number) && t[k].location.span.end <= upto
	&&& forall|j: int, k: int| t0.len() <= j < k < t.len() ==> (#[trigger] t[j]).location.span.end <= (#[trigger] t[k]).location.span.start
}
proof fn lemma_toks_push(t: Seq<LexedToken>, t0: Seq<LexedToken>, off: int, line_number: usize, upto: int, x: LexedToken, upto2: int)
	requires toks_ok(t, t0, off, line_number, upto), tok_wf(x, off, line_number), upto <= x.location.span.start, x.location.span.end <= upto2,
	ensures toks_ok(t.push(x), t0, off, line_number, upto2),
{
	let t2 = t.push(x);
	assert(t2.subrange(0, t0.len() as int) =~= t.subrange(0, t0.len() as int));
	assert forall|k: int| t0.len() <= k < t2.len() implies tok_wf(#[trigger] t2[k], off, line_number) && t2[k].location.span.end <= upto2 by {
		if k < t.len() { assert(t2[k] == t[k]); }
	}
	assert forall|j: int, k: int| t0.len() <= j < k < t2.len() implies (#[trigger] t2[j]).location.span.end <= (#[trigger] t2[k]).location.span.start by {
		assert(t2[j] == t[j]);
		if k < t.len() { assert(t2[k] == t[k]); }
	}
}
// position bookkeeping while one token is being scanned: the iterator walks `line`, the token started at character
// `line_offset` of the line, and `source_offset_start` is the source offset of that character
pub open spec fn scan(iter: CharPeekIter, line: &str, off: usize, line_offset: usize, start: usize) -> bool {
	iter.src@ == line@ && iter.pos <= line@.len() && line_offset < iter.pos && start == off + line_offset
	&& off + line@.len() + 1 <= usize::MAX
}
// the (first) error token of a quoted literal lies inside the characters of that literal consumed so far
pub open spec fn errtok_wf(t: LexedToken, start: usize, end: usize, line_number: usize) -> bool {
	t.location.line_number == line_number && start <= t.location.span.start <= t.location.span.end <= end
}
// the sliced `impl PartialEq for Identifier` (needed as supertrait of value_type::Identifier only, never called by the lexer)
// is given no spec: obeys_eq_spec == false (same as spec/u_lint_spec.rs)
impl vstd::std_specs::cmp::PartialEqSpecImpl for Identifier {
	open spec fn obeys_eq_spec() -> bool { false }
	open spec fn eq_spec(&self, other: &Self) -> bool { true }
}
