// ---------------------------------------------------------------------------------------------
// U-KEYOFF ghost specification (hand-written, ghost only): the C12 oracle for import path resolution.
//
// An `import "f";` in module M names the module whose key IS the path f; if there is none, the module whose key IS
// the path f taken relative to M's own directory; otherwise nothing (the import stays unresolved).  "IS" = path
// equality, never containment: a key that merely ends with, starts with or contains f does not match.  When several
// keys are equal the first one is meant (keys are module paths in the order given on the command line).
//
//   key_is(keys, i, p)        the i-th key is (==) the path p
//   first_key_that_is(keys, p, i)   i is the index of the FIRST key that is p
//   no_key_is(keys, p)        no key is p
//   import_resolves_to(..)    the whole oracle, as a relation between the inputs and the returned offset
// ---------------------------------------------------------------------------------------------
pub open spec fn key_is(keys: Seq<PathBuf>, i: int, p: Path) -> bool { 0 <= i < keys.len() && keys[i]@ == p }

pub open spec fn no_key_is(keys: Seq<PathBuf>, p: Path) -> bool {
	forall|k: int| 0 <= k < keys.len() ==> (#[trigger] keys[k])@ != p
}

pub open spec fn first_key_that_is(keys: Seq<PathBuf>, p: Path, i: int) -> bool {
	key_is(keys, i, p) && forall|k: int| 0 <= k < i ==> (#[trigger] keys[k])@ != p
}

// the path an import is tried under when no key is the requested path itself: includer's directory / requested path
pub open spec fn relative_to_includer(includer: Path, requested: Path) -> Option<Path> {
	match parent_of(includer) { Some(dir) => Some(joined(dir, requested)), None => None }
}

pub open spec fn import_resolves_to(filename: Seq<char>, keys: Seq<PathBuf>, includer: Path, r: Option<usize>) -> bool {
	let requested = path_of(filename);
	let relative = relative_to_includer(includer, requested);
	if !no_key_is(keys, requested) { r is Some && first_key_that_is(keys, requested, r->Some_0 as int) }
	else if relative is Some && !no_key_is(keys, relative->Some_0) { r is Some && first_key_that_is(keys, relative->Some_0, r->Some_0 as int) }
	else { r is None }
}

// ---- consequences --------------------------------------------------------------------------
// the oracle determines the result (it is a function of the inputs, not merely a constraint)
pub proof fn theorem_resolution_is_deterministic(filename: Seq<char>, keys: Seq<PathBuf>, includer: Path, r1: Option<usize>, r2: Option<usize>)
	requires import_resolves_to(filename, keys, includer, r1), import_resolves_to(filename, keys, includer, r2)
	ensures r1 == r2
{
	let requested = path_of(filename);
	let relative = relative_to_includer(includer, requested);
	if !no_key_is(keys, requested) {
		lemma_first_unique(keys, requested, r1->Some_0 as int, r2->Some_0 as int);
	} else if relative is Some && !no_key_is(keys, relative->Some_0) {
		lemma_first_unique(keys, relative->Some_0, r1->Some_0 as int, r2->Some_0 as int);
	}
}
pub proof fn lemma_first_unique(keys: Seq<PathBuf>, p: Path, i: int, j: int)
	requires first_key_that_is(keys, p, i), first_key_that_is(keys, p, j)
	ensures i == j
{
	if i < j { assert(keys[i]@ != p); } else if j < i { assert(keys[j]@ != p); }
}

// a key that only ENDS WITH the requested path - and is neither that path nor the path relative to the includer -
// is never what an import resolves to (nothing relates `ends_with` to equality, so this holds for every such relation)
pub proof fn theorem_suffix_is_not_a_match(filename: Seq<char>, keys: Seq<PathBuf>, includer: Path, r: Option<usize>, k: int)
	requires import_resolves_to(filename, keys, includer, r),
		0 <= k < keys.len(), ends_with(keys[k]@, path_of(filename)),
		keys[k]@ != path_of(filename),
		relative_to_includer(includer, path_of(filename)) is Some ==> keys[k]@ != relative_to_includer(includer, path_of(filename))->Some_0,
	ensures r is Some ==> r->Some_0 as int != k
{ }
