// U-DEPTH ghost specification: the depth a declaration is sorted by
pub open spec fn recorded_depth(d: Declaration) -> Option<Poisonable<u32>> {
    match d {
        Declaration::Constant { depth, .. } => depth,
        Declaration::Structure { depth, .. } => depth,
        _ => None,
    }
}
pub open spec fn depth_key(d: Declaration, max: u32) -> u32 {
    match recorded_depth(d) {
        Some(Ok(depth)) => depth,
        _ => max,
    }
}
pub open spec fn container(d: Declaration) -> bool { depth_key(d, u32::MAX) < u32::MAX }
pub open spec fn sorted_by_depth(s: Seq<Declaration>) -> bool {
    forall|i: int, j: int| 0 <= i <= j < s.len() ==> depth_key(#[trigger] s[i], u32::MAX) <= depth_key(#[trigger] s[j], u32::MAX)
}
// what `[T]::partition_point` requires of its argument: all elements for which the predicate holds come first
pub open spec fn partitioned(s: Seq<Declaration>) -> bool {
    forall|i: int, j: int| 0 <= i <= j < s.len() && container(#[trigger] s[j]) ==> container(#[trigger] s[i])
}
// a slice sorted by the depth key IS partitioned by the container predicate: the split of a module into containers and
// functions is well defined, and only declarations with a recorded, unpoisoned depth below u32::MAX are containers
pub proof fn theorem_partition_is_well_defined(s: Seq<Declaration>)
    requires sorted_by_depth(s),
    ensures partitioned(s),
{
}
pub proof fn theorem_functions_are_never_containers(d: Declaration)
    ensures (d is Function || d is FunctionHead || d is Import || d is Poison) ==> !container(d),
            (recorded_depth(d) is Some && recorded_depth(d)->0 is Err) ==> !container(d),
{
}
