// ---------------------------------------------------------------------------------------------
// U-VARS ghost specification (C05: no variable is used out of scope, shadowed, or with its declaration skipped).
// Built on spec/u_scope_spec.rs (included before this file):
//     stkv(a)                  the variable stack as Seq<Seq<Identifier>>: layer 0 = the constants, innermost scope last
//     local_lookup(st, 0, n)   the FIRST identifier named n, layer by layer from layer 0 on (None: not visible)
//     push_inner / declared_as / resolved_to / containee_recorded / edge_recorded
// New here: the goto / label bookkeeping as sets of resolution ids
//     open_ids(st)             the ids of every identifier in an open layer (what is in scope at a goto)
//     unresolved_labels[l]     for a label with gotos seen so far: the INTERSECTION of open_ids at each of those gotos
//     pruned_variables[x]      variable x may have been jumped over: its next use is E482 (once), then x is poisoned
// ---------------------------------------------------------------------------------------------

// ---- ids in scope ------------------------------------------------------------------------------------------------------------------
pub open spec fn layer_ids(l: Seq<Identifier>) -> Set<u32>
	decreases l.len()
{
	if l.len() == 0 { Set::empty() } else { layer_ids(l.drop_last()).insert(l.last().resolution_id) }
}
pub open spec fn open_ids_upto(st: Stk, n: int) -> Set<u32>
	decreases n
{
	if n <= 0 || n > st.len() { Set::empty() } else { open_ids_upto(st, n - 1).union(layer_ids(st[n - 1])) }
}
pub open spec fn open_ids(st: Stk) -> Set<u32> { open_ids_upto(st, st.len() as int) }
pub open spec fn in_layer(l: Seq<Identifier>, x: u32) -> bool { exists|j: int| 0 <= j < l.len() && (#[trigger] l[j]).resolution_id == x }
pub open spec fn in_scope(st: Stk, x: u32) -> bool { exists|i: int, j: int| 0 <= i < st.len() && 0 <= j < st[i].len() && (#[trigger] st[i][j]).resolution_id == x }
pub proof fn lemma_layer_ids(l: Seq<Identifier>)
	ensures forall|x: u32| #[trigger] layer_ids(l).contains(x) <==> in_layer(l, x),
	decreases l.len()
{
	if l.len() > 0 {
		let d = l.drop_last();
		lemma_layer_ids(d);
		assert forall|x: u32| #[trigger] layer_ids(l).contains(x) <==> in_layer(l, x) by {
			if in_layer(d, x) { let j = choose|j: int| 0 <= j < d.len() && (#[trigger] d[j]).resolution_id == x; assert(l[j] == d[j]); }
			if in_layer(l, x) { let j = choose|j: int| 0 <= j < l.len() && (#[trigger] l[j]).resolution_id == x; if j < d.len() { assert(d[j] == l[j]); assert(in_layer(d, x)); } }
			if layer_ids(l).contains(x) && !layer_ids(d).contains(x) { assert(l[l.len() - 1].resolution_id == x); }
		}
	}
}
pub open spec fn in_scope_upto(st: Stk, n: int, x: u32) -> bool { exists|i: int, j: int| 0 <= i < n && i < st.len() && 0 <= j < st[i].len() && (#[trigger] st[i][j]).resolution_id == x }
pub proof fn lemma_open_ids_upto(st: Stk, n: int)
	requires 0 <= n <= st.len(),
	ensures forall|x: u32| #[trigger] open_ids_upto(st, n).contains(x) <==> in_scope_upto(st, n, x),
	decreases n
{
	if n > 0 {
		lemma_open_ids_upto(st, n - 1);
		lemma_layer_ids(st[n - 1]);
		assert forall|x: u32| #[trigger] open_ids_upto(st, n).contains(x) <==> in_scope_upto(st, n, x) by {
			assert(open_ids_upto(st, n).contains(x) <==> open_ids_upto(st, n - 1).contains(x) || layer_ids(st[n - 1]).contains(x));
			if in_scope_upto(st, n - 1, x) {
				let (i, j) = choose|i: int, j: int| 0 <= i < n - 1 && i < st.len() && 0 <= j < st[i].len() && (#[trigger] st[i][j]).resolution_id == x;
				assert(0 <= i < n && st[i][j].resolution_id == x);
				assert(in_scope_upto(st, n, x));
			}
			if in_layer(st[n - 1], x) {
				let j = choose|j: int| 0 <= j < st[n - 1].len() && (#[trigger] st[n - 1][j]).resolution_id == x;
				assert(st[n - 1][j].resolution_id == x);
				assert(in_scope_upto(st, n, x));
			}
			if in_scope_upto(st, n, x) {
				let (i, j) = choose|i: int, j: int| 0 <= i < n && i < st.len() && 0 <= j < st[i].len() && (#[trigger] st[i][j]).resolution_id == x;
				if i < n - 1 { assert(st[i][j].resolution_id == x); assert(in_scope_upto(st, n - 1, x)); }
				else { assert(st[n - 1][j].resolution_id == x); assert(in_layer(st[n - 1], x)); }
			}
		}
	}
}
pub proof fn lemma_open_ids(st: Stk)
	ensures forall|x: u32| #[trigger] open_ids(st).contains(x) <==> in_scope(st, x),
{
	lemma_open_ids_upto(st, st.len() as int);
	assert forall|x: u32| #[trigger] open_ids(st).contains(x) <==> in_scope(st, x) by {
		if in_scope(st, x) {
			let (i, j) = choose|i: int, j: int| 0 <= i < st.len() && 0 <= j < st[i].len() && (#[trigger] st[i][j]).resolution_id == x;
			assert(st[i][j].resolution_id == x);
			assert(in_scope_upto(st, st.len() as int, x));
		}
		if in_scope_upto(st, st.len() as int, x) {
			let (i, j) = choose|i: int, j: int| 0 <= i < st.len() && i < st.len() && 0 <= j < st[i].len() && (#[trigger] st[i][j]).resolution_id == x;
			assert(st[i][j].resolution_id == x);
		}
	}
}

// ---- frames ------------------------------------------------------------------------------------------------------------------------
// what a local declaration / a scope bracket leaves alone: every top-level table and the goto / label bookkeeping
pub open spec fn tables_kept(a0: Analyzer, a1: Analyzer) -> bool {
	&&& a1.containers == a0.containers
	&&& a1.function_list == a0.function_list
	&&& a1.unresolved_labels == a0.unresolved_labels
	&&& a1.pruned_variables == a0.pruned_variables
	&&& a1.poisoned_variables == a0.poisoned_variables
	&&& a1.in_constexpr_of_constant == a0.in_constexpr_of_constant
}
// what a use leaves alone (the hash tables are compared through their views: HashMap::remove of an absent key leaves an equal map)
pub open spec fn scopes_kept(a0: Analyzer, a1: Analyzer) -> bool {
	&&& a1.variable_stack == a0.variable_stack
	&&& a1.function_list == a0.function_list
	&&& a1.unresolved_labels == a0.unresolved_labels
	&&& a1.in_constexpr_of_constant == a0.in_constexpr_of_constant
	&&& a1.resolution_id == a0.resolution_id
}
pub open spec fn pruning_kept(a0: Analyzer, a1: Analyzer) -> bool {
	a1.pruned_variables@ =~= a0.pruned_variables@ && a1.poisoned_variables@ =~= a0.poisoned_variables@
}
// inside a constant initialiser every visible identifier must be a container (found_container_1 expects the containee to be predeclared);
// at top level the stack holds the constant layer and empty layers only
pub open spec fn visible_are_containers(a: Analyzer) -> bool {
	a.in_constexpr_of_constant is Some ==>
		forall|i: int, j: int| 0 <= i < a.variable_stack@.len() && 0 <= j < a.variable_stack@[i]@.len() ==> has_container(a.containers@, (#[trigger] a.variable_stack@[i]@[j]).resolution_id)
}
// use_containee on the resolved identifier (spec/u_scope_spec.rs: containee_recorded), read modulo the views of the pruning tables
pub open spec fn use_recorded(a0: Analyzer, containee: Identifier, r: Poisonable<Identifier>, a1: Analyzer) -> bool {
	match a0.in_constexpr_of_constant {
		Some(c) => edge_recorded(a0, c, None, containee, r, a1) && only_ids_change(a0.containers@, a1.containers@),
		None => r == Ok::<Identifier, Poison>(containee) && a1.containers == a0.containers,
	}
}
pub open spec fn skipped_error(id: Identifier, declaration: Identifier, p: Pruning) -> Error {
	Error::VariableDeclarationMayBeSkipped { name: id.name, label: p.label.name, location: id.location, location_of_declaration: declaration.location,
		location_of_goto: p.location_of_goto, location_of_label: p.label.location }
}

// ---- goto / label bookkeeping ---------------------------------------------------------------------------------------------------------
// what a goto to label k records: the ids in scope at this goto, intersected with what earlier gotos to k recorded
pub open spec fn narrowed(earlier: Option<Set<u32>>, ids: Set<u32>) -> Set<u32> {
	match earlier { Some(i) => i.intersect(ids), None => ids }
}
pub open spec fn recorded(m: Map<u32, UnresolvedPruning>, k: u32) -> Option<Set<u32>> {
	if m.contains_key(k) { Some(m[k].intersection_of_variables@) } else { None }
}
pub open spec fn goto_intersection(m: Map<u32, UnresolvedPruning>, k: u32, ids: Set<u32>) -> Set<u32> { narrowed(recorded(m, k), ids) }
pub open spec fn goto_frame(a0: Analyzer, a1: Analyzer) -> bool {
	&&& a1.variable_stack == a0.variable_stack
	&&& a1.containers == a0.containers
	&&& a1.function_list == a0.function_list
	&&& a1.pruned_variables == a0.pruned_variables
	&&& a1.poisoned_variables == a0.poisoned_variables
	&&& a1.in_constexpr_of_constant == a0.in_constexpr_of_constant
	&&& a1.resolution_id == a0.resolution_id
}
pub open spec fn label_frame(a0: Analyzer, a1: Analyzer) -> bool {
	&&& a1.variable_stack == a0.variable_stack
	&&& a1.containers == a0.containers
	&&& a1.function_list == a0.function_list
	&&& a1.poisoned_variables == a0.poisoned_variables
	&&& a1.in_constexpr_of_constant == a0.in_constexpr_of_constant
	&&& a1.resolution_id == a0.resolution_id
}
// what a label does to the table of variables whose declaration may have been skipped: the variables of the label's own layer
// (first `upto` of them) that were NOT in scope at every goto are entered, unless they are in the table already
pub open spec fn in_layer_upto(l: Seq<Identifier>, upto: int, x: u32) -> bool { exists|j: int| 0 <= j < upto && j < l.len() && (#[trigger] l[j]).resolution_id == x }
pub open spec fn pruned_upto(p0: Map<u32, Pruning>, p1: Map<u32, Pruning>, layer: Seq<Identifier>, upto: int, inter: Set<u32>, new: Pruning) -> bool {
	&&& forall|x: u32| #[trigger] p1.contains_key(x) <==> p0.contains_key(x) || (in_layer_upto(layer, upto, x) && !inter.contains(x))
	&&& forall|x: u32| #[trigger] p0.contains_key(x) ==> p1[x] == p0[x]
	&&& forall|x: u32| !p0.contains_key(x) && #[trigger] p1.contains_key(x) ==> p1[x] == new
}
pub open spec fn pruned_at_label(p0: Map<u32, Pruning>, p1: Map<u32, Pruning>, layer: Seq<Identifier>, up: UnresolvedPruning, label: Identifier) -> bool {
	&&& forall|x: u32| #[trigger] p1.contains_key(x) <==> p0.contains_key(x) || (in_layer(layer, x) && !up.intersection_of_variables@.contains(x))
	&&& forall|x: u32| #[trigger] p0.contains_key(x) ==> p1[x] == p0[x]
	&&& forall|x: u32| !p0.contains_key(x) && #[trigger] p1.contains_key(x) ==> p1[x] == (Pruning { label: label, location_of_goto: up.location_of_goto })
}

// ---- theorem: the property's sentence for one label ---------------------------------------------------------------------------------------
// Let scopes[0..n) be open_ids at the n gotos to one label, in the order in which the scoper meets them (prepare_to_prune_at_goto is
// proved to record narrowed(earlier, open_ids) at each of them, starting from no entry), and `layer` the label's own layer when the
// label is met (prune_at_label is proved to enter exactly the ids of that layer that are outside the recorded set).  Then a variable
// of the label's layer is entered into pruned_variables iff SOME goto to the label had it not in scope - and, ids being handed
// out in textual order and the label's layer being open from the variable's declaration to the label, "not in scope at a goto that
// jumps to this label" is "the goto stands before the declaration": the jump skips it.  A variable that was in scope at every goto
// is not entered (no E482 on these grounds); without a goto nothing is.
pub open spec fn after_gotos(scopes: Seq<Set<u32>>) -> Option<Set<u32>>
	decreases scopes.len()
{
	if scopes.len() == 0 { None } else { Some(narrowed(after_gotos(scopes.drop_last()), scopes.last())) }
}
pub open spec fn skipped_by_some_goto(scopes: Seq<Set<u32>>, x: u32) -> bool { exists|m: int| 0 <= m < scopes.len() && !(#[trigger] scopes[m]).contains(x) }
pub proof fn theorem_pruned_iff_some_goto_does_not_have_the_variable_in_scope(scopes: Seq<Set<u32>>, x: u32)
	ensures
		after_gotos(scopes) is Some <==> scopes.len() > 0,
		scopes.len() > 0 ==> (!after_gotos(scopes)->0.contains(x) <==> skipped_by_some_goto(scopes, x)),
	decreases scopes.len()
{
	if scopes.len() > 0 {
		let d = scopes.drop_last();
		theorem_pruned_iff_some_goto_does_not_have_the_variable_in_scope(d, x);
		if skipped_by_some_goto(d, x) {
			let m = choose|m: int| 0 <= m < d.len() && !(#[trigger] d[m]).contains(x);
			assert(scopes[m] == d[m]);
		}
		if skipped_by_some_goto(scopes, x) {
			let m = choose|m: int| 0 <= m < scopes.len() && !(#[trigger] scopes[m]).contains(x);
			if m < d.len() { assert(d[m] == scopes[m]); assert(skipped_by_some_goto(d, x)); }
		}
		if !scopes[scopes.len() - 1].contains(x) { assert(skipped_by_some_goto(scopes, x)); }
	}
}
// the same, in the vocabulary of the two contracts: after the gotos, the label enters x iff x is a variable of its layer that some goto skipped
pub proof fn theorem_E482_marks_exactly_the_declarations_a_goto_skips(scopes: Seq<Set<u32>>, up: UnresolvedPruning, p0: Map<u32, Pruning>, p1: Map<u32, Pruning>,
	layer: Seq<Identifier>, label: Identifier, x: u32)
	requires
		scopes.len() > 0, up.intersection_of_variables@ == after_gotos(scopes)->0,
		pruned_at_label(p0, p1, layer, up, label), !p0.contains_key(x),
	ensures
		p1.contains_key(x) <==> in_layer(layer, x) && skipped_by_some_goto(scopes, x),
		p1.contains_key(x) ==> p1[x].label == label && p1[x].location_of_goto == up.location_of_goto,
{
	theorem_pruned_iff_some_goto_does_not_have_the_variable_in_scope(scopes, x);
}
