// ---------------------------------------------------------------------------------------------------------------------------
// U-EXPAND ghost specification (hand-written, ghost only): the C12 oracle for import expansion, written from the property
// statement, not from the code of `expand`:
//
//   "Importing a file makes exactly its `pub` functions (as signatures), constants and structures visible, never its private
//    items and never items it imported itself ... whatever order the files are given in."
//
// Vocabulary (ms = the modules as they are handed to `expand`, a = index of a module):
//   import_decls(ms, a)      a's import declarations, wherever they stand in the file, in file order
//   other_decls(ms, a)       a's own non-import declarations, in file order
//   interface(ms, a)         a's ORIGINAL `pub` constants / functions / function heads / structures, in file order
//                            (is_public_item of spec/u_export_spec.rs; an import or a poison is never one)
//   target(ms, a, d)         the module that import declaration d of module a names (oracle of U-KEYOFF: the key that IS the
//                            path, else the key that IS the includer's directory joined with the path, else nothing)
//   imports_edge(ms, a, b)   some import declaration of a names module b
//   exported_as(d, x)        x is what an importer sees of d (oracle of U-EXPORT: same item, a function as its signature,
//                            flags minus Public)
//   unresolved_poison(d, x)  x is the poison declaration that carries the "unresolved import" error for import d
//   visible(ms, order)       interface(order[0]) ++ interface(order[1]) ++ ..       (of the ORIGINAL modules)
//   expanded(ms, a, order, cur)   cur = [what is visible of the modules in `order`, item by item exported_as]
//                                    ++ [one poison per unresolved import of a, in file order]
//                                    ++ other_decls(ms, a)
//   enumerates_imports(ms, v)     v lists every pair (a, b) with a != b, imports_edge(a, b) exactly ONCE, in some order
//   order_for(v, a)               the importees of a in the reverse of the order in which v lists them
// The postcondition of `expand` is:  for SOME enumeration v (the HashSet's arbitrary order) every module a ends up
// `expanded(ms, a, order_for(v, a), ..)`.  So: an importee contributes its ORIGINAL interface only (never what was spliced
// into it: no re-export, whatever the order), once per importer however often it is imported, nothing for a self import.
// ---------------------------------------------------------------------------------------------------------------------------
pub type Modules = Seq<(PathBuf, Vec<Declaration>)>;

pub open spec fn is_import_decl() -> spec_fn(Declaration) -> bool { |d: Declaration| d is Import }
pub open spec fn not_import_decl() -> spec_fn(Declaration) -> bool { |d: Declaration| !(d is Import) }
pub open spec fn import_first_key() -> spec_fn(Declaration) -> int { |d: Declaration| if d is Import { -1int } else { 0int } }
pub open spec fn not_self_edge() -> spec_fn((usize, usize)) -> bool { |e: (usize, usize)| e.0 != e.1 }
pub open spec fn public_item() -> spec_fn(Declaration) -> bool { |d: Declaration| is_public_item(d) }
pub open spec fn exported_as(d: Declaration, x: Declaration) -> bool {
	same_item_as_signature(d, x) && public_cleared(d, x) && (d is Function ==> x is FunctionHead)
}
pub open spec fn exported() -> spec_fn(Declaration, Declaration) -> bool { |d: Declaration, x: Declaration| exported_as(d, x) }

pub open spec fn keys_of(ms: Modules) -> Seq<PathBuf> { Seq::new(ms.len(), |a: int| ms[a].0) }
pub open spec fn import_decls(ms: Modules, a: int) -> Seq<Declaration> { ms[a].1@.filter(is_import_decl()) }
pub open spec fn other_decls(ms: Modules, a: int) -> Seq<Declaration> { ms[a].1@.filter(not_import_decl()) }
pub open spec fn interface(ms: Modules, a: int) -> Seq<Declaration> { ms[a].1@.filter(public_item()) }

// import resolution as a function (the relation of U-KEYOFF is deterministic: theorem_resolution_is_deterministic)
pub open spec fn resolution(filename: Seq<char>, keys: Seq<PathBuf>, includer: Path) -> Option<usize> {
	choose|r: Option<usize>| import_resolves_to(filename, keys, includer, r)
}
pub open spec fn target(ms: Modules, a: int, d: Declaration) -> Option<usize> {
	resolution(d->Import_filename@, keys_of(ms), ms[a].0@)
}
pub open spec fn import_target(ms: Modules, a: int, q: int) -> Option<usize> { target(ms, a, import_decls(ms, a)[q]) }
// one of the first `lim` import declarations of a names b
pub open spec fn edge_within(ms: Modules, a: int, lim: int, b: usize) -> bool {
	exists|q: int| 0 <= q < lim && q < import_decls(ms, a).len() && #[trigger] import_target(ms, a, q) == Some(b)
}
pub open spec fn imports_edge(ms: Modules, a: int, b: usize) -> bool { edge_within(ms, a, import_decls(ms, a).len() as int, b) }

pub open spec fn unresolved_error(d: Declaration, e: Error) -> bool {
	match (source_name_hint_of(d->Import_filename@), e) {
		(Some(hint), Error::UnresolvedImportWithHint { filename, location, hinted_package_name }) =>
			filename@ == d->Import_filename@ && location == d->Import_location && hinted_package_name@ == hint,
		(None, Error::UnresolvedImport { filename, location }) =>
			filename@ == d->Import_filename@ && location == d->Import_location,
		_ => false,
	}
}
pub open spec fn unresolved_poison(d: Declaration, x: Declaration) -> bool {
	d is Import && match x { Declaration::Poison(Poison::Error(e)) => unresolved_error(d, e), _ => false }
}
pub open spec fn unresolved(ms: Modules, a: int) -> spec_fn(Declaration) -> bool { |d: Declaration| target(ms, a, d) is None }
pub open spec fn unresolved_imports(ms: Modules, a: int) -> Seq<Declaration> { import_decls(ms, a).filter(unresolved(ms, a)) }

// state of module a after its imports were looked up: resolved imports still there, unresolved ones poisoned, all in front
pub open spec fn resolved_or_poisoned(ms: Modules, a: int, d: Declaration, x: Declaration) -> bool {
	if target(ms, a, d) is Some { x == d } else { unresolved_poison(d, x) }
}
pub open spec fn phase1_ok(ms: Modules, a: int, cur: Seq<Declaration>) -> bool {
	let imp = import_decls(ms, a);
	let oth = other_decls(ms, a);
	&&& cur.len() == imp.len() + oth.len()
	&&& forall|q: int| 0 <= q < imp.len() ==> resolved_or_poisoned(ms, a, imp[q], #[trigger] cur[q])
	&&& forall|q: int| imp.len() <= q < cur.len() ==> #[trigger] cur[q] == oth[q - imp.len()]
}
// what a module keeps of its own: a poison per unresolved import, then its non-import declarations, in file order
pub open spec fn own_ok(ms: Modules, a: int, own: Seq<Declaration>) -> bool {
	let un = unresolved_imports(ms, a);
	let oth = other_decls(ms, a);
	&&& own.len() == un.len() + oth.len()
	&&& forall|q: int| 0 <= q < un.len() ==> unresolved_poison(un[q], #[trigger] own[q])
	&&& forall|q: int| un.len() <= q < own.len() ==> #[trigger] own[q] == oth[q - un.len()]
}

pub open spec fn visible(ms: Modules, order: Seq<usize>) -> Seq<Declaration>
	decreases order.len()
{
	if order.len() == 0 { Seq::empty() } else { interface(ms, order[0] as int) + visible(ms, order.drop_first()) }
}
pub open spec fn order_for(v: Seq<(usize, usize)>, a: int) -> Seq<usize>
	decreases v.len()
{
	if v.len() == 0 { Seq::empty() } else {
		let rest = order_for(v.drop_last(), a);
		if v.last().0 == a { seq![v.last().1] + rest } else { rest }
	}
}
pub open spec fn expanded(ms: Modules, a: int, order: Seq<usize>, cur: Seq<Declaration>) -> bool {
	let vis = visible(ms, order);
	&&& vis.len() <= cur.len()
	&&& forall|k: int| 0 <= k < vis.len() ==> exported_as(vis[k], #[trigger] cur[k])
	&&& own_ok(ms, a, cur.skip(vis.len() as int))
}
pub open spec fn enumerates_imports(ms: Modules, v: Seq<(usize, usize)>) -> bool {
	&&& v.no_duplicates()
	&&& forall|e: (usize, usize)| #[trigger] v.contains(e) <==> (e.0 < ms.len() && e.1 < ms.len() && e.0 != e.1 && imports_edge(ms, e.0 as int, e.1))
}
pub open spec fn expansion_result(ms: Modules, v: Seq<(usize, usize)>, out: Modules) -> bool {
	&&& enumerates_imports(ms, v)
	&&& out.len() == ms.len()
	&&& forall|a: int| 0 <= a < ms.len() ==> expanded(ms, a, order_for(v, a), (#[trigger] out[a]).1@)
}

impl vstd::std_specs::convert::FromSpecImpl<Error> for Poison {
	open spec fn obeys_from_spec() -> bool { true }
	open spec fn from_spec(v: Error) -> Self { Poison::Error(v) }
}

// ---- Seq::filter toolbox -------------------------------------------------------------------------------------------------------
pub proof fn lemma_filter_push<A>(s: Seq<A>, x: A, p: spec_fn(A) -> bool)
	ensures s.push(x).filter(p) == (if p(x) { s.filter(p).push(x) } else { s.filter(p) }),
{
	reveal(Seq::filter);
	assert(s.push(x).drop_last() =~= s);
}
pub proof fn lemma_filter_empty<A>(p: spec_fn(A) -> bool)
	ensures Seq::<A>::empty().filter(p) == Seq::<A>::empty(),
{
	reveal(Seq::filter);
}
pub proof fn lemma_filter_sat<A>(s: Seq<A>, p: spec_fn(A) -> bool)
	ensures forall|k: int| 0 <= k < s.filter(p).len() ==> p(#[trigger] s.filter(p)[k]),
	decreases s.len(),
{
	if s.len() == 0 { lemma_filter_empty(p); assert(s =~= Seq::empty()); } else {
		lemma_filter_sat(s.drop_last(), p);
		lemma_filter_push(s.drop_last(), s.last(), p);
		assert(s.drop_last().push(s.last()) =~= s);
	}
}
pub proof fn lemma_filter_all<A>(s: Seq<A>, p: spec_fn(A) -> bool)
	requires forall|k: int| 0 <= k < s.len() ==> p(#[trigger] s[k]),
	ensures s.filter(p) == s,
	decreases s.len(),
{
	if s.len() == 0 { lemma_filter_empty(p); assert(s =~= Seq::empty()); } else {
		lemma_filter_all(s.drop_last(), p);
		lemma_filter_push(s.drop_last(), s.last(), p);
		assert(s.drop_last().push(s.last()) =~= s);
	}
}
pub proof fn lemma_filter_none<A>(s: Seq<A>, p: spec_fn(A) -> bool)
	requires forall|k: int| 0 <= k < s.len() ==> !p(#[trigger] s[k]),
	ensures s.filter(p) == Seq::<A>::empty(),
	decreases s.len(),
{
	if s.len() == 0 { lemma_filter_empty(p); assert(s =~= Seq::empty()); } else {
		lemma_filter_none(s.drop_last(), p);
		lemma_filter_push(s.drop_last(), s.last(), p);
		assert(s.drop_last().push(s.last()) =~= s);
	}
}
pub proof fn lemma_filter_add<A>(s: Seq<A>, t: Seq<A>, p: spec_fn(A) -> bool)
	ensures (s + t).filter(p) == s.filter(p) + t.filter(p),
	decreases t.len(),
{
	if t.len() == 0 {
		lemma_filter_empty(p);
		assert(t =~= Seq::empty());
		assert(s + t =~= s);
		assert(s.filter(p) + Seq::<A>::empty() =~= s.filter(p));
	} else {
		lemma_filter_add(s, t.drop_last(), p);
		lemma_filter_push(t.drop_last(), t.last(), p);
		lemma_filter_push(s + t.drop_last(), t.last(), p);
		assert(t.drop_last().push(t.last()) =~= t);
		assert((s + t.drop_last()).push(t.last()) =~= s + t);
		if p(t.last()) {
			assert((s.filter(p) + t.drop_last().filter(p)).push(t.last()) =~= s.filter(p) + t.drop_last().filter(p).push(t.last()));
		}
	}
}
// filtering by p1 and then by a p2 that implies p1 is filtering by p2
pub proof fn lemma_filter_filter<A>(s: Seq<A>, p1: spec_fn(A) -> bool, p2: spec_fn(A) -> bool)
	requires forall|x: A| #[trigger] p2(x) ==> p1(x),
	ensures s.filter(p1).filter(p2) == s.filter(p2),
	decreases s.len(),
{
	if s.len() == 0 { lemma_filter_empty(p1); lemma_filter_empty(p2); assert(s =~= Seq::empty()); } else {
		lemma_filter_filter(s.drop_last(), p1, p2);
		lemma_filter_push(s.drop_last(), s.last(), p1);
		lemma_filter_push(s.drop_last(), s.last(), p2);
		lemma_filter_push(s.drop_last().filter(p1), s.last(), p2);
		assert(s.drop_last().push(s.last()) =~= s);
	}
}
// two sequences related item by item, filtered by predicates that agree item by item, stay related item by item
pub proof fn lemma_filter_pointwise<A>(s: Seq<A>, t: Seq<A>, ps: spec_fn(A) -> bool, pt: spec_fn(A) -> bool, rel: spec_fn(A, A) -> bool)
	requires
		s.len() == t.len(),
		forall|q: int| 0 <= q < s.len() ==> rel(s[q], #[trigger] t[q]) && (ps(s[q]) <==> pt(t[q])),
	ensures
		s.filter(ps).len() == t.filter(pt).len(),
		forall|k: int| 0 <= k < s.filter(ps).len() ==> rel(s.filter(ps)[k], #[trigger] t.filter(pt)[k]),
	decreases s.len(),
{
	if s.len() == 0 {
		lemma_filter_empty(ps); lemma_filter_empty(pt);
		assert(s =~= Seq::empty()); assert(t =~= Seq::empty());
	} else {
		assert(rel(s[s.len() - 1], t[t.len() - 1]) && (ps(s[s.len() - 1]) <==> pt(t[t.len() - 1])));
		assert forall|q: int| 0 <= q < s.drop_last().len() implies rel(s.drop_last()[q], #[trigger] t.drop_last()[q]) && (ps(s.drop_last()[q]) <==> pt(t.drop_last()[q])) by {
			assert(t.drop_last()[q] == t[q]);
		}
		lemma_filter_pointwise(s.drop_last(), t.drop_last(), ps, pt, rel);
		lemma_filter_push(s.drop_last(), s.last(), ps);
		lemma_filter_push(t.drop_last(), t.last(), pt);
		assert(s.drop_last().push(s.last()) =~= s);
		assert(t.drop_last().push(t.last()) =~= t);
	}
}
// b is front ++ back, said index by index (kept in this form: equations such as b == b.filter(p) + b.filter(np) or
// b.filter(p) == b.take(m) make the sequence axioms of vstd loop)
pub open spec fn is_concat<A>(b: Seq<A>, front: Seq<A>, back: Seq<A>) -> bool {
	&&& b.len() == front.len() + back.len()
	&&& forall|q: int| 0 <= q < front.len() ==> #[trigger] b[q] == front[q]
	&&& forall|q: int| front.len() <= q < b.len() ==> #[trigger] b[q] == back[q - front.len()]
}
// the length of the longest prefix of s whose elements all satisfy p
pub proof fn lemma_front_count<A>(s: Seq<A>, p: spec_fn(A) -> bool) -> (m: int)
	ensures 0 <= m <= s.len(), forall|i: int| 0 <= i < m ==> p(#[trigger] s[i]), m < s.len() ==> !p(s[m]),
	decreases s.len(),
{
	if s.len() == 0 { 0 } else {
		let t = s.drop_last();
		let m0 = lemma_front_count(t, p);
		assert forall|i: int| 0 <= i < m0 implies p(#[trigger] s[i]) by { assert(t[i] == s[i]); }
		if m0 < t.len() { assert(t[m0] == s[m0]); m0 }
		else if p(s.last()) { s.len() as int }
		else { m0 }
	}
}
// a sequence partitioned by p at m is its p-elements (the first m) followed by the others
pub proof fn lemma_filter_partitioned<A>(s: Seq<A>, p: spec_fn(A) -> bool, np: spec_fn(A) -> bool, m: int)
	requires
		forall|x: A| #[trigger] np(x) == !p(x),
		partitioned_at(s, p, m),
	ensures s.filter(p).len() == m, is_concat(s, s.filter(p), s.filter(np)),
{
	let h = s.take(m);
	let t = s.skip(m);
	assert(s =~= h + t);
	lemma_filter_add(h, t, p);
	lemma_filter_add(h, t, np);
	assert forall|k: int| 0 <= k < h.len() implies p(#[trigger] h[k]) && !np(h[k]) by { assert(h[k] == s[k]); }
	assert forall|k: int| 0 <= k < t.len() implies !p(#[trigger] t[k]) && np(t[k]) by { assert(t[k] == s[k + m]); }
	lemma_filter_all(h, p); lemma_filter_none(h, np);
	lemma_filter_all(t, np); lemma_filter_none(t, p);
	assert(h + Seq::<A>::empty() =~= h);
	assert(Seq::<A>::empty() + t =~= t);
}

// ---- the three phases of `expand` ------------------------------------------------------------------------------------------------
// phase 1, the stable sort: imports first, everything else behind them, both in file order
pub proof fn lemma_import_key_classes()
	ensures
		with_key(import_first_key(), -1) == is_import_decl(),
		with_key(import_first_key(), 0) == not_import_decl(),
{
	assert(with_key(import_first_key(), -1) =~= is_import_decl());
	assert(with_key(import_first_key(), 0) =~= not_import_decl());
}
pub proof fn lemma_sorted_imports_first(a: Seq<Declaration>, b: Seq<Declaration>)
	requires stably_sorted_by_key(a, b, import_first_key()),
	ensures
		is_concat(b, a.filter(is_import_decl()), a.filter(not_import_decl())),
		partitioned_at(b, is_import_decl(), a.filter(is_import_decl()).len() as int),
{
	let key = import_first_key();
	let imp = is_import_decl();
	let nimp = not_import_decl();
	lemma_import_key_classes();
	assert(b.filter(with_key(key, -1)) == a.filter(with_key(key, -1)));
	assert(b.filter(with_key(key, 0)) == a.filter(with_key(key, 0)));
	assert(b.filter(imp) == a.filter(imp) && b.filter(nimp) == a.filter(nimp));
	lemma_partitioned_by_sort(b);
}
// a sequence sorted by the import-first key is its imports followed by the rest
pub proof fn lemma_partitioned_by_sort(b: Seq<Declaration>)
	requires sorted_by_key(b, import_first_key()),
	ensures
		is_concat(b, b.filter(is_import_decl()), b.filter(not_import_decl())),
		partitioned_at(b, is_import_decl(), b.filter(is_import_decl()).len() as int),
{
	let key = import_first_key();
	let imp = is_import_decl();
	let nimp = not_import_decl();
	let m = lemma_front_count(b, imp);
	assert forall|j: int| m <= j < b.len() implies !imp(#[trigger] b[j]) by {
		lemma_sorted_pair(b, key, m, j);
	}
	assert(partitioned_at(b, imp, m));
	lemma_filter_partitioned(b, imp, nimp, m);
}

// the keys the code looks imports up in are the module paths: what get_key_offset found is the oracle's target
pub proof fn lemma_target(ms: Modules, keys: Seq<PathBuf>, a: int, d: Declaration, r: Option<usize>)
	requires
		0 <= a < ms.len(), keys.len() == ms.len(),
		forall|k: int| 0 <= k < ms.len() ==> (#[trigger] keys[k])@ == ms[k].0@,
		import_resolves_to(d->Import_filename@, keys, ms[a].0@, r),
	ensures
		target(ms, a, d) == r,
		r is Some ==> r->Some_0 < ms.len(),
{
	let f = d->Import_filename@;
	let inc = ms[a].0@;
	let k2 = keys_of(ms);
	let requested = path_of(f);
	let relative = relative_to_includer(inc, requested);
	assert forall|p: Path| no_key_is(keys, p) == no_key_is(k2, p) by {
		if no_key_is(keys, p) { assert forall|k: int| 0 <= k < k2.len() implies (#[trigger] k2[k])@ != p by { assert(keys[k]@ != p); } }
		if no_key_is(k2, p) { assert forall|k: int| 0 <= k < keys.len() implies (#[trigger] keys[k])@ != p by { assert(k2[k]@ != p); } }
	}
	assert forall|p: Path, i: int| first_key_that_is(keys, p, i) implies first_key_that_is(k2, p, i) by {
		assert forall|k: int| 0 <= k < i implies (#[trigger] k2[k])@ != p by { assert(keys[k]@ != p); }
	}
	assert(import_resolves_to(f, k2, inc, r));
	theorem_resolution_is_deterministic(f, k2, inc, r, resolution(f, k2, inc));
}

pub proof fn lemma_edge_step(ms: Modules, a: int, j: int, b: usize)
	requires 0 <= j < import_decls(ms, a).len(),
	ensures edge_within(ms, a, j + 1, b) <==> (edge_within(ms, a, j, b) || import_target(ms, a, j) == Some(b)),
{
	if edge_within(ms, a, j + 1, b) {
		let q = choose|q: int| 0 <= q < j + 1 && q < import_decls(ms, a).len() && #[trigger] import_target(ms, a, q) == Some(b);
		if q < j { assert(edge_within(ms, a, j, b)); }
	}
	if edge_within(ms, a, j, b) {
		let q = choose|q: int| 0 <= q < j && q < import_decls(ms, a).len() && #[trigger] import_target(ms, a, q) == Some(b);
		assert(0 <= q < j + 1 && import_target(ms, a, q) == Some(b));
	}
	if import_target(ms, a, j) == Some(b) { assert(edge_within(ms, a, j + 1, b)); }
}

// phase 2: dropping the imports that are still there leaves the poisons and the module's own declarations
pub proof fn lemma_phase2(ms: Modules, a: int, cur: Seq<Declaration>)
	requires 0 <= a < ms.len(), phase1_ok(ms, a, cur),
	ensures own_ok(ms, a, cur.filter(not_import_decl())),
{
	let imp = import_decls(ms, a);
	let oth = other_decls(ms, a);
	let ni = not_import_decl();
	let head = cur.take(imp.len() as int);
	let tail = cur.skip(imp.len() as int);
	assert(cur =~= head + tail);
	assert(tail =~= oth);
	lemma_filter_add(head, tail, ni);
	lemma_filter_sat(ms[a].1@, ni);
	lemma_filter_all(oth, ni);
	lemma_filter_sat(ms[a].1@, is_import_decl());
	let rel = |d: Declaration, x: Declaration| resolved_or_poisoned(ms, a, d, x);
	assert forall|q: int| 0 <= q < imp.len() implies rel(imp[q], #[trigger] head[q]) && (unresolved(ms, a)(imp[q]) <==> ni(head[q])) by {
		assert(head[q] == cur[q]);
		assert(is_import_decl()(imp[q]));
	}
	lemma_filter_pointwise(imp, head, unresolved(ms, a), ni, rel);
	lemma_filter_sat(imp, unresolved(ms, a));
	let un = unresolved_imports(ms, a);
	let own = cur.filter(ni);
	assert(own == head.filter(ni) + oth);
	assert forall|q: int| 0 <= q < un.len() implies unresolved_poison(un[q], #[trigger] own[q]) by {
		assert(own[q] == head.filter(ni)[q]);
		assert(rel(un[q], head.filter(ni)[q]));
		assert(unresolved(ms, a)(un[q]));
	}
}

// phase 3
// what an importer was given is never public: it cannot be handed on
pub proof fn lemma_exported_is_not_public(d: Declaration, x: Declaration)
	requires exported_as(d, x),
	ensures !is_public_item(x),
{
}
// however much was already spliced into a module, what it exports is its ORIGINAL interface
pub proof fn lemma_exports_original_interface(ms: Modules, y: int, order: Seq<usize>, cur: Seq<Declaration>)
	requires 0 <= y < ms.len(), expanded(ms, y, order, cur),
	ensures cur.filter(public_item()) == interface(ms, y),
{
	let p = public_item();
	let vis = visible(ms, order);
	let un = unresolved_imports(ms, y);
	let oth = other_decls(ms, y);
	let head = cur.take(vis.len() as int);
	let own = cur.skip(vis.len() as int);
	let poisons = own.take(un.len() as int);
	let rest = own.skip(un.len() as int);
	assert(cur =~= head + own);
	assert(own =~= poisons + rest);
	assert(rest =~= oth);
	assert forall|k: int| 0 <= k < head.len() implies !p(#[trigger] head[k]) by {
		assert(head[k] == cur[k]);
		lemma_exported_is_not_public(vis[k], cur[k]);
	}
	assert forall|k: int| 0 <= k < poisons.len() implies !p(#[trigger] poisons[k]) by {
		assert(poisons[k] == own[k]);
		assert(unresolved_poison(un[k], own[k]));
	}
	lemma_filter_none(head, p);
	lemma_filter_none(poisons, p);
	lemma_filter_add(head, own, p);
	lemma_filter_add(poisons, rest, p);
	assert forall|x: Declaration| #[trigger] p(x) implies not_import_decl()(x) by { }
	lemma_filter_filter(ms[y].1@, not_import_decl(), p);
	assert(Seq::<Declaration>::empty() + oth.filter(p) =~= oth.filter(p));
}
pub proof fn lemma_visible_cons(ms: Modules, y: usize, order: Seq<usize>)
	ensures visible(ms, seq![y] + order) == interface(ms, y as int) + visible(ms, order),
{
	let o = seq![y] + order;
	assert(o.drop_first() =~= order);
	assert(o[0] == y);
}
// importer x is given the exports of importee y, in front of what it has
pub proof fn lemma_splice_step(ms: Modules, x: int, y: usize, ox: Seq<usize>, oy: Seq<usize>, cur_x: Seq<Declaration>, cur_y: Seq<Declaration>, imported: Seq<Declaration>)
	requires
		0 <= x < ms.len(), y < ms.len(),
		expanded(ms, x, ox, cur_x), expanded(ms, y as int, oy, cur_y),
		imported.len() == cur_y.filter(public_item()).len(),
		forall|k: int| 0 <= k < imported.len() ==> exported_as(cur_y.filter(public_item())[k], #[trigger] imported[k]),
	ensures
		expanded(ms, x, seq![y] + ox, imported + cur_x),
{
	lemma_exports_original_interface(ms, y as int, oy, cur_y);
	lemma_visible_cons(ms, y, ox);
	let vis0 = visible(ms, ox);
	let vis1 = visible(ms, seq![y] + ox);
	let new = imported + cur_x;
	assert(vis1.len() == imported.len() + vis0.len());
	assert forall|k: int| 0 <= k < vis1.len() implies exported_as(vis1[k], #[trigger] new[k]) by {
		if k < imported.len() {
			assert(new[k] == imported[k]);
		} else {
			assert(new[k] == cur_x[k - imported.len()]);
			assert(vis1[k] == vis0[k - imported.len()]);
		}
	}
	assert(new.skip(vis1.len() as int) =~= cur_x.skip(vis0.len() as int));
}
pub proof fn lemma_order_step(v: Seq<(usize, usize)>, n: int, a: int)
	requires 0 <= n < v.len(),
	ensures order_for(v.take(n + 1), a) == (if v[n].0 == a { seq![v[n].1] + order_for(v.take(n), a) } else { order_for(v.take(n), a) }),
{
	assert(v.take(n + 1).drop_last() =~= v.take(n));
	assert(v.take(n + 1).last() == v[n]);
}
pub proof fn lemma_order_start(v: Seq<(usize, usize)>, ms: Modules, a: int, cur: Seq<Declaration>)
	requires own_ok(ms, a, cur),
	ensures expanded(ms, a, order_for(v.take(0), a), cur),
{
	assert(v.take(0).len() == 0);
	assert(cur.skip(0) =~= cur);
}

// ---- sanity of the oracle ----------------------------------------------------------------------------------------------------
// an importer lists each of its importees exactly once, however often it imports it: order_for(v, a) has no repetition and
// holds exactly the b with (a, b) in the enumeration
pub proof fn theorem_each_importee_once(v: Seq<(usize, usize)>, a: usize)
	requires v.no_duplicates(),
	ensures
		order_for(v, a as int).no_duplicates(),
		forall|b: usize| #[trigger] order_for(v, a as int).contains(b) <==> v.contains((a, b)),
	decreases v.len(),
{
	if v.len() > 0 {
		let w = v.drop_last();
		let e = v.last();
		assert forall|i: int, j: int| 0 <= i < w.len() && 0 <= j < w.len() && i != j implies w[i] != w[j] by {
			assert(w[i] == v[i] && w[j] == v[j]);
		}
		theorem_each_importee_once(w, a);
		let rest = order_for(w, a as int);
		let o = order_for(v, a as int);
		assert forall|x: (usize, usize)| v.contains(x) <==> (w.contains(x) || x == e) by {
			if v.contains(x) {
				let i = choose|i: int| 0 <= i < v.len() && v[i] == x;
				if i < w.len() { assert(w[i] == x); }
			}
			if w.contains(x) {
				let i = choose|i: int| 0 <= i < w.len() && w[i] == x;
				assert(v[i] == x);
			}
			assert(v[v.len() - 1] == e);
		}
		if e.0 == a {
			assert(o == seq![e.1] + rest);
			assert(!w.contains(e)) by {
				if w.contains(e) {
					let i = choose|i: int| 0 <= i < w.len() && w[i] == e;
					assert(v[i] == v[v.len() - 1]);
				}
			}
			assert(!rest.contains(e.1));
			assert forall|i: int, j: int| 0 <= i < o.len() && 0 <= j < o.len() && i != j implies o[i] != o[j] by {
				if i > 0 { assert(o[i] == rest[i - 1]); assert(rest.contains(o[i])); }
				if j > 0 { assert(o[j] == rest[j - 1]); assert(rest.contains(o[j])); }
			}
			assert forall|b: usize| #[trigger] o.contains(b) <==> v.contains((a, b)) by {
				if o.contains(b) {
					let i = choose|i: int| 0 <= i < o.len() && o[i] == b;
					if i > 0 { assert(rest[i - 1] == b); assert(rest.contains(b)); }
				}
				if rest.contains(b) {
					let i = choose|i: int| 0 <= i < rest.len() && rest[i] == b;
					assert(o[i + 1] == b);
				}
				assert(o[0] == e.1);
			}
		} else {
			assert(o == rest);
		}
	} else {
		assert forall|b: usize| !(#[trigger] order_for(v, a as int).contains(b)) by { }
	}
}
// a module with no resolved import of another module sees nothing but its own items
pub proof fn theorem_nothing_imported_nothing_visible(ms: Modules, v: Seq<(usize, usize)>, a: int, cur: Seq<Declaration>)
	requires expanded(ms, a, order_for(v, a), cur), forall|e: (usize, usize)| v.contains(e) ==> e.0 != a,
	ensures own_ok(ms, a, cur),
	decreases v.len(),
{
	lemma_no_edge_no_order(v, a);
	assert(cur.skip(0) =~= cur);
}
pub proof fn lemma_no_edge_no_order(v: Seq<(usize, usize)>, a: int)
	requires forall|e: (usize, usize)| v.contains(e) ==> e.0 != a,
	ensures order_for(v, a).len() == 0,
	decreases v.len(),
{
	if v.len() > 0 {
		assert(v.contains(v[v.len() - 1]));
		assert forall|e: (usize, usize)| v.drop_last().contains(e) implies e.0 != a by {
			let i = choose|i: int| 0 <= i < v.drop_last().len() && v.drop_last()[i] == e;
			assert(v[i] == e);
			assert(v.contains(e));
		}
		lemma_no_edge_no_order(v.drop_last(), a);
	}
}
