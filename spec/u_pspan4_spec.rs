// U-PSPAN4 ghost specification, included after spec/u_pspan_spec.rs and the FunctionBody type
// ---- function bodies (U-PSPAN4) ---------------------------------------------------------------------------------------------------------
// `return:` directly before the closing brace: the missing value is reported AT the closing brace (where the value should have stood),
// `after` names the return label, and the result identifier is located at the same brace
pub open spec fn body_missing_value(b: FunctionBody, brace: Location) -> bool {
	&&& b.return_value->0 matches Expression::Poison(Poison::Error(Error::MissingReturnValueAfterStatement { location, after }))
	&&& location == brace && b.return_value_identifier.location == brace
	&&& b.statements@.len() > 0 && !(b.statements@[b.statements@.len() - 1] is Poison) && after == sloc(b.statements@[b.statements@.len() - 1])
}
// `return: value;` - the error points at the semicolon (a token of the file), `after` at the value
pub open spec fn semicolon_after_value(t0: Tokens, e: Error) -> bool {
	&&& e matches Error::UnexpectedSemicolonAfterReturnValue { location, after }
	&&& forward(location) && location.span.end <= end_loc(t0).span.end
	&&& forward(after) && after.span.end <= location.span.end
}
