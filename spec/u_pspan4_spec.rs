// U-PSPAN4 ghost specification, included after spec/u_pspan_spec.rs and the FunctionBody type
// ---- function bodies (U-PSPAN4) ---------------------------------------------------------------------------------------------------------
// `return:` directly before the closing brace: the missing value is reported AT the closing brace (where the value should have stood),
// `after` names the return label, and the result identifier is located at the same brace
pub open spec fn body_missing_value(b: FunctionBody, brace: Location) -> bool {
	&&& b.return_value->0 matches Expression::Poison(Poison::Error(Error::MissingReturnValueAfterStatement { location, after }))
	&&& location == brace && b.return_value_identifier.location == brace
	&&& b.statements@.len() > 0 && !(b.statements@[b.statements@.len() - 1] is Poison) && after == sloc(b.statements@[b.statements@.len() - 1])
}
// `return: value;` - the error points at a token of the file that IS a semicolon, `after` at the value
pub open spec fn semicolon_after_value(t0: Tokens, e: Error) -> bool {
	&&& e matches Error::UnexpectedSemicolonAfterReturnValue { location, after }
	&&& forward(location) && location.span.end <= end_loc(t0).span.end
	&&& forward(after) && after.span.end <= location.span.end
	&&& exists|k: int| 0 <= k < t0.tokens@.len() && (#[trigger] t0.tokens@[k]).location == location
		&& t0.tokens@[k].result is Ok && t0.tokens@[k].result->Ok_0 is Semicolon
}
// the same error seen from a cursor of which t1 is a suffix
pub proof fn lemma_semicolon_suffix(t0: Tokens, t1: Tokens, e: Error)
	requires stream_wf(t0), stream_wf(t1), took(t0, t1, 0), semicolon_after_value(t1, e),
	ensures semicolon_after_value(t0, e),
{
	let location = e->UnexpectedSemicolonAfterReturnValue_location;
	let k = choose|k: int| 0 <= k < t1.tokens@.len() && (#[trigger] t1.tokens@[k]).location == location
		&& t1.tokens@[k].result is Ok && t1.tokens@[k].result->Ok_0 is Semicolon;
	assert(t1.tokens@[k] == t0.tokens@[k + taken(t0, t1)]);
}

// ---- members and parameters `name [: type]` -------------------------------------------------------------------------------------
// The name is located at its token.  The location of the type is opened BEFORE the colon is taken (start_location_span is called
// first), so it starts at the COLON and ends at the last token of the type, reporting line and column of the colon.  The property asks
// that the span covers the type and starts on the reported line: the contract accepts a span that starts at the colon (as the code
// stands) or at the first token of the type, with line and column of that token, and pins the end.  Without a type only the name is taken.
pub open spec fn typed_name_at(t0: Tokens, t1: Tokens, name: Poisonable<Identifier>, vt: Poisonable<ValueType>, lot: Location) -> bool {
	&&& took(t0, t1, 1)
	&&& name is Ok && name->Ok_0.location == first_loc(t0)
	&&& forward(lot)
	&&& (vt is Ok ==> taken(t0, t1) >= 3 && lot.span.end == t1.last_location.span.end
		&& ((lot.span.start == t0.tokens@[1].location.span.start && same_line(lot, t0.tokens@[1].location))
			|| (lot.span.start == t0.tokens@[2].location.span.start && same_line(lot, t0.tokens@[2].location))))
	&&& (vt is Err ==> taken(t0, t1) == 1 && first_loc(t0).span.end <= lot.span.end)
	&&& first_loc(t0).span.start <= lot.span.start && lot.span.end <= end_loc(t0).span.end
}
// a member of a structure body that starts at t0: name and type are located behind the opening brace, the type not before the name,
// and nothing ends behind the last token of the file
pub open spec fn member_in(t0: Tokens, m: Member) -> bool {
	&&& m.name is Ok && forward(m.name->Ok_0.location) && first_loc(t0).span.start <= m.name->Ok_0.location.span.start
	&&& forward(m.location_of_type) && m.name->Ok_0.location.span.start <= m.location_of_type.span.start
	&&& m.location_of_type.span.end <= end_loc(t0).span.end
}

// ---- the rest of a function signature `params ) [-> type]` (the name and the opening parenthesis were read by the caller) --------------
pub open spec fn parameter_in(t0: Tokens, m: Parameter) -> bool {
	&&& m.name is Ok && forward(m.name->Ok_0.location) && t0.tokens@.len() > 0 && first_loc(t0).span.start <= m.name->Ok_0.location.span.start
	&&& forward(m.location_of_type) && m.name->Ok_0.location.span.start <= m.location_of_type.span.start
	&&& m.location_of_type.span.end <= end_loc(t0).span.end
}
// the location of the return type starts at a token behind `)` (as the code stands: the first token of the type; the arrow would satisfy the
// property as well), reports line and column of that token, and ends with the last token taken
pub open spec fn return_type_at(t0: Tokens, t1: Tokens, l: Location) -> bool {
	&&& forward(l) && l.span.end == t1.last_location.span.end
	&&& exists|k: int| 1 <= k < taken(t0, t1) && l.span.start == (#[trigger] t0.tokens@[k]).location.span.start && same_line(l, t0.tokens@[k].location)
}

// t is t0 with a front part taken: what the cursor shows next does not start before the first token of t0, and errors of t are errors of t0
pub proof fn lemma_suffix_facts(t0: Tokens, t: Tokens)
	requires stream_wf(t0), stream_wf(t), took(t0, t, 0),
	ensures end_loc(t) == end_loc(t0),
		forall|e: Error| #[trigger] err_at(t, e) ==> err_at(t0, e),
		t.tokens@.len() > 0 ==> t0.tokens@.len() > 0 && first_loc(t0).span.start <= first_loc(t).span.start && first_loc(t) == t0.tokens@[taken(t0, t)].location,
{
	if t.tokens@.len() > 0 { assert(t.tokens@[0] == t0.tokens@[taken(t0, t)]); }
}

// ---- declarations: the keyword (and `pub` / `extern`) were read by parse_declaration, which hands over their location --------------------
pub open spec fn dloc(d: Declaration) -> Location {
	match d {
		Declaration::Constant { location_of_declaration, .. } => location_of_declaration,
		Declaration::Function { location_of_declaration, .. } => location_of_declaration,
		Declaration::FunctionHead { location_of_declaration, .. } => location_of_declaration,
		Declaration::Structure { location_of_declaration, .. } => location_of_declaration,
		Declaration::Import { location, .. } => location,
		Declaration::Poison(_) => arbitrary(),
	}
}
// a structure or word: located by its keyword alone, named by the first token, flags as handed over, every member inside the text
pub open spec fn structure_at(t0: Tokens, d: Declaration, given: Location, name_loc: Location) -> bool {
	d matches Declaration::Structure { name, members, location_of_declaration, .. }
		&& location_of_declaration == given && name.location == name_loc
		&& forall|i: int| 0 <= i < members@.len() ==> member_in(t0, #[trigger] members@[i])
}
// a constant: located from its keyword to its NAME (same line and column as the keyword), the type between name and end of file,
// the value an expression located behind the name
pub open spec fn constant_at(t0: Tokens, d: Declaration, given: Location) -> bool {
	d matches Declaration::Constant { name, value, value_type, location_of_declaration, location_of_type, .. }
		&& name.location == first_loc(t0)
		&& forward(location_of_declaration) && location_of_declaration.span.start == given.span.start && same_line(location_of_declaration, given)
		&& location_of_declaration.span.end == first_loc(t0).span.end
		&& forward(location_of_type) && first_loc(t0).span.start <= location_of_type.span.start && location_of_type.span.end <= end_loc(t0).span.end
		&& (value_type is Err ==> value_type->Err_0 == Poison::Error(Error::MissingConstantType { location: first_loc(t0) }))
		&& loc_ok(value) && forward(eloc(value)) && first_loc(t0).span.start <= eloc(value).span.start && eloc(value).span.end <= end_loc(t0).span.end
}
pub proof fn lemma_members_of_a_suffix(t0: Tokens, t1: Tokens, members: Seq<Member>)
	requires stream_wf(t0), stream_wf(t1), took(t0, t1, 0), t1.tokens@.len() > 0, forall|i: int| 0 <= i < members.len() ==> member_in(t1, #[trigger] members[i]),
	ensures forall|i: int| 0 <= i < members.len() ==> member_in(t0, #[trigger] members[i]),
{
	lemma_suffix_facts(t0, t1);
	assert forall|i: int| 0 <= i < members.len() implies member_in(t0, #[trigger] members[i]) by { assert(member_in(t1, members[i])); }
}

// ---- function declarations -----------------------------------------------------------------------------------------------------------------
pub open spec fn body_error_located(t0: Tokens, p: Poison) -> bool {
	p is Error && (err_at(t0, p->Error_0) || p->Error_0 is UnexpectedSemicolonAfterIdentifier || semicolon_after_value(t0, p->Error_0))
}
pub open spec fn signature_at(t0: Tokens, given: Location, name: Identifier, parameters: Vec<Parameter>, lod: Location, lort: Location) -> bool {
	&&& lod == given && name.location == first_loc(t0)
	&&& forall|i: int| 0 <= i < parameters@.len() ==> parameter_in(t0, #[trigger] parameters@[i])
	&&& forward(lort) && first_loc(t0).span.start <= lort.span.start && lort.span.end <= end_loc(t0).span.end
	// ... and it starts at a token BEHIND the name and the opening parenthesis (the first token of the written type, or the closing
	// parenthesis where none is written), reporting that token's line: the name or the keyword cannot stand in for it
	&&& exists|k: int| 2 <= k < t0.tokens@.len() && lort.span.start == (#[trigger] t0.tokens@[k]).location.span.start && same_line(lort, t0.tokens@[k].location)
}
// a function (head): located by its keyword alone, named by its first token, parameters and return type inside the text (where no return
// type is written the code takes the closing parenthesis: only `inside the text` is stated); a body that failed carries an error located in the lexed text
pub open spec fn function_at(t0: Tokens, d: Declaration, given: Location) -> bool {
	match d {
		Declaration::Function { name, parameters, body, location_of_declaration, location_of_return_type, .. } =>
			signature_at(t0, given, name, parameters, location_of_declaration, location_of_return_type)
			&& (body is Err ==> body_error_located(t0, body->Err_0)),
		Declaration::FunctionHead { name, parameters, location_of_declaration, location_of_return_type, .. } =>
			signature_at(t0, given, name, parameters, location_of_declaration, location_of_return_type),
		_ => false,
	}
}
pub proof fn lemma_parameters_of_a_suffix(t0: Tokens, t1: Tokens, ps: Seq<Parameter>)
	requires stream_wf(t0), stream_wf(t1), took(t0, t1, 0), forall|i: int| 0 <= i < ps.len() ==> parameter_in(t1, #[trigger] ps[i]),
	ensures forall|i: int| 0 <= i < ps.len() ==> parameter_in(t0, #[trigger] ps[i]),
{
	lemma_suffix_facts(t0, t1);
	assert forall|i: int| 0 <= i < ps.len() implies parameter_in(t0, #[trigger] ps[i]) by { assert(parameter_in(t1, ps[i])); }
}
pub proof fn lemma_return_type_inside(t0: Tokens, t2: Tokens, t3: Tokens, l: Location)
	requires stream_wf(t0), stream_wf(t2), stream_wf(t3), took(t0, t2, 1), took(t2, t3, 1), return_type_at(t2, t3, l),
	ensures first_loc(t0).span.start <= l.span.start && l.span.end <= end_loc(t0).span.end,
		exists|k: int| taken(t0, t2) + 1 <= k < t0.tokens@.len() && l.span.start == (#[trigger] t0.tokens@[k]).location.span.start && same_line(l, t0.tokens@[k].location),
{
	let k = choose|k: int| 1 <= k < taken(t2, t3) && l.span.start == (#[trigger] t2.tokens@[k]).location.span.start && same_line(l, t2.tokens@[k].location);
	let d = taken(t0, t2);
	assert(t2.tokens@[k] == t0.tokens@[k + d]);
	let j = taken(t2, t3);
	assert(t3.last_location == t2.tokens@[j - 1].location);
	assert(t2.tokens@[j - 1] == t0.tokens@[j - 1 + d]);
	assert(t0.tokens@[0].location.span.start <= t0.tokens@[k + d].location.span.start);
	assert(t0.tokens@[j - 1 + d].location.span.end <= t0.tokens@[t0.tokens@.len() - 1].location.span.end);
}

// ---- parse_declaration: `[pub] [extern] keyword ...` ---------------------------------------------------------------------------------------
// rule PS6: String::from_utf8 through a TRUSTED wrapper whose body is the very call (the error value is dropped: the code ignores it)
#[verifier::external_body]
pub fn ps_string_from_utf8(bytes: Vec<u8>) -> (r: Result<String, ()>) {
	match String::from_utf8(bytes) { Ok(s) => Ok(s), Err(_) => Err(()) }
}
// As the code stands a declaration is located at its keyword, or at `pub` / `extern` if one of them is written, and at `extern` if BOTH are
// written (the second assignment overwrites the first): it starts at the first or the second token and reports that token's line.
pub open spec fn declaration_at(t0: Tokens, d: Declaration) -> bool {
	&&& !(d is Poison) && forward(dloc(d))
	&&& exists|k: int| 0 <= k <= 1 && k < t0.tokens@.len() && dloc(d).span.start == (#[trigger] t0.tokens@[k]).location.span.start && same_line(dloc(d), t0.tokens@[k].location)
}
// a token that was taken precedes what the cursor shows
pub proof fn lemma_taken_token_precedes(t0: Tokens, t: Tokens, k: int)
	requires stream_wf(t0), stream_wf(t), took(t0, t, 1), 0 <= k < taken(t0, t),
	ensures precedes(t0.tokens@[k].location, t), forward(t0.tokens@[k].location), t0.tokens@[k].location.span.end <= end_loc(t0).span.end,
{
	if t.tokens@.len() > 0 { assert(t.tokens@[0] == t0.tokens@[taken(t0, t)]); }
	assert(t0.tokens@[k].location.span.end <= t0.tokens@[t0.tokens@.len() - 1].location.span.end);
}
