// ---------------------------------------------------------------------------------------------
// U-WALK ghost specification (C05): the SCOPE DISCIPLINE of the tree walk of variable_references.rs.
// Not an oracle of the walk (which names an expression uses is not modelled): a frame / representation invariant on
// Analyzer::variable_stack carried through every `Analyzable::analyze` by the trait-level spec fns pre / post.
//   looked_up(a0, a1, w)      what a walk that only LOOKS NAMES UP does: same layers with the same contents, at most w fresh ids
//   extended(st0, st1, names) what a statement does: same number of layers, every layer but the innermost unchanged, the innermost
//                             one is the old one with one identifier appended per declared name, in order
//   ids_X(x)                  an upper bound of the resolution ids node x consumes (one per declared variable / parameter / member,
//                             one per array literal, one per function body); BAD (2^32) for nodes the typer inserts later
//                             (Autocoerce, Autoderef, Autodeslice, Autoview: `unreachable!()` in this pass), so that
//                             "the ids fit" also says "the tree is a scoper input"
//   inv(a)                    what the lookups need: the constant under analysis and everything visible from inside a constant
//                             initialiser are containers (spec/u_scope_spec.rs, spec/u_vars_spec.rs)
// ---------------------------------------------------------------------------------------------
pub open spec fn BAD() -> nat { 0x1_0000_0000 }

// ---- ids consumed -------------------------------------------------------------------------------------------------------------------
pub open spec fn rank_e(e: Expression) -> int {
	match e {
		Expression::Structural { members, .. } => members@.len() as int + 1,
		Expression::FunctionCall { arguments, .. } => arguments@.len() as int + 1,
		_ => 0int,
	}
}
pub open spec fn ids_e(e: Expression) -> nat
	decreases e, rank_e(e)
{
	match e {
		Expression::Binary { left, right, .. } => ids_e(*left) + ids_e(*right),
		Expression::Unary { expression, .. } => ids_e(*expression),
		Expression::ArrayLiteral { array, .. } => ids_a(array),
		Expression::Structural { members, .. } => ids_members(e, 0),
		Expression::Parenthesized { inner, .. } => ids_e(*inner),
		Expression::Deref { reference, .. } => ids_r(reference),
		Expression::Autocoerce { .. } => BAD(),
		Expression::BitCast { expression, .. } => ids_e(*expression),
		Expression::TypeCast { expression, .. } => ids_e(*expression),
		Expression::LengthOfArray { reference, .. } => ids_r(reference),
		Expression::FunctionCall { arguments, .. } => ids_args(e, 0),
		_ => 0,
	}
}
// members k.. of a structural literal / arguments k.. of a call
pub open spec fn ids_members(e: Expression, k: int) -> nat
	decreases e, (if e is Structural { e->Structural_members@.len() - k } else { 0 })
{
	if e is Structural && 0 <= k < e->Structural_members@.len() { ids_e(e->Structural_members@[k].expression) + ids_members(e, k + 1) } else { 0 }
}
pub open spec fn ids_args(e: Expression, k: int) -> nat
	decreases e, (if e is FunctionCall { e->FunctionCall_arguments@.len() - k } else { 0 })
{
	if e is FunctionCall && 0 <= k < e->FunctionCall_arguments@.len() { ids_e(e->FunctionCall_arguments@[k]) + ids_args(e, k + 1) } else { 0 }
}
pub open spec fn ids_a(a: Array) -> nat
	decreases a, a.elements@.len() + 1
{
	ids_elements(a, 0) + 1
}
pub open spec fn ids_elements(a: Array, k: int) -> nat
	decreases a, a.elements@.len() - k
{
	if 0 <= k < a.elements@.len() { ids_e(a.elements@[k]) + ids_elements(a, k + 1) } else { 0 }
}
pub open spec fn ids_r(r: Reference) -> nat
	decreases r, r.steps@.len() + 1
{
	ids_steps(r, 0)
}
pub open spec fn ids_steps(r: Reference, k: int) -> nat
	decreases r, r.steps@.len() - k
{
	if 0 <= k < r.steps@.len() { ids_step(r.steps@[k]) + ids_steps(r, k + 1) } else { 0 }
}
pub open spec fn ids_step(s: ReferenceStep) -> nat
	decreases s, 0int
{
	match s {
		ReferenceStep::Element { argument, .. } => ids_e(*argument),
		ReferenceStep::Member { .. } => 0,
		_ => BAD(),
	}
}
pub open spec fn ids_c(c: Comparison) -> nat { ids_e(c.left) + ids_e(c.right) }
pub open spec fn ids_oe(o: Option<Expression>) -> nat { match o { Some(e) => ids_e(e), None => 0 } }

pub open spec fn rank_s(s: Statement) -> int {
	match s { Statement::MethodCall { arguments, .. } => arguments@.len() as int + 1, _ => 0int }
}
pub open spec fn ids_s(s: Statement) -> nat
	decreases s, rank_s(s)
{
	match s {
		Statement::Declaration { value, .. } => ids_oe(value) + 1,
		Statement::Assignment { reference, value, .. } => ids_e(value) + ids_r(reference),
		Statement::MethodCall { arguments, .. } => ids_margs(s, 0),
		Statement::If { condition, then_branch, else_branch, .. } =>
			ids_c(condition) + ids_s(*then_branch) + (match else_branch { Some(e) => ids_s(*e.branch), None => 0 }),
		Statement::Block(b) => ids_b(b),
		_ => 0,
	}
}
pub open spec fn ids_margs(s: Statement, k: int) -> nat
	decreases s, (if s is MethodCall { s->MethodCall_arguments@.len() - k } else { 0 })
{
	if s is MethodCall && 0 <= k < s->MethodCall_arguments@.len() { ids_e(s->MethodCall_arguments@[k]) + ids_margs(s, k + 1) } else { 0 }
}
pub open spec fn ids_b(b: Block) -> nat
	decreases b, b.statements@.len() + 1
{
	ids_stmts(b, 0)
}
pub open spec fn ids_stmts(b: Block, k: int) -> nat
	decreases b, b.statements@.len() - k
{
	if 0 <= k < b.statements@.len() { ids_s(b.statements@[k]) + ids_stmts(b, k + 1) } else { 0 }
}
pub open spec fn ids_f(f: FunctionBody) -> nat { ids_fstmts(f, 0) + ids_oe(f.return_value) + 1 }
pub open spec fn ids_fstmts(f: FunctionBody, k: int) -> nat
	decreases f.statements@.len() - k
{
	if 0 <= k < f.statements@.len() { ids_s(f.statements@[k]) + ids_fstmts(f, k + 1) } else { 0 }
}
pub open spec fn ids_d(d: Declaration) -> nat {
	match d {
		Declaration::Constant { value, .. } => ids_e(value),
		Declaration::Function { parameters, body, .. } => parameters@.len() + (match body { Ok(f) => ids_f(f), Err(_) => 0 }),
		Declaration::FunctionHead { parameters, .. } => parameters@.len(),
		Declaration::Structure { members, .. } => members@.len(),
		_ => 0,
	}
}

// ---- what the lookups need, and what a lookup-only walk leaves -----------------------------------------------------------------------------
pub open spec fn inv(a: Analyzer) -> bool { context_is_predeclared(a) && visible_are_containers(a) && constants_are_containers(a) }
pub open spec fn fits(a: Analyzer, w: nat) -> bool { a.resolution_id as int + w <= u32::MAX }
pub open spec fn looked_up(a0: Analyzer, a1: Analyzer, w: nat) -> bool {
	&&& inv(a1)
	&&& stkv(a1) =~~= stkv(a0)
	&&& a1.in_constexpr_of_constant == a0.in_constexpr_of_constant
	&&& a1.resolution_id as int <= a0.resolution_id + w
	&&& only_ids_change(a0.containers@, a1.containers@)
}
pub proof fn lemma_has_container_kept(c0: Seq<Container>, c1: Seq<Container>, rid: u32)
	requires only_ids_change(c0, c1), has_container(c0, rid),
	ensures has_container(c1, rid),
{
	let i = choose|i: int| 0 <= i < c0.len() && (#[trigger] c0[i]).identifier.resolution_id == rid;
	assert(c1[i].identifier == c0[i].identifier);
}
// the invariant survives everything that keeps the stack, the constant under analysis and the identity of the containers
pub proof fn lemma_inv_kept(a0: Analyzer, a1: Analyzer)
	requires inv(a0), stkv(a1) =~~= stkv(a0), a1.in_constexpr_of_constant == a0.in_constexpr_of_constant, only_ids_change(a0.containers@, a1.containers@),
	ensures inv(a1),
{
	let c0 = a0.containers@; let c1 = a1.containers@;
	if a1.in_constexpr_of_constant is Some {
		lemma_has_container_kept(c0, c1, a0.in_constexpr_of_constant->0.resolution_id);
		assert forall|i: int, j: int| 0 <= i < a1.variable_stack@.len() && 0 <= j < a1.variable_stack@[i]@.len()
			implies has_container(c1, (#[trigger] a1.variable_stack@[i]@[j]).resolution_id) by {
			assert(stkv(a1)[i] == stkv(a0)[i]);
			assert(a1.variable_stack@[i]@[j] == a0.variable_stack@[i]@[j]);
			lemma_has_container_kept(c0, c1, a0.variable_stack@[i]@[j].resolution_id);
		}
	}
	assert forall|j: int| 0 <= j < layer0(stkv(a1)).len() implies has_container(c1, (#[trigger] layer0(stkv(a1))[j]).resolution_id) by {
		assert(layer0(stkv(a1))[j] == layer0(stkv(a0))[j]);
		lemma_has_container_kept(c0, c1, layer0(stkv(a0))[j].resolution_id);
	}
}
pub proof fn lemma_only_ids_change_trans(c0: Seq<Container>, c1: Seq<Container>, c2: Seq<Container>)
	requires only_ids_change(c0, c1), only_ids_change(c1, c2),
	ensures only_ids_change(c0, c2),
{
	assert forall|i: int| 0 <= i < c0.len() implies (#[trigger] c2[i]).identifier == c0[i].identifier && c2[i].is_structure == c0[i].is_structure && c2[i].depth == c0[i].depth by {
		assert(c1[i].identifier == c0[i].identifier);
	}
}

// ---- what a statement / parameter / member does to the stack ---------------------------------------------------------------------------------
pub open spec fn extended(st0: Stk, st1: Stk, names: Seq<Seq<char>>) -> bool {
	&&& st1.len() == st0.len() && st0.len() >= 1
	&&& forall|i: int| 0 <= i < st0.len() - 1 ==> #[trigger] st1[i] == st0[i]
	&&& st1.last().len() == st0.last().len() + names.len()
	&&& forall|j: int| 0 <= j < st0.last().len() ==> #[trigger] st1.last()[j] == st0.last()[j]
	&&& forall|k: int| 0 <= k < names.len() ==> (#[trigger] st1.last()[st0.last().len() + k]).name@ == names[k]
}
pub proof fn lemma_extended_trans(st0: Stk, st1: Stk, st2: Stk, n1: Seq<Seq<char>>, n2: Seq<Seq<char>>)
	requires extended(st0, st1, n1), extended(st1, st2, n2),
	ensures extended(st0, st2, n1 + n2),
{
	let l0 = st0.last().len() as int;
	assert forall|i: int| 0 <= i < st0.len() - 1 implies #[trigger] st2[i] == st0[i] by { assert(st1[i] == st0[i]); }
	assert forall|j: int| 0 <= j < l0 implies #[trigger] st2.last()[j] == st0.last()[j] by { assert(st1.last()[j] == st0.last()[j]); }
	assert forall|k: int| 0 <= k < (n1 + n2).len() implies (#[trigger] st2.last()[l0 + k]).name@ == (n1 + n2)[k] by {
		if k < n1.len() { assert(st2.last()[l0 + k] == st1.last()[l0 + k]); }
		else { assert(st2.last()[st1.last().len() + (k - n1.len())].name@ == n2[k - n1.len()]); }
	}
}
pub proof fn lemma_extended_same(st0: Stk, st1: Stk)
	requires st0.len() >= 1,
	ensures extended(st0, st1, Seq::empty()) <==> st1 =~~= st0,
{
	if extended(st0, st1, Seq::empty()) {
		assert(st1.last() =~= st0.last());
		assert forall|i: int| 0 <= i < st0.len() implies st1[i] == st0[i] by { if i == st0.len() - 1 { assert(st1[i] == st1.last()); } }
	}
}
// the names a statement declares into the scope it stands in (a declaration as the naked branch of an `if` lands in the enclosing scope)
pub open spec fn names_declared(s: Statement) -> Seq<Seq<char>>
	decreases s
{
	match s {
		Statement::Declaration { name, .. } => seq![name.name@],
		Statement::If { then_branch, else_branch, .. } =>
			names_declared(*then_branch) + (match else_branch { Some(e) => names_declared(*e.branch), None => Seq::empty() }),
		_ => Seq::empty(),
	}
}
pub open spec fn name_of(n: Poisonable<Identifier>) -> Seq<Seq<char>> { match n { Ok(id) => seq![id.name@], Err(_) => Seq::empty() } }

// a goto / label statement has exactly the effect of prepare_to_prune_at_goto / prune_at_label (contracts/u_vars.vc) for its own label
pub open spec fn goto_recorded(a0: Analyzer, a1: Analyzer, label: Identifier, location: Location) -> bool {
	let k = label.resolution_id;
	&&& a1.unresolved_labels@.contains_key(k)
	&&& a1.unresolved_labels@[k].intersection_of_variables@ =~= goto_intersection(a0.unresolved_labels@, k, open_ids(stkv(a0)))
	&&& a1.unresolved_labels@[k].location_of_goto == (if a0.unresolved_labels@.contains_key(k) { a0.unresolved_labels@[k].location_of_goto } else { location })
	&&& forall|k2: u32| k2 != k ==> (#[trigger] a1.unresolved_labels@.contains_key(k2) <==> a0.unresolved_labels@.contains_key(k2))
			&& (a0.unresolved_labels@.contains_key(k2) ==> a1.unresolved_labels@[k2] == a0.unresolved_labels@[k2])
	&&& goto_frame(a0, a1)
}
pub open spec fn label_pruned(a0: Analyzer, a1: Analyzer, label: Identifier) -> bool {
	let k = label.resolution_id;
	&&& a1.unresolved_labels@ =~= a0.unresolved_labels@.remove(k)
	&&& (!(a0.unresolved_labels@.contains_key(k) && a0.variable_stack@.len() > 0) ==> a1.pruned_variables@ =~= a0.pruned_variables@)
	&&& (a0.unresolved_labels@.contains_key(k) && a0.variable_stack@.len() > 0
			==> pruned_at_label(a0.pruned_variables@, a1.pruned_variables@, stkv(a0).last(), a0.unresolved_labels@[k], label))
	&&& label_frame(a0, a1)
}

// ---- trait-level pre / post, per kind of node -------------------------------------------------------------------------------------------
pub open spec fn pre_lookup(a: Analyzer, w: nat) -> bool { inv(a) && fits(a, w) }
pub open spec fn pre_local(a: Analyzer, w: nat, min_layers: int) -> bool {
	inv(a) && fits(a, w) && a.in_constexpr_of_constant is None && a.variable_stack@.len() >= min_layers
}
pub open spec fn post_local(a0: Analyzer, a1: Analyzer, w: nat, names: Seq<Seq<char>>) -> bool {
	&&& inv(a1)
	&&& a1.in_constexpr_of_constant is None
	&&& a1.resolution_id as int <= a0.resolution_id + w
	&&& only_ids_change(a0.containers@, a1.containers@)
	&&& extended(stkv(a0), stkv(a1), names)
}
pub open spec fn post_s(s: Statement, a0: Analyzer, a1: Analyzer) -> bool {
	&&& post_local(a0, a1, ids_s(s), names_declared(s))
	&&& (s is Goto ==> goto_recorded(a0, a1, s->Goto_label, s->Goto_location))
	&&& (s is Label ==> label_pruned(a0, a1, s->Label_label))
}
pub open spec fn pre_d(d: Declaration, a: Analyzer) -> bool {
	&&& pre_local(a, ids_d(d), 1)
	&&& (d is Constant ==> a.variable_stack@.len() == 1 && has_container(a.containers@, d->Constant_name.resolution_id)
			&& (d->Constant_value_type is Ok ==> named_by_value(d->Constant_value_type->Ok_0)))
	&&& (d is Structure ==> has_container(a.containers@, d->Structure_name.resolution_id)
			&& forall|k: int| 0 <= k < d->Structure_members@.len() && (#[trigger] d->Structure_members@[k]).value_type is Ok ==> named_by_value(d->Structure_members@[k].value_type->Ok_0))
}
// a local declaration (stack of at least two layers: the innermost is not the constant layer) keeps the invariant
pub proof fn lemma_inv_local_declaration(a0: Analyzer, a1: Analyzer, names: Seq<Seq<char>>)
	requires inv(a0), a0.in_constexpr_of_constant is None, a1.in_constexpr_of_constant is None, a0.variable_stack@.len() >= 2,
		extended(stkv(a0), stkv(a1), names), only_ids_change(a0.containers@, a1.containers@),
	ensures inv(a1),
{
	assert forall|j: int| 0 <= j < layer0(stkv(a1)).len() implies has_container(a1.containers@, (#[trigger] layer0(stkv(a1))[j]).resolution_id) by {
		assert(stkv(a1)[0] == stkv(a0)[0]);
		assert(layer0(stkv(a1))[j] == layer0(stkv(a0))[j]);
		lemma_has_container_kept(a0.containers@, a1.containers@, layer0(stkv(a0))[j].resolution_id);
	}
}
// ---- the invariant across the Analyzer methods the walk calls (broadcast: used through `broadcast use` in the walk's function bodies) ----
pub broadcast proof fn lemma_inv_same_names(a0: Analyzer, a1: Analyzer)
	requires inv(a0), #[trigger] same_names(a0, a1),
	ensures inv(a1),
{
	assert(stkv(a1) =~~= stkv(a0));
	lemma_inv_kept(a0, a1);
}
// push_scope / pop_scope / create_anonymous_resolution_id: a fresh empty layer, one layer less, or the same layers
pub broadcast proof fn lemma_inv_scopes(a0: Analyzer, a1: Analyzer)
	requires inv(a0), #[trigger] tables_kept(a0, a1),
		stkv(a1) =~~= stkv(a0).push(Seq::empty()) || (stkv(a0).len() > 0 && stkv(a1) =~~= stkv(a0).drop_last()) || stkv(a1) =~~= stkv(a0),
	ensures inv(a1),
{
	let c = a0.containers@;
	if a1.in_constexpr_of_constant is Some {
		assert forall|i: int, j: int| 0 <= i < a1.variable_stack@.len() && 0 <= j < a1.variable_stack@[i]@.len()
			implies has_container(c, (#[trigger] a1.variable_stack@[i]@[j]).resolution_id) by {
			assert(a1.variable_stack@[i]@ == stkv(a1)[i]);
			if i < stkv(a0).len() { assert(stkv(a1)[i] == stkv(a0)[i]); assert(a1.variable_stack@[i]@[j] == a0.variable_stack@[i]@[j]); }
		}
	}
	assert forall|j: int| 0 <= j < layer0(stkv(a1)).len() implies has_container(c, (#[trigger] layer0(stkv(a1))[j]).resolution_id) by {
		if stkv(a0).len() > 0 && stkv(a1).len() > 0 { assert(stkv(a1)[0] == stkv(a0)[0]); assert(layer0(stkv(a1))[j] == layer0(stkv(a0))[j]); }
	}
}
// declare_variable / declare_parameter / declare_member below the constant layer
pub broadcast proof fn lemma_inv_declared(a0: Analyzer, a1: Analyzer, id: Identifier)
	requires inv(a0), a0.in_constexpr_of_constant is None, a0.variable_stack@.len() >= 2,
		#[trigger] tables_kept(a0, a1), stkv(a1) =~~= (#[trigger] push_inner(stkv(a0), id)),
	ensures inv(a1), extended(stkv(a0), stkv(a1), seq![id.name@]),
{
	let st0 = stkv(a0); let st1 = stkv(a1);
	assert(st1.last() =~= st0.last().push(id));
	assert(extended(st0, st1, seq![id.name@]));
	lemma_inv_local_declaration(a0, a1, seq![id.name@]);
}

// Declaration::Constant: entering / leaving the initialiser of a predeclared constant while only the constant layer is open
pub proof fn lemma_inv_enter_constant(a0: Analyzer, a1: Analyzer)
	requires inv(a0), a0.in_constexpr_of_constant is None, a0.variable_stack@.len() == 1, a1.in_constexpr_of_constant is Some,
		has_container(a0.containers@, a1.in_constexpr_of_constant->0.resolution_id),
		a1.variable_stack == a0.variable_stack, a1.containers == a0.containers,
	ensures inv(a1),
{
	assert forall|i: int, j: int| 0 <= i < a1.variable_stack@.len() && 0 <= j < a1.variable_stack@[i]@.len()
		implies has_container(a1.containers@, (#[trigger] a1.variable_stack@[i]@[j]).resolution_id) by {
		assert(layer0(stkv(a0))[j] == a0.variable_stack@[0]@[j]);
	}
	assert(stkv(a1) =~~= stkv(a0));
}
pub proof fn lemma_inv_leave_constant(a0: Analyzer, a1: Analyzer)
	requires inv(a0), a1.in_constexpr_of_constant is None, stkv(a1) =~~= stkv(a0), only_ids_change(a0.containers@, a1.containers@),
	ensures inv(a1),
{
	assert forall|j: int| 0 <= j < layer0(stkv(a1)).len() implies has_container(a1.containers@, (#[trigger] layer0(stkv(a1))[j]).resolution_id) by {
		assert(layer0(stkv(a1))[j] == layer0(stkv(a0))[j]);
		lemma_has_container_kept(a0.containers@, a1.containers@, layer0(stkv(a0))[j].resolution_id);
	}
}

// ---- found_container: which dependencies a TYPE records (C11) --------------------------------------------------------------------------
// The identifiers a type mentions BY VALUE, in the order in which found_container hands them to found_container_1 (innermost
// element type first): the structure / word itself; the element type of an array of any flavour - sized, named length, endless,
// array-like AND, as the code stands, the array view `[]T` (Slice) and the pointer to an array view `&[]T` (SlicePointer) -;
// the constant that names an array length.  Nothing behind a pointer `&T` or a structure view `(T)`; nothing for primitives.
pub open spec fn by_value(t: ValueType) -> Seq<Identifier>
	decreases t
{
	match t {
		ValueType::Array { element_type, .. } => by_value(*element_type),
		ValueType::ArrayWithNamedLength { element_type, named_length } => by_value(*element_type).push(named_length),
		ValueType::Slice { element_type } => by_value(*element_type),
		ValueType::SlicePointer { element_type } => by_value(*element_type),
		ValueType::EndlessArray { element_type } => by_value(*element_type),
		ValueType::Arraylike { element_type } => by_value(*element_type),
		ValueType::Struct { identifier } => seq![identifier],
		ValueType::Word { identifier, .. } => seq![identifier],
		ValueType::UnresolvedStructOrWord { identifier: Some(identifier) } => seq![identifier],
		_ => Seq::empty(),
	}
}
// a type the resolver has not left a hole in, by value (`UnresolvedStructOrWord { identifier: None }` is unreachable!() in found_container)
pub open spec fn named_by_value(t: ValueType) -> bool
	decreases t
{
	match t {
		ValueType::Array { element_type, .. } => named_by_value(*element_type),
		ValueType::ArrayWithNamedLength { element_type, .. } => named_by_value(*element_type),
		ValueType::Slice { element_type } => named_by_value(*element_type),
		ValueType::SlicePointer { element_type } => named_by_value(*element_type),
		ValueType::EndlessArray { element_type } => named_by_value(*element_type),
		ValueType::Arraylike { element_type } => named_by_value(*element_type),
		ValueType::UnresolvedStructOrWord { identifier: None } => false,
		_ => true,
	}
}
pub open spec fn all_predeclared(cs: Seq<Container>, ids: Seq<Identifier>) -> bool {
	forall|k: int| 0 <= k < ids.len() ==> has_container(cs, (#[trigger] ids[k]).resolution_id)
}
pub open spec fn same_ids(a0: Analyzer, a1: Analyzer) -> bool {
	forall|i: int| 0 <= i < a0.containers@.len() ==> ids_of(#[trigger] a1.containers@[i]) == ids_of(a0.containers@[i])
}
// the dependencies container -> ids[0], ids[1], .. are recorded one after the other, each exactly as found_container_1 records one
// (edge_recorded, spec/u_scope_spec.rs), up to the first that is rejected (cycle: E413 / E415 / E416, or silent poison); ok: none was
pub open spec fn recorded_all(a0: Analyzer, container: Identifier, member: Option<Identifier>, ids: Seq<Identifier>, ok: bool, a1: Analyzer) -> bool
	decreases ids.len()
{
	if ids.len() == 0 { ok && same_ids(a0, a1) } else {
		(!ok && recorded_all(a0, container, member, ids.drop_last(), false, a1))
		|| exists|am: Analyzer, rl: Poisonable<Identifier>| recorded_all(a0, container, member, ids.drop_last(), true, am) && same_names(a0, am)
			&& #[trigger] edge_recorded(am, container, member, ids.last(), rl, a1) && (rl is Ok) == ok
	}
}
pub proof fn lemma_recorded_one(a0: Analyzer, container: Identifier, member: Option<Identifier>, id: Identifier, rl: Poisonable<Identifier>, a1: Analyzer)
	requires edge_recorded(a0, container, member, id, rl, a1),
	ensures recorded_all(a0, container, member, seq![id], rl is Ok, a1),
{
	let ids = seq![id];
	assert(ids.drop_last() =~= Seq::<Identifier>::empty());
	assert(recorded_all(a0, container, member, ids.drop_last(), true, a0));
	assert(only_ids_change(a0.containers@, a0.containers@));
	assert(same_names(a0, a0));
	assert(ids.last() == id);
}
pub proof fn lemma_recorded_next(a0: Analyzer, container: Identifier, member: Option<Identifier>, ids: Seq<Identifier>, id: Identifier, am: Analyzer, rl: Poisonable<Identifier>, a1: Analyzer)
	requires recorded_all(a0, container, member, ids, true, am), same_names(a0, am), edge_recorded(am, container, member, id, rl, a1),
	ensures recorded_all(a0, container, member, ids.push(id), rl is Ok, a1),
{
	assert(ids.push(id).drop_last() =~= ids);
	assert(ids.push(id).last() == id);
}
pub proof fn lemma_recorded_failed_earlier(a0: Analyzer, container: Identifier, member: Option<Identifier>, ids: Seq<Identifier>, id: Identifier, a1: Analyzer)
	requires recorded_all(a0, container, member, ids, false, a1),
	ensures recorded_all(a0, container, member, ids.push(id), false, a1),
{
	assert(ids.push(id).drop_last() =~= ids);
}
pub proof fn lemma_same_names_trans(a0: Analyzer, a1: Analyzer, a2: Analyzer)
	requires same_names(a0, a1), same_names(a1, a2),
	ensures same_names(a0, a2),
{
	lemma_only_ids_change_trans(a0.containers@, a1.containers@, a2.containers@);
}
pub proof fn lemma_all_predeclared_kept(c0: Seq<Container>, c1: Seq<Container>, ids: Seq<Identifier>)
	requires only_ids_change(c0, c1), all_predeclared(c0, ids),
	ensures all_predeclared(c1, ids),
{
	assert forall|k: int| 0 <= k < ids.len() implies has_container(c1, (#[trigger] ids[k]).resolution_id) by { lemma_has_container_kept(c0, c1, ids[k].resolution_id); }
}
pub open spec fn type_of(c: Poisonable<ValueType>) -> ValueType { c->Ok_0 }

// what resolving a type (analyze_type: use_struct / use_constant) establishes for the wellfoundedness check that follows
pub open spec fn type_resolved(t0: Poisonable<ValueType>, r: Poisonable<ValueType>, a1: Analyzer) -> bool {
	r is Ok ==> t0 is Ok && all_predeclared(a1.containers@, by_value(r->Ok_0)) && (named_by_value(t0->Ok_0) ==> named_by_value(r->Ok_0))
}
pub proof fn lemma_resolved_has_container(c0: Seq<Container>, c1: Seq<Container>, structure: bool, name: Seq<char>)
	requires lookup(ns(c0, structure), name) is Some, only_ids_change(c0, c1),
	ensures has_container(c1, lookup(ns(c0, structure), name)->0.resolution_id),
{
	lemma_lookup_is_first(ns(c0, structure), name);
	let x = lookup(ns(c0, structure), name)->0;
	let j = choose|j: int| first_named(ns(c0, structure), name, j) && ns(c0, structure)[j] == x;
	lemma_ns_member(c0, structure, j);
	lemma_has_container_kept(c0, c1, x.resolution_id);
}
pub proof fn lemma_constant_has_container(a: Analyzer, name: Seq<char>)
	requires constants_are_containers(a), lookup(layer0(stkv(a)), name) is Some,
	ensures has_container(a.containers@, lookup(layer0(stkv(a)), name)->0.resolution_id),
{
	lemma_lookup_is_first(layer0(stkv(a)), name);
	let x = lookup(layer0(stkv(a)), name)->0;
	let j = choose|j: int| first_named(layer0(stkv(a)), name, j) && layer0(stkv(a))[j] == x;
	assert(has_container(a.containers@, layer0(stkv(a))[j].resolution_id));
}

// ---- the top level: analyze(program) ----------------------------------------------------------------------------------------------------
// a declaration whose types can go through the wellfoundedness check (the parser leaves no nameless structure type by value)
pub open spec fn types_named(d: Declaration) -> bool {
	&&& (d is Constant && d->Constant_value_type is Ok ==> named_by_value(d->Constant_value_type->Ok_0))
	&&& (d is Structure ==> forall|k: int| 0 <= k < d->Structure_members@.len() && (#[trigger] d->Structure_members@[k]).value_type is Ok
			==> named_by_value(d->Structure_members@[k].value_type->Ok_0))
}
// a predeclared declaration: its own container exists
pub open spec fn decl_ready(d: Declaration, cs: Seq<Container>) -> bool {
	&&& types_named(d)
	&&& (d is Constant ==> has_container(cs, d->Constant_name.resolution_id))
	&&& (d is Structure ==> has_container(cs, d->Structure_name.resolution_id))
}
pub open spec fn ids_p(p: Seq<Declaration>, k: int) -> nat
	decreases p.len() - k
{
	if 0 <= k < p.len() { ids_d(p[k]) + ids_p(p, k + 1) } else { 0 }
}
// one id for the start value, one per predeclared name, and what the walk of every declaration consumes
pub open spec fn program_fits(p: Seq<Declaration>) -> bool { 1 + p.len() + ids_p(p, 0) <= u32::MAX }
pub proof fn lemma_ids_p_le(p: Seq<Declaration>, q: Seq<Declaration>, k: int)
	requires p.len() == q.len(), 0 <= k, forall|j: int| 0 <= j < p.len() ==> ids_d(#[trigger] q[j]) <= ids_d(p[j]),
	ensures ids_p(q, k) <= ids_p(p, k),
	decreases p.len() - k
{
	if k < p.len() { lemma_ids_p_le(p, q, k + 1); }
}
pub proof fn lemma_has_container_appended(c0: Seq<Container>, c1: Seq<Container>, structure: bool, new: Identifier, rid: u32)
	requires appended(c0, c1, structure, new),
	ensures has_container(c0, rid) ==> has_container(c1, rid), has_container(c1, new.resolution_id),
{
	if has_container(c0, rid) {
		let i = choose|i: int| 0 <= i < c0.len() && (#[trigger] c0[i]).identifier.resolution_id == rid;
		assert(c1[i] == c0[i]);
	}
	assert(c1[c0.len() as int].identifier.resolution_id == new.resolution_id);
}
// predeclaration of d out of state a0 into a1 with result r: r is ready, earlier results stay ready, r costs the walk no more than d
pub proof fn lemma_predeclared_ready(r: Declaration, d: Declaration, a0: Analyzer, a1: Analyzer, e: Declaration)
	requires predeclared(r, d, a0), predeclare_effect(d, a0, a1), types_named(d),
	ensures decl_ready(r, a1.containers@), ids_d(r) <= ids_d(d), decl_ready(e, a0.containers@) ==> decl_ready(e, a1.containers@),
		a1.containers@.len() <= a0.containers@.len() + 1,
{
	let rid = a0.resolution_id;
	match d {
		Declaration::Constant { name, .. } => {
			lemma_has_container_appended(a0.containers@, a1.containers@, false, declared_as(name, rid), declared_as(name, rid).resolution_id);
			if e is Constant { lemma_has_container_appended(a0.containers@, a1.containers@, false, declared_as(name, rid), e->Constant_name.resolution_id); }
			if e is Structure { lemma_has_container_appended(a0.containers@, a1.containers@, false, declared_as(name, rid), e->Structure_name.resolution_id); }
		},
		Declaration::Structure { name, .. } => {
			lemma_has_container_appended(a0.containers@, a1.containers@, true, declared_as(name, rid), declared_as(name, rid).resolution_id);
			if e is Constant { lemma_has_container_appended(a0.containers@, a1.containers@, true, declared_as(name, rid), e->Constant_name.resolution_id); }
			if e is Structure { lemma_has_container_appended(a0.containers@, a1.containers@, true, declared_as(name, rid), e->Structure_name.resolution_id); }
		},
		_ => {},
	}
}
pub proof fn lemma_decl_ready_kept(d: Declaration, c0: Seq<Container>, c1: Seq<Container>)
	requires decl_ready(d, c0), only_ids_change(c0, c1),
	ensures decl_ready(d, c1),
{
	if d is Constant { lemma_has_container_kept(c0, c1, d->Constant_name.resolution_id); }
	if d is Structure { lemma_has_container_kept(c0, c1, d->Structure_name.resolution_id); }
}
// obtain_container_depth / postanalyze: the depth stored in the FIRST container with the declaration's resolution id
pub open spec fn depth_found(cs: Seq<Container>, rid: u32, r: Option<Poisonable<u32>>) -> bool {
	(exists|j: int| #![trigger cs[j]] first_id(cs, rid, j) && r == cs[j].depth) || (!has_container(cs, rid) && r is None)
}
pub open spec fn postanalysed(r: Declaration, d: Declaration, cs: Seq<Container>) -> bool {
	match d {
		Declaration::Constant { name, value, value_type, flags, depth, location_of_declaration, location_of_type } =>
			exists|x: Option<Poisonable<u32>>| #[trigger] depth_found(cs, name.resolution_id, x)
				&& r == (Declaration::Constant { name, value, value_type, flags, depth: x, location_of_declaration, location_of_type }),
		Declaration::Structure { name, members, structural_type, flags, depth, location_of_declaration } =>
			exists|x: Option<Poisonable<u32>>| #[trigger] depth_found(cs, name.resolution_id, x)
				&& r == (Declaration::Structure { name, members, structural_type, flags, depth: x, location_of_declaration }),
		_ => r == d,
	}
}
