// ---------------------------------------------------------------------------------------------
// U-VT ghost specification (hand-written, ghost only).  Oracles are phrased from the property
// statements (C07: no implicit conversions apart from the documented array/struct-to-view/slice
// coercions; C11: type legality; C09: literal ranges), not as copies of the function bodies.
// ---------------------------------------------------------------------------------------------

// trusted: derived Clone of the recursive enum is the identity (Verus reports a spurious cycle on the derive)
impl<I: Identifier> Clone for ValueType<I> {
	#[verifier::external_body]
	fn clone(&self) -> (r: Self) ensures r == *self { unimplemented!() }
}

// ASSUMPTION on the identifier type parameter: its `==` is structural equality (true for String and &'static str).
pub open spec fn id_eq<I: Identifier>() -> bool {
	I::obeys_eq_spec() && forall|a: I, b: I| #[trigger] a.eq_spec(&b) == (a == b)
}

// trusted: `#[derive(PartialEq)]` on ValueType is structural equality whenever the identifiers' `==` is
impl<I: Identifier> vstd::std_specs::cmp::PartialEqSpecImpl for ValueType<I> {
	open spec fn obeys_eq_spec() -> bool { id_eq::<I>() }
	open spec fn eq_spec(&self, o: &Self) -> bool { *self == *o }
}

pub open spec fn is_ptrlike<I: Identifier>(t: ValueType<I>) -> bool { t is Pointer || t is View }

pub open spec fn has_elem<I: Identifier>(t: ValueType<I>) -> bool {
	t is Array || t is ArrayWithNamedLength || t is Slice || t is SlicePointer || t is EndlessArray || t is Arraylike
}

pub open spec fn elem<I: Identifier>(t: ValueType<I>) -> ValueType<I> {
	match t {
		ValueType::Array { element_type, .. } => *element_type,
		ValueType::ArrayWithNamedLength { element_type, .. } => *element_type,
		ValueType::Slice { element_type } => *element_type,
		ValueType::SlicePointer { element_type } => *element_type,
		ValueType::EndlessArray { element_type } => *element_type,
		ValueType::Arraylike { element_type } => *element_type,
		_ => t,
	}
}

pub open spec fn deref<I: Identifier>(t: ValueType<I>) -> ValueType<I> {
	match t {
		ValueType::Pointer { deref_type } => *deref_type,
		ValueType::View { deref_type } => *deref_type,
		_ => t,
	}
}

pub open spec fn is_leaf<I: Identifier>(t: ValueType<I>) -> bool { !has_elem(t) && !is_ptrlike(t) }

// norm: the type with the alias char8 ~ u8 resolved (Char8 rewritten to Uint8 everywhere).
pub open spec fn norm<I: Identifier>(t: ValueType<I>) -> ValueType<I>
	decreases t
{
	match t {
		ValueType::Char8 => ValueType::Uint8,
		ValueType::Array { element_type, length } => ValueType::Array { element_type: Box::new(norm(*element_type)), length },
		ValueType::ArrayWithNamedLength { element_type, named_length } => ValueType::ArrayWithNamedLength { element_type: Box::new(norm(*element_type)), named_length },
		ValueType::Slice { element_type } => ValueType::Slice { element_type: Box::new(norm(*element_type)) },
		ValueType::SlicePointer { element_type } => ValueType::SlicePointer { element_type: Box::new(norm(*element_type)) },
		ValueType::EndlessArray { element_type } => ValueType::EndlessArray { element_type: Box::new(norm(*element_type)) },
		ValueType::Arraylike { element_type } => ValueType::Arraylike { element_type: Box::new(norm(*element_type)) },
		ValueType::Pointer { deref_type } => ValueType::Pointer { deref_type: Box::new(norm(*deref_type)) },
		ValueType::View { deref_type } => ValueType::View { deref_type: Box::new(norm(*deref_type)) },
		_ => t,
	}
}

// "identical type" of the property statement: identical up to the single documented alias
pub open spec fn same_type<I: Identifier>(a: ValueType<I>, b: ValueType<I>) -> bool { norm(a) == norm(b) }

// The documented coercions (docs/features.md: arrays and structs are passed as views; arrays and slices
// decay to slices / views of endless arrays; slice pointers to pointers to endless arrays).
pub open spec fn is_view_of_endless<I: Identifier>(b: ValueType<I>, e: ValueType<I>) -> bool {
	b is View && deref(b) is EndlessArray && same_type(e, elem(deref(b)))
}
pub open spec fn is_ptr_to_endless<I: Identifier>(b: ValueType<I>, e: ValueType<I>) -> bool {
	b is Pointer && deref(b) is EndlessArray && same_type(e, elem(deref(b)))
}
pub open spec fn coercion<I: Identifier>(a: ValueType<I>, b: ValueType<I>) -> bool {
	||| ((a is Array || a is ArrayWithNamedLength) && b is Slice && same_type(elem(a), elem(b)))
	||| ((a is Array || a is ArrayWithNamedLength || a is Slice) && is_view_of_endless(b, elem(a)))
	||| (a is SlicePointer && is_ptr_to_endless(b, elem(a)))
	||| (a is Struct && b is View && deref(b) == a)
}
pub open spec fn address_coercion<I: Identifier>(a: ValueType<I>, b: ValueType<I>) -> bool {
	(a is Array || a is ArrayWithNamedLength)
	&& ((b is SlicePointer && same_type(elem(a), elem(b))) || is_ptr_to_endless(b, elem(a)))
}

// what autoderef may do: strip pointer/view layers, never change the pointee's own type
pub open spec fn strip<I: Identifier>(t: ValueType<I>) -> ValueType<I>
	decreases t
{
	match t {
		ValueType::Pointer { deref_type } => strip(*deref_type),
		ValueType::View { deref_type } => strip(*deref_type),
		_ => t,
	}
}
// the "core" of a type: pointer/view layers stripped, array forms identified, alias resolved
pub open spec fn core_of<I: Identifier>(t: ValueType<I>) -> ValueType<I> {
	let s = strip(t);
	if has_elem(s) { ValueType::Arraylike { element_type: Box::new(norm(elem(s))) } } else { norm(s) }
}

pub open spec fn subauto<I: Identifier>(a: ValueType<I>, b: ValueType<I>) -> bool
	decreases a
{
	match a {
		ValueType::View { deref_type } => same_type(*deref_type, b) || subauto(*deref_type, b) || (b is View && subauto(*deref_type, deref(b))),
		ValueType::Pointer { deref_type } => same_type(*deref_type, b) || subauto(*deref_type, b) || (b is Pointer && subauto(*deref_type, deref(b))),
		_ => false,
	}
}
pub open spec fn autoderef<I: Identifier>(a: ValueType<I>, b: ValueType<I>) -> bool {
	match a {
		ValueType::View { deref_type } => same_type(a, b) || same_type(*deref_type, b) || subauto(*deref_type, b) || (b is View && subauto(*deref_type, deref(b))),
		ValueType::Pointer { deref_type } => same_type(a, b) || same_type(*deref_type, b) || address_coercion(*deref_type, b)
			|| subauto(*deref_type, b) || (b is Pointer && subauto(*deref_type, deref(b))),
		_ => if has_elem(a) && !(a is Arraylike) || a is Struct { same_type(a, b) || coercion(a, b) } else { false },
	}
}

pub open spec fn pdepth<I: Identifier>(t: ValueType<I>) -> nat
	decreases t
{
	match t {
		ValueType::Pointer { deref_type } => 1 + pdepth(*deref_type),
		ValueType::SlicePointer { .. } => 1,
		_ => 0,
	}
}

// ---- C11: shapes that E350-E359 forbid
pub open spec fn elem_ok<I: Identifier>(t: ValueType<I>) -> bool {
	!(t is Void || t is Slice || t is SlicePointer || t is EndlessArray || t is View)
}
pub open spec fn wf<I: Identifier>(t: ValueType<I>) -> bool
	decreases t, 1int
{
	if has_elem(t) { elem_ok(elem(t)) && wf_inner(elem(t)) }
	else if is_ptrlike(t) { wf_inner(deref(t)) }
	else { true }
}
// below a pointer/view/array: no Void, Slice, SlicePointer, View
pub open spec fn wf_inner<I: Identifier>(t: ValueType<I>) -> bool
	decreases t, 0int
{
	if t is Void || t is Slice || t is SlicePointer || t is View { false }
	else if has_elem(t) { elem_ok(elem(t)) && wf_inner(elem(t)) }
	else if t is Pointer { wf_inner(deref(t)) }
	else { true }
}

pub open spec fn bits<I: Identifier>(t: ValueType<I>) -> nat {
	match t {
		ValueType::Int8 | ValueType::Uint8 | ValueType::Char8 => 8,
		ValueType::Int16 | ValueType::Uint16 => 16,
		ValueType::Int32 | ValueType::Uint32 => 32,
		ValueType::Int64 | ValueType::Uint64 | ValueType::Usize | ValueType::Pointer { .. } | ValueType::View { .. } => 64,
		ValueType::Int128 | ValueType::Uint128 => 128,
		_ => 0,
	}
}
pub open spec fn signed<I: Identifier>(t: ValueType<I>) -> bool {
	t is Int8 || t is Int16 || t is Int32 || t is Int64 || t is Int128
}
pub open spec fn unsigned_fixed<I: Identifier>(t: ValueType<I>) -> bool {
	t is Uint8 || t is Uint16 || t is Uint32 || t is Uint64 || t is Uint128
}
pub open spec fn pow2(n: nat) -> int decreases n { if n == 0 { 1 } else { 2 * pow2((n - 1) as nat) } }

proof fn lemma_pow2_values()
	ensures pow2(7) == 0x80, pow2(8) == 0x100, pow2(15) == 0x8000, pow2(16) == 0x10000, pow2(31) == 0x8000_0000, pow2(32) == 0x1_0000_0000,
		pow2(63) == 0x8000_0000_0000_0000, pow2(64) == 0x1_0000_0000_0000_0000,
		pow2(127) == 0x8000_0000_0000_0000_0000_0000_0000_0000, pow2(128) == 0x1_0000_0000_0000_0000_0000_0000_0000_0000,
{
	reveal_with_fuel(pow2, 33);
	assert(pow2(32) == 0x1_0000_0000);
	lemma_pow2_add(32, 31); lemma_pow2_add(32, 32); lemma_pow2_add(64, 63); lemma_pow2_add(64, 64);
	assert(pow2(63) == 0x1_0000_0000 * 0x8000_0000);
	assert(pow2(64) == 0x1_0000_0000 * 0x1_0000_0000);
	assert(pow2(127) == 0x1_0000_0000_0000_0000 * 0x8000_0000_0000_0000) by { assert(pow2(127) == pow2(64) * pow2(63)); }
	assert(pow2(128) == 0x1_0000_0000_0000_0000 * 0x1_0000_0000_0000_0000) by { assert(pow2(128) == pow2(64) * pow2(64)); }
}
proof fn lemma_pow2_add(a: nat, b: nat)
	ensures pow2(a + b) == pow2(a) * pow2(b)
	decreases b
{
	if b == 0 { } else {
		lemma_pow2_add(a, (b - 1) as nat);
		assert(pow2(a + b) == 2 * pow2((a + b - 1) as nat));
		assert(2 * (pow2(a) * pow2((b - 1) as nat)) == pow2(a) * (2 * pow2((b - 1) as nat))) by (nonlinear_arith);
	}
}

// ---- lemmas: consequences that the property statements name -------------------------------

// equals is an equivalence (follows from the characterisation same_type)
proof fn lemma_same_type_equiv<I: Identifier>(a: ValueType<I>, b: ValueType<I>, c: ValueType<I>)
	ensures same_type(a, a), same_type(a, b) ==> same_type(b, a), same_type(a, b) && same_type(b, c) ==> same_type(a, c)
{ }

proof fn lemma_norm_shape<I: Identifier>(t: ValueType<I>)
	ensures has_elem(norm(t)) == has_elem(t), is_ptrlike(norm(t)) == is_ptrlike(t),
		has_elem(t) ==> elem(norm(t)) == norm(elem(t)),
		is_ptrlike(t) ==> deref(norm(t)) == norm(deref(t)),
		norm(t) is Pointer == t is Pointer, norm(t) is View == t is View,
		norm(t) is Struct == t is Struct, t is Struct ==> norm(t) == t,
{ }

proof fn lemma_norm_idem<I: Identifier>(t: ValueType<I>)
	ensures norm(norm(t)) == norm(t)
	decreases t
{
	if has_elem(t) { lemma_norm_idem(elem(t)); }
	if is_ptrlike(t) { lemma_norm_idem(deref(t)); }
}

proof fn lemma_strip_norm<I: Identifier>(t: ValueType<I>)
	ensures strip(norm(t)) == norm(strip(t))
	decreases t
{
	if is_ptrlike(t) { lemma_strip_norm(deref(t)); }
}

proof fn lemma_core_same_type<I: Identifier>(a: ValueType<I>, b: ValueType<I>)
	requires same_type(a, b)
	ensures core_of(a) == core_of(b)
{
	lemma_strip_norm(a); lemma_strip_norm(b);
	lemma_norm_shape(strip(a)); lemma_norm_shape(strip(b));
	lemma_norm_idem(elem(strip(a))); lemma_norm_idem(elem(strip(b)));
	assert(norm(strip(a)) == norm(strip(b)));
}

proof fn lemma_subauto_core<I: Identifier>(a: ValueType<I>, b: ValueType<I>)
	requires subauto(a, b)
	ensures core_of(a) == core_of(b)
	decreases a
{
	let d = deref(a);
	if same_type(d, b) { lemma_core_same_type(d, b); }
	else if subauto(d, b) { lemma_subauto_core(d, b); }
	else { lemma_subauto_core(d, deref(b)); }
}

proof fn lemma_coercion_core<I: Identifier>(a: ValueType<I>, b: ValueType<I>)
	requires coercion(a, b) || address_coercion(a, b)
	ensures core_of(a) == core_of(b)
{
	reveal_with_fuel(strip, 3);
}

// C07 kernel theorem: whatever autoderef/coercion accepts, the underlying element/primitive type is unchanged:
// only pointer/view layers are stripped or added and array forms exchanged - never int<->int, bool<->int, ...
proof fn theorem_autoderef_preserves_core<I: Identifier>(a: ValueType<I>, b: ValueType<I>)
	requires autoderef(a, b)
	ensures core_of(a) == core_of(b)
{
	if same_type(a, b) { lemma_core_same_type(a, b); }
	else if is_ptrlike(a) {
		let d = deref(a);
		if same_type(d, b) { lemma_core_same_type(d, b); }
		else if a is Pointer && address_coercion(d, b) { lemma_coercion_core(d, b); }
		else if subauto(d, b) { lemma_subauto_core(d, b); }
		else { lemma_subauto_core(d, deref(b)); }
	} else { lemma_coercion_core(a, b); }
}

// C11: a legal type never has the forbidden shapes
proof fn lemma_wf_shapes<I: Identifier>(t: ValueType<I>)
	requires wf(t)
	ensures has_elem(t) ==> elem_ok(elem(t)),
		is_ptrlike(t) ==> !(deref(t) is Void || deref(t) is Slice || deref(t) is SlicePointer || deref(t) is View),
{ }
