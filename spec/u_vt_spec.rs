// ---------------------------------------------------------------------------------------------
// U-VT ghost specification (hand-written, ghost only).  Oracles are phrased from the property
// statements (C07: no implicit conversions apart from the documented array/struct-to-view/slice
// coercions; C11: type legality; C09: literal ranges), not as copies of the function bodies.
// ---------------------------------------------------------------------------------------------

// trusted: derived Clone of the recursive enum is the identity (Verus reports a spurious cycle on the derive)
impl<I: Identifier> Clone for ValueType<I> {
	#[verifier::external_body]
	fn clone(&self) -> (r: Self) ensures r == *self { unimplemented!() }
}

// ASSUMPTION on the identifier type parameter: its exec `==` computes its spec relation `eq_spec`
// (true of any deterministic `eq`; the real instantiation is alpha::common::Identifier, whose `==`
// compares resolution ids / locations and is NOT structural - so identifiers are compared through
// eq_spec everywhere below, never through spec `==`).
pub open spec fn id_eq<I: Identifier>() -> bool { I::obeys_eq_spec() }
// needed only by the lemmas that chain equalities (listed as an assumption in the evidence)
pub open spec fn id_equiv<I: Identifier>() -> bool {
	&&& forall|a: I| #[trigger] a.eq_spec(&a)
	&&& forall|a: I, b: I| #[trigger] a.eq_spec(&b) ==> b.eq_spec(&a)
	&&& forall|a: I, b: I, c: I| #[trigger] a.eq_spec(&b) && #[trigger] b.eq_spec(&c) ==> a.eq_spec(&c)
}
pub open spec fn oeq<I: Identifier>(a: Option<I>, b: Option<I>) -> bool {
	match (a, b) { (None, None) => true, (Some(x), Some(y)) => x.eq_spec(&y), _ => false }
}
// teq: what `#[derive(PartialEq)]` computes on ValueType: same shape, identifiers related by their own `==`
pub open spec fn teq<I: Identifier>(a: ValueType<I>, b: ValueType<I>) -> bool
	decreases a
{
	match a {
		ValueType::Array { element_type, length } => b is Array && length == b->Array_length && teq(*element_type, *b->Array_element_type),
		ValueType::ArrayWithNamedLength { element_type, named_length } => b is ArrayWithNamedLength
			&& named_length.eq_spec(&b->ArrayWithNamedLength_named_length) && teq(*element_type, *b->ArrayWithNamedLength_element_type),
		ValueType::Slice { element_type } => b is Slice && teq(*element_type, *b->Slice_element_type),
		ValueType::SlicePointer { element_type } => b is SlicePointer && teq(*element_type, *b->SlicePointer_element_type),
		ValueType::EndlessArray { element_type } => b is EndlessArray && teq(*element_type, *b->EndlessArray_element_type),
		ValueType::Arraylike { element_type } => b is Arraylike && teq(*element_type, *b->Arraylike_element_type),
		ValueType::Struct { identifier } => b is Struct && identifier.eq_spec(&b->Struct_identifier),
		ValueType::Word { identifier, size_in_bytes } => b is Word && identifier.eq_spec(&b->Word_identifier) && size_in_bytes == b->Word_size_in_bytes,
		ValueType::UnresolvedStructOrWord { identifier } => b is UnresolvedStructOrWord && oeq(identifier, b->UnresolvedStructOrWord_identifier),
		ValueType::Pointer { deref_type } => b is Pointer && teq(*deref_type, *b->Pointer_deref_type),
		ValueType::View { deref_type } => b is View && teq(*deref_type, *b->View_deref_type),
		_ => a == b,
	}
}

// trusted: `#[derive(PartialEq)]` on ValueType computes teq whenever the identifiers' `==` obeys its spec
impl<I: Identifier> vstd::std_specs::cmp::PartialEqSpecImpl for ValueType<I> {
	open spec fn obeys_eq_spec() -> bool { id_eq::<I>() }
	open spec fn eq_spec(&self, o: &Self) -> bool { teq(*self, *o) }
}

pub open spec fn is_ptrlike<I: Identifier>(t: ValueType<I>) -> bool { t is Pointer || t is View }

pub open spec fn has_elem<I: Identifier>(t: ValueType<I>) -> bool {
	t is Array || t is ArrayWithNamedLength || t is Slice || t is SlicePointer || t is EndlessArray || t is Arraylike
}

pub open spec fn elem<I: Identifier>(t: ValueType<I>) -> ValueType<I> {
	match t {
		ValueType::Array { element_type, .. } => *element_type,
		ValueType::ArrayWithNamedLength { element_type, .. } => *element_type,
		ValueType::Slice { element_type } => *element_type,
		ValueType::SlicePointer { element_type } => *element_type,
		ValueType::EndlessArray { element_type } => *element_type,
		ValueType::Arraylike { element_type } => *element_type,
		_ => t,
	}
}

pub open spec fn deref<I: Identifier>(t: ValueType<I>) -> ValueType<I> {
	match t {
		ValueType::Pointer { deref_type } => *deref_type,
		ValueType::View { deref_type } => *deref_type,
		_ => t,
	}
}

pub open spec fn is_leaf<I: Identifier>(t: ValueType<I>) -> bool { !has_elem(t) && !is_ptrlike(t) }

// norm: the type with the alias char8 ~ u8 resolved (Char8 rewritten to Uint8 everywhere).
pub open spec fn norm<I: Identifier>(t: ValueType<I>) -> ValueType<I>
	decreases t
{
	match t {
		ValueType::Char8 => ValueType::Uint8,
		ValueType::Array { element_type, length } => ValueType::Array { element_type: Box::new(norm(*element_type)), length },
		ValueType::ArrayWithNamedLength { element_type, named_length } => ValueType::ArrayWithNamedLength { element_type: Box::new(norm(*element_type)), named_length },
		ValueType::Slice { element_type } => ValueType::Slice { element_type: Box::new(norm(*element_type)) },
		ValueType::SlicePointer { element_type } => ValueType::SlicePointer { element_type: Box::new(norm(*element_type)) },
		ValueType::EndlessArray { element_type } => ValueType::EndlessArray { element_type: Box::new(norm(*element_type)) },
		ValueType::Arraylike { element_type } => ValueType::Arraylike { element_type: Box::new(norm(*element_type)) },
		ValueType::Pointer { deref_type } => ValueType::Pointer { deref_type: Box::new(norm(*deref_type)) },
		ValueType::View { deref_type } => ValueType::View { deref_type: Box::new(norm(*deref_type)) },
		_ => t,
	}
}

// "identical type" of the property statement: identical up to the single documented alias
pub open spec fn same_type<I: Identifier>(a: ValueType<I>, b: ValueType<I>) -> bool { teq(norm(a), norm(b)) }

// The documented coercions (docs/features.md: arrays and structs are passed as views; arrays and slices
// decay to slices / views of endless arrays; slice pointers to pointers to endless arrays).
pub open spec fn is_view_of_endless<I: Identifier>(b: ValueType<I>, e: ValueType<I>) -> bool {
	b is View && deref(b) is EndlessArray && same_type(e, elem(deref(b)))
}
pub open spec fn is_ptr_to_endless<I: Identifier>(b: ValueType<I>, e: ValueType<I>) -> bool {
	b is Pointer && deref(b) is EndlessArray && same_type(e, elem(deref(b)))
}
pub open spec fn coercion<I: Identifier>(a: ValueType<I>, b: ValueType<I>) -> bool {
	||| ((a is Array || a is ArrayWithNamedLength) && b is Slice && same_type(elem(a), elem(b)))
	||| ((a is Array || a is ArrayWithNamedLength || a is Slice) && is_view_of_endless(b, elem(a)))
	||| (a is SlicePointer && is_ptr_to_endless(b, elem(a)))
	||| (a is Struct && b is View && teq(deref(b), a))
}
pub open spec fn address_coercion<I: Identifier>(a: ValueType<I>, b: ValueType<I>) -> bool {
	(a is Array || a is ArrayWithNamedLength)
	&& ((b is SlicePointer && same_type(elem(a), elem(b))) || is_ptr_to_endless(b, elem(a)))
}

// what autoderef may do: strip pointer/view layers, never change the pointee's own type
pub open spec fn strip<I: Identifier>(t: ValueType<I>) -> ValueType<I>
	decreases t
{
	match t {
		ValueType::Pointer { deref_type } => strip(*deref_type),
		ValueType::View { deref_type } => strip(*deref_type),
		_ => t,
	}
}
// the "core" of a type: pointer/view layers stripped, array forms identified, alias resolved
pub open spec fn core_of<I: Identifier>(t: ValueType<I>) -> ValueType<I> {
	let s = strip(t);
	if has_elem(s) { ValueType::Arraylike { element_type: Box::new(norm(elem(s))) } } else { norm(s) }
}

pub open spec fn subauto<I: Identifier>(a: ValueType<I>, b: ValueType<I>) -> bool
	decreases a
{
	match a {
		ValueType::View { deref_type } => same_type(*deref_type, b) || subauto(*deref_type, b) || (b is View && subauto(*deref_type, deref(b))),
		ValueType::Pointer { deref_type } => same_type(*deref_type, b) || subauto(*deref_type, b) || (b is Pointer && subauto(*deref_type, deref(b))),
		_ => false,
	}
}
pub open spec fn autoderef<I: Identifier>(a: ValueType<I>, b: ValueType<I>) -> bool {
	match a {
		ValueType::View { deref_type } => same_type(a, b) || same_type(*deref_type, b) || subauto(*deref_type, b) || (b is View && subauto(*deref_type, deref(b))),
		ValueType::Pointer { deref_type } => same_type(a, b) || same_type(*deref_type, b) || address_coercion(*deref_type, b)
			|| subauto(*deref_type, b) || (b is Pointer && subauto(*deref_type, deref(b))),
		_ => if has_elem(a) && !(a is Arraylike) || a is Struct { same_type(a, b) || coercion(a, b) } else { false },
	}
}

pub open spec fn pdepth<I: Identifier>(t: ValueType<I>) -> nat
	decreases t
{
	match t {
		ValueType::Pointer { deref_type } => 1 + pdepth(*deref_type),
		ValueType::SlicePointer { .. } => 1,
		_ => 0,
	}
}

// ---- C11: shapes that E350-E359 forbid
pub open spec fn elem_ok<I: Identifier>(t: ValueType<I>) -> bool {
	!(t is Void || t is Slice || t is SlicePointer || t is EndlessArray || t is View)
}
pub open spec fn wf<I: Identifier>(t: ValueType<I>) -> bool
	decreases t, 1int
{
	if has_elem(t) { elem_ok(elem(t)) && wf_inner(elem(t)) }
	else if is_ptrlike(t) { wf_inner(deref(t)) }
	else { true }
}
// below a pointer/view/array: no Void, Slice, SlicePointer, View
pub open spec fn wf_inner<I: Identifier>(t: ValueType<I>) -> bool
	decreases t, 0int
{
	if t is Void || t is Slice || t is SlicePointer || t is View { false }
	else if has_elem(t) { elem_ok(elem(t)) && wf_inner(elem(t)) }
	else if t is Pointer { wf_inner(deref(t)) }
	else { true }
}

pub open spec fn bits<I: Identifier>(t: ValueType<I>) -> nat {
	match t {
		ValueType::Int8 | ValueType::Uint8 | ValueType::Char8 => 8,
		ValueType::Int16 | ValueType::Uint16 => 16,
		ValueType::Int32 | ValueType::Uint32 => 32,
		ValueType::Int64 | ValueType::Uint64 | ValueType::Usize | ValueType::Pointer { .. } | ValueType::View { .. } => 64,
		ValueType::Int128 | ValueType::Uint128 => 128,
		_ => 0,
	}
}
pub open spec fn signed<I: Identifier>(t: ValueType<I>) -> bool {
	t is Int8 || t is Int16 || t is Int32 || t is Int64 || t is Int128
}
pub open spec fn unsigned_fixed<I: Identifier>(t: ValueType<I>) -> bool {
	t is Uint8 || t is Uint16 || t is Uint32 || t is Uint64 || t is Uint128
}
pub open spec fn pow2(n: nat) -> int decreases n { if n == 0 { 1 } else { 2 * pow2((n - 1) as nat) } }

proof fn lemma_pow2_values()
	ensures pow2(7) == 0x80, pow2(8) == 0x100, pow2(15) == 0x8000, pow2(16) == 0x10000, pow2(31) == 0x8000_0000, pow2(32) == 0x1_0000_0000,
		pow2(63) == 0x8000_0000_0000_0000, pow2(64) == 0x1_0000_0000_0000_0000,
		pow2(127) == 0x8000_0000_0000_0000_0000_0000_0000_0000, pow2(128) == 0x1_0000_0000_0000_0000_0000_0000_0000_0000,
{
	reveal_with_fuel(pow2, 33);
	assert(pow2(32) == 0x1_0000_0000);
	lemma_pow2_add(32, 31); lemma_pow2_add(32, 32); lemma_pow2_add(64, 63); lemma_pow2_add(64, 64);
	assert(pow2(63) == 0x1_0000_0000 * 0x8000_0000);
	assert(pow2(64) == 0x1_0000_0000 * 0x1_0000_0000);
	assert(pow2(127) == 0x1_0000_0000_0000_0000 * 0x8000_0000_0000_0000) by { assert(pow2(127) == pow2(64) * pow2(63)); }
	assert(pow2(128) == 0x1_0000_0000_0000_0000 * 0x1_0000_0000_0000_0000) by { assert(pow2(128) == pow2(64) * pow2(64)); }
}
proof fn lemma_pow2_add(a: nat, b: nat)
	ensures pow2(a + b) == pow2(a) * pow2(b)
	decreases b
{
	if b == 0 { } else {
		lemma_pow2_add(a, (b - 1) as nat);
		assert(pow2(a + b) == 2 * pow2((a + b - 1) as nat));
		assert(2 * (pow2(a) * pow2((b - 1) as nat)) == pow2(a) * (2 * pow2((b - 1) as nat))) by (nonlinear_arith);
	}
}

// ---- lemmas: consequences that the property statements name -------------------------------

proof fn lemma_teq_refl<I: Identifier>(a: ValueType<I>)
	requires id_equiv::<I>()
	ensures teq(a, a)
	decreases a
{
	if has_elem(a) { lemma_teq_refl(elem(a)); }
	if is_ptrlike(a) { lemma_teq_refl(deref(a)); }
}
proof fn lemma_teq_sym<I: Identifier>(a: ValueType<I>, b: ValueType<I>)
	requires id_equiv::<I>(), teq(a, b)
	ensures teq(b, a)
	decreases a
{
	if has_elem(a) { lemma_teq_sym(elem(a), elem(b)); }
	if is_ptrlike(a) { lemma_teq_sym(deref(a), deref(b)); }
}
proof fn lemma_teq_trans<I: Identifier>(a: ValueType<I>, b: ValueType<I>, c: ValueType<I>)
	requires id_equiv::<I>(), teq(a, b), teq(b, c)
	ensures teq(a, c)
	decreases a
{
	if has_elem(a) { lemma_teq_trans(elem(a), elem(b), elem(c)); }
	if is_ptrlike(a) { lemma_teq_trans(deref(a), deref(b), deref(c)); }
}

// equals (== same_type) is an equivalence relation when identifier equality is one
proof fn lemma_same_type_equiv<I: Identifier>(a: ValueType<I>, b: ValueType<I>, c: ValueType<I>)
	requires id_equiv::<I>()
	ensures same_type(a, a), same_type(a, b) ==> same_type(b, a), same_type(a, b) && same_type(b, c) ==> same_type(a, c)
{
	lemma_teq_refl(norm(a));
	if same_type(a, b) { lemma_teq_sym(norm(a), norm(b)); }
	if same_type(a, b) && same_type(b, c) { lemma_teq_trans(norm(a), norm(b), norm(c)); }
}

proof fn lemma_norm_shape<I: Identifier>(t: ValueType<I>)
	ensures has_elem(norm(t)) == has_elem(t), is_ptrlike(norm(t)) == is_ptrlike(t),
		has_elem(t) ==> elem(norm(t)) == norm(elem(t)),
		is_ptrlike(t) ==> deref(norm(t)) == norm(deref(t)),
		norm(t) is Pointer == t is Pointer, norm(t) is View == t is View,
		norm(t) is Struct == t is Struct, t is Struct ==> norm(t) == t,
{ }

proof fn lemma_strip_norm<I: Identifier>(t: ValueType<I>)
	ensures strip(norm(t)) == norm(strip(t))
	decreases t
{
	if is_ptrlike(t) { lemma_strip_norm(deref(t)); }
}

proof fn lemma_strip_teq<I: Identifier>(a: ValueType<I>, b: ValueType<I>)
	requires teq(a, b)
	ensures teq(strip(a), strip(b))
	decreases a
{
	if is_ptrlike(a) { lemma_strip_teq(deref(a), deref(b)); }
}

pub open spec fn same_core<I: Identifier>(a: ValueType<I>, b: ValueType<I>) -> bool { teq(core_of(a), core_of(b)) }

proof fn lemma_core_same_type<I: Identifier>(a: ValueType<I>, b: ValueType<I>)
	requires same_type(a, b)
	ensures same_core(a, b)
{
	lemma_strip_norm(a); lemma_strip_norm(b);
	lemma_strip_teq(norm(a), norm(b));
	lemma_norm_shape(strip(a)); lemma_norm_shape(strip(b));
	assert(teq(norm(strip(a)), norm(strip(b))));
}

proof fn lemma_subauto_core<I: Identifier>(a: ValueType<I>, b: ValueType<I>)
	requires subauto(a, b)
	ensures same_core(a, b)
	decreases a
{
	let d = deref(a);
	if same_type(d, b) { lemma_core_same_type(d, b); }
	else if subauto(d, b) { lemma_subauto_core(d, b); }
	else { lemma_subauto_core(d, deref(b)); }
}

proof fn lemma_coercion_core<I: Identifier>(a: ValueType<I>, b: ValueType<I>)
	requires id_equiv::<I>(), coercion(a, b) || address_coercion(a, b)
	ensures same_core(a, b)
{
	reveal_with_fuel(strip, 3);
	if a is Struct && b is View && teq(deref(b), a) { lemma_teq_sym(deref(b), a); }
}

// C07 kernel theorem: whatever autoderef/coercion accepts, the underlying element/primitive type is unchanged:
// only pointer/view layers are stripped or added and array forms exchanged - never int<->int, bool<->int, ...
proof fn theorem_autoderef_preserves_core<I: Identifier>(a: ValueType<I>, b: ValueType<I>)
	requires id_equiv::<I>(), autoderef(a, b)
	ensures same_core(a, b)
{
	if same_type(a, b) { lemma_core_same_type(a, b); }
	else if is_ptrlike(a) {
		let d = deref(a);
		if same_type(d, b) { lemma_core_same_type(d, b); }
		else if a is Pointer && address_coercion(d, b) { lemma_coercion_core(d, b); }
		else if subauto(d, b) { lemma_subauto_core(d, b); }
		else { lemma_subauto_core(d, deref(b)); }
	} else { lemma_coercion_core(a, b); }
}

// C11: a legal type never has the forbidden shapes
proof fn lemma_wf_shapes<I: Identifier>(t: ValueType<I>)
	requires wf(t)
	ensures has_elem(t) ==> elem_ok(elem(t)),
		is_ptrlike(t) ==> !(deref(t) is Void || deref(t) is Slice || deref(t) is SlicePointer || deref(t) is View),
{ }

// ---- unification relations used by the typer (C07: they must never relate two different primitive types) ----
// like(a, b): b is a with array forms along the element spine generalised to "some array-like"; otherwise EXACTLY equal
// (derived equality teq - in particular NOT modulo the char8/u8 alias)
pub open spec fn like<I: Identifier>(a: ValueType<I>, b: ValueType<I>) -> bool
	decreases a
{
	if (a is Array || a is ArrayWithNamedLength || a is EndlessArray) && b is Arraylike { like(elem(a), elem(b)) } else { teq(a, b) }
}
pub open spec fn declared_as<I: Identifier>(a: ValueType<I>, b: ValueType<I>) -> bool {
	if (a is Array || a is ArrayWithNamedLength || a is Slice) && b is Arraylike { teq(elem(a), elem(b)) }
	else if a is SlicePointer && b is Pointer { deref(b) is Arraylike && teq(elem(a), elem(deref(b))) }
	else { teq(a, b) }
}
pub open spec fn concretizes<I: Identifier>(a: ValueType<I>, b: ValueType<I>) -> bool
	decreases a
{
	match a {
		ValueType::Array { element_type, length } =>
			if b is Array { length == b->Array_length && concretizes(*element_type, elem(b)) } else { like(a, b) },
		ValueType::ArrayWithNamedLength { element_type, named_length } =>
			if b is ArrayWithNamedLength { named_length.eq_spec(&b->ArrayWithNamedLength_named_length) && concretizes(*element_type, elem(b)) } else { like(a, b) },
		ValueType::Slice { element_type } =>
			if b is Slice { concretizes(*element_type, elem(b)) } else if b is Arraylike { like(*element_type, elem(b)) } else { teq(a, b) },
		ValueType::SlicePointer { element_type } =>
			if b is SlicePointer { concretizes(*element_type, elem(b)) }
			else if b is Arraylike { like(*element_type, elem(b)) }
			else if b is Pointer { if deref(b) is Arraylike { like(*element_type, elem(deref(b))) } else { teq(a, b) } }
			else { teq(a, b) },
		ValueType::EndlessArray { element_type } =>
			if b is EndlessArray { concretizes(*element_type, elem(b)) } else { like(a, b) },
		ValueType::Arraylike { element_type } =>
			if b is Arraylike { concretizes(*element_type, elem(b)) } else { teq(a, b) },
		ValueType::Struct { identifier } =>
			if b is UnresolvedStructOrWord { b->UnresolvedStructOrWord_identifier is None || identifier.eq_spec(&b->UnresolvedStructOrWord_identifier->0) } else { teq(a, b) },
		ValueType::Word { identifier, .. } =>
			if b is UnresolvedStructOrWord { b->UnresolvedStructOrWord_identifier is None || identifier.eq_spec(&b->UnresolvedStructOrWord_identifier->0) } else { teq(a, b) },
		ValueType::View { deref_type } => if b is View { concretizes(*deref_type, deref(b)) } else { teq(a, b) },
		ValueType::Pointer { deref_type } => if b is Pointer { concretizes(*deref_type, deref(b)) } else { teq(a, b) },
		_ => teq(a, b),
	}
}
// the unification relations never identify two different leaf (primitive / nominal) types - no char8/u8 aliasing here
proof fn lemma_like_leaf_exact<I: Identifier>(a: ValueType<I>, b: ValueType<I>)
	requires like(a, b), is_leaf(a) || is_ptrlike(a)
	ensures teq(a, b)
{ }
