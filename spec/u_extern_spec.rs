// ---------------------------------------------------------------------------------------------
// U-EXTERN ghost specification (hand-written, ghost only): the C11 oracle for E358
// "non-ABI types in `extern` signatures are always rejected".
//
// docs/features.md, "Interoperability with C": "Only array views, pointers and the primitive types `i8`, `i16`, `i32`,
// `i64`, `u8`, `u16`, `u32`, `u64` and `usize` are allowed in the signature of an `extern` function.  Array views in
// `extern` functions correspond to (const) pointers in C, do not have a length".   docs/errors.md E358: `u128` is the
// example of a rejected type; tests/samples/invalid/non_abi_in_extern.pn: `bool` and `u128`.
// `char8` is the documented alias of `u8` (U-VT: C07.vt.single_alias) and the vendored C headers
// (vendor/libc/string.pn: `extern fn strlen(str: []char8)`) rely on it, so it counts as the ABI primitive `u8`.
//
//   abi_prim(t)      t is one of the ABI primitives (fixed-width integers of at most 64 bits, usize, char8)
//   abi_ok(t)        t may be written in an `extern` signature: an ABI primitive, or an array view `[]T`
//                    (`Arraylike` as written by the programmer), pointer `&T` or view `(T)` of such a type - at
//                    EVERY depth; nothing else (no bool, i128/u128, struct, word, sized array, slice, void)
//   externalized(t)  t with every `[]T` (`Arraylike`) turned into the length-less C array `EndlessArray`
//   offender(t)      the innermost type that decides: what is left after peeling array views, pointers and views
// ---------------------------------------------------------------------------------------------
pub open spec fn abi_prim(t: ValueType) -> bool {
	((value_type::signed(t) || value_type::unsigned_fixed(t)) && value_type::bits(t) <= 64) || t is Usize || t is Char8
}

pub open spec fn abi_ok(t: ValueType) -> bool
	decreases t
{
	if t is Arraylike { abi_ok(value_type::elem(t)) }
	else if t is Pointer || t is View { abi_ok(value_type::deref(t)) }
	else { abi_prim(t) }
}

pub open spec fn externalized(t: ValueType) -> ValueType
	decreases t
{
	match t {
		ValueType::Arraylike { element_type } => ValueType::EndlessArray { element_type: Box::new(externalized(*element_type)) },
		ValueType::Array { element_type, length } => ValueType::Array { element_type: Box::new(externalized(*element_type)), length },
		ValueType::ArrayWithNamedLength { element_type, named_length } =>
			ValueType::ArrayWithNamedLength { element_type: Box::new(externalized(*element_type)), named_length },
		ValueType::Slice { element_type } => ValueType::Slice { element_type: Box::new(externalized(*element_type)) },
		ValueType::SlicePointer { element_type } => ValueType::SlicePointer { element_type: Box::new(externalized(*element_type)) },
		ValueType::EndlessArray { element_type } => ValueType::EndlessArray { element_type: Box::new(externalized(*element_type)) },
		ValueType::Pointer { deref_type } => ValueType::Pointer { deref_type: Box::new(externalized(*deref_type)) },
		ValueType::View { deref_type } => ValueType::View { deref_type: Box::new(externalized(*deref_type)) },
		_ => t,
	}
}

pub open spec fn offender(t: ValueType) -> ValueType
	decreases t
{
	if t is Arraylike { offender(value_type::elem(t)) }
	else if t is Pointer || t is View { offender(value_type::deref(t)) }
	else { t }
}

// the E358 diagnostic for `t`: names the offending innermost type and both locations
pub open spec fn is_e358(e: Error, t: ValueType, location_of_type: Location, location_of_declaration: Location) -> bool {
	&&& e is TypeNotAllowedInExtern
	&&& e->TypeNotAllowedInExtern_value_type == offender(t)
	&&& e->TypeNotAllowedInExtern_location_of_type == location_of_type
	&&& e->TypeNotAllowedInExtern_location_of_declaration == location_of_declaration
}

pub open spec fn is_external(flags: EnumSet<DeclarationFlag>) -> bool { flags@.contains(DeclarationFlag::External) }

// what a declaration position of an `extern` item holds for a written type `t`: an array parameter `[]T` is passed as
// an array VIEW (docs: "Array views in extern functions correspond to (const) pointers in C")
pub open spec fn extern_position_type(t: ValueType) -> ValueType {
	if t is Arraylike {
		ValueType::View { deref_type: Box::new(ValueType::EndlessArray { element_type: Box::new(externalized(value_type::elem(t))) }) }
	} else { externalized(t) }
}

// non-`extern` items (docs/features.md: arrays are passed as slices, `&[]T` is a slice pointer, structures are passed
// as views when they are parameters or return values); never an E358
pub open spec fn plain_position_type(t: ValueType, context: FixContext) -> ValueType {
	if t is Arraylike { ValueType::Slice { element_type: t->Arraylike_element_type } }
	else if t is Struct && (context is Parameter || context is Returned) { ValueType::View { deref_type: Box::new(t) } }
	else if t is Pointer && value_type::deref(t) is Arraylike { ValueType::SlicePointer { element_type: value_type::deref(t)->Arraylike_element_type } }
	else { t }
}

// ---- consequences that the property statement names ------------------------------------------

// wellformedness is inherited by what externalize_type recurses into
pub proof fn lemma_wf_child(t: ValueType)
	requires value_type::wf(t)
	ensures t is Arraylike ==> value_type::wf(value_type::elem(t)),
		(t is Pointer || t is View) ==> value_type::wf(value_type::deref(t)),
{ }

// the shape of an accepted type after externalisation: length-less arrays, pointers and views around an ABI primitive
pub open spec fn c_abi_shape(t: ValueType) -> bool
	decreases t
{
	if t is EndlessArray { c_abi_shape(value_type::elem(t)) }
	else if t is Pointer || t is View { c_abi_shape(value_type::deref(t)) }
	else { abi_prim(t) }
}

// C11/E358 theorem: whatever is accepted in an `extern` signature is, after externalisation, built ONLY from C arrays,
// pointers, views and ABI primitives - at every depth (in particular no bool / i128 / u128 / struct / word below
// any number of pointers and array views)
pub proof fn theorem_accepted_is_c_abi(t: ValueType)
	requires abi_ok(t)
	ensures c_abi_shape(externalized(t)), c_abi_shape(extern_position_type(t))
	decreases t
{
	if t is Arraylike {
		theorem_accepted_is_c_abi(value_type::elem(t));
		let inner = ValueType::EndlessArray { element_type: Box::new(externalized(value_type::elem(t))) };
		assert(c_abi_shape(inner));
		assert(value_type::deref(extern_position_type(t)) == inner);
	}
	else if t is Pointer || t is View { theorem_accepted_is_c_abi(value_type::deref(t)); }
}

// ... and what is rejected is rejected because of a type that is itself not allowed and is not a wrapper
pub proof fn theorem_offender_decides(t: ValueType)
	ensures abi_ok(t) == abi_prim(offender(t)),
		!(offender(t) is Arraylike || offender(t) is Pointer || offender(t) is View),
	decreases t
{
	if t is Arraylike { theorem_offender_decides(value_type::elem(t)); }
	else if t is Pointer || t is View { theorem_offender_decides(value_type::deref(t)); }
}

// the named negative cases of the property / docs / tests
pub proof fn lemma_rejected_examples(t: ValueType)
	ensures (t is Bool || t is Int128 || t is Uint128 || t is Struct || t is Word || t is Array || t is Slice || t is Void) ==> !abi_ok(t),
		(t is Pointer && (value_type::deref(t) is Bool || value_type::deref(t) is Uint128)) ==> !abi_ok(t),
{
	if t is Pointer { assert(abi_ok(t) == abi_ok(value_type::deref(t))); }
}

// ---- wellformedness of the externalised type (what the callers' `assert!(vt.is_wellformed())` rely on) ----------
// FINDING (reported, reproduced on the real pipeline): externalisation does NOT preserve wellformedness.  An array view of
// array views `[][]T` is wellformed (an `Arraylike` may be an element) but becomes `EndlessArray{EndlessArray{T}}`, and an
// `EndlessArray` cannot be an element.  `extern fn foo(x: [][]i32);` then panics in typer.rs (`assert!(vt.is_wellformed())`
// after `can_be_parameter()` is false) instead of being rejected.  What IS proved below: this is the only way.
pub open spec fn has_array_view_of_array_views(t: ValueType) -> bool
	decreases t
{
	if t is Arraylike { value_type::elem(t) is Arraylike || has_array_view_of_array_views(value_type::elem(t)) }
	else if t is Pointer || t is View { has_array_view_of_array_views(value_type::deref(t)) }
	else { false }
}

pub proof fn lemma_externalized_wf_inner(t: ValueType)
	requires value_type::wf_inner(t), abi_ok(t), !has_array_view_of_array_views(t)
	ensures value_type::wf_inner(externalized(t)),
		!(t is Arraylike) ==> value_type::elem_ok(externalized(t)),
	decreases t
{
	if t is Arraylike { lemma_externalized_wf_inner(value_type::elem(t)); }
	else if t is Pointer { lemma_externalized_wf_inner(value_type::deref(t)); }
}

pub proof fn lemma_externalized_wf(t: ValueType)
	requires value_type::wf(t), abi_ok(t), !has_array_view_of_array_views(t)
	ensures value_type::wf(externalized(t)), value_type::wf(extern_position_type(t))
{
	if t is Arraylike {
		lemma_externalized_wf_inner(value_type::elem(t));
		let inner = ValueType::EndlessArray { element_type: Box::new(externalized(value_type::elem(t))) };
		assert(value_type::wf_inner(inner));
		assert(value_type::deref(extern_position_type(t)) == inner);
	}
	else if t is Pointer || t is View { lemma_externalized_wf_inner(value_type::deref(t)); }
}

// the machine-checked witness of the finding: wellformed, accepted, and externalised into a type that is not wellformed
pub proof fn witness_array_view_of_array_views_loses_wellformedness()
	ensures ({
		let t: ValueType = ValueType::Arraylike { element_type: Box::new(ValueType::Arraylike { element_type: Box::new(ValueType::Int32) }) };
		value_type::wf(t) && abi_ok(t) && !value_type::wf(externalized(t)) && !value_type::wf(extern_position_type(t))
	})
{
	reveal_with_fuel(value_type::wf_inner, 3);
	reveal_with_fuel(abi_ok, 3);
	reveal_with_fuel(externalized, 3);
	let e: ValueType = ValueType::Arraylike { element_type: Box::new(ValueType::Int32) };
	let t: ValueType = ValueType::Arraylike { element_type: Box::new(e) };
	assert(value_type::elem(t) == e);
	assert(value_type::elem(e) == ValueType::Int32);
	assert(value_type::wf_inner(e));
	assert(abi_ok(e));
	assert(abi_ok(t));
	let xe = externalized(e);
	assert(xe == ValueType::EndlessArray { element_type: Box::new(ValueType::Int32) });
	let xt = externalized(t);
	assert(xt == ValueType::EndlessArray { element_type: Box::new(xe) });
	assert(value_type::elem(xt) == xe);
	assert(!value_type::elem_ok(xe));
	assert(!value_type::wf(xt));
	assert(value_type::deref(extern_position_type(t)) == xt);
	assert(!value_type::wf_inner(xt));
}
