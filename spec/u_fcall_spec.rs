// ---------------------------------------------------------------------------------------------
// U-FCALL ghost specification (hand-written, ghost only): the oracles of C08 (copy rule) and C07 (call checks),
// written from the property statements.
//
// C08  "whole arrays, views and structs cannot be copied by assignment (E531-E533)"; mechanism: "no whole-aggregate copies
//      outside call arguments".   A `Deref` expression (a use of a variable, member or element by value) whose recorded type
//      is an array / array view / struct is a whole-aggregate copy UNLESS the expression is the immediate argument of a call
//      (arguments of those types are passed as views, docs/features.md).
//      Context of an expression: imm == "this expression is the immediate argument of a call".
//        - each argument of a function / method call is analysed with imm = true;
//        - parentheses, automatic coercions and casts denote the same object: they hand imm on to their operand;
//        - every other position (operands, array elements, members of a structural literal, index expressions, initialisers,
//          assigned values, compared values, return values) is imm = false.
//      The analyzer keeps imm in `Analyzer::is_immediate_function_argument`; ok_e(r, e, imm, ..) relates the analysed
//      expression r to the original e.
// C07  "argument/parameter pair ... have the identical type; argument count": call_verdict.
// ---------------------------------------------------------------------------------------------
pub type Fns = Map<u32, Function>;

// ---- the recorded type and the location of an expression (accessors: one projection per variant)
pub open spec fn etype(e: Expression) -> Option<Poisonable<ValueType>>
	decreases e
{
	match e {
		Expression::Binary { left, .. } => etype(*left),
		Expression::Unary { expression, .. } => etype(*expression),
		Expression::BooleanLiteral { .. } => Some(Ok(ValueType::Bool)),
		Expression::SignedIntegerLiteral { value_type, .. } => value_type,
		Expression::BitIntegerLiteral { value_type, .. } => value_type,
		Expression::ArrayLiteral { array, element_type } => match element_type {
			Some(Ok(t)) => Some(Ok(ValueType::Array { element_type: Box::new(t), length: array.elements@.len() as usize })),
			Some(Err(_)) => Some(Err(Poison::Poisoned)),
			None => None,
		},
		Expression::StringLiteral { bytes, .. } => Some(Ok(ValueType::Array { element_type: Box::new(ValueType::Char8), length: bytes@.len() as usize })),
		Expression::Structural { structural_type, .. } => Some(structural_type),
		Expression::Parenthesized { inner, .. } => etype(*inner),
		Expression::Deref { deref_type, .. } => deref_type,
		Expression::Autocoerce { coerced_type, .. } => Some(Ok(coerced_type)),
		Expression::BitCast { coerced_type, .. } => coerced_type,
		Expression::TypeCast { coerced_type, .. } => Some(Ok(coerced_type)),
		Expression::LengthOfArray { .. } => Some(Ok(ValueType::Usize)),
		Expression::SizeOf { .. } => Some(Ok(ValueType::Usize)),
		Expression::FunctionCall { return_type, .. } => return_type,
		Expression::Poison(_) => Some(Err(Poison::Poisoned)),
	}
}
// has a location: everything but a poisoned expression (an automatic coercion sits where its operand sits)
pub open spec fn loc_ok(e: Expression) -> bool
	decreases e
{
	match e {
		Expression::Autocoerce { expression, .. } => loc_ok(*expression),
		Expression::Poison(_) => false,
		_ => true,
	}
}
pub open spec fn eloc(e: Expression) -> Location
	decreases e
{
	match e {
		Expression::Binary { location, .. } => location,
		Expression::Unary { location, .. } => location,
		Expression::BooleanLiteral { location, .. } => location,
		Expression::SignedIntegerLiteral { location, .. } => location,
		Expression::BitIntegerLiteral { location, .. } => location,
		Expression::StringLiteral { location, .. } => location,
		Expression::ArrayLiteral { array, .. } => array.location,
		Expression::Structural { location, .. } => location,
		Expression::Parenthesized { location, .. } => location,
		Expression::Deref { reference, .. } => reference.location,
		Expression::Autocoerce { expression, .. } => eloc(*expression),
		Expression::BitCast { location, .. } => location,
		Expression::TypeCast { location, .. } => location,
		Expression::LengthOfArray { location, .. } => location,
		Expression::SizeOf { location, .. } => location,
		Expression::FunctionCall { name, .. } => name.location,
		Expression::Poison(_) => arbitrary(),
	}
}

// ---------------------------------------------------------------------------------------------
// C08: the copy rule
// ---------------------------------------------------------------------------------------------
pub enum Aggregate { Array, ArrayView, Struct }
// arrays (E531), array views = slices in all their forms (E532), structs (E533)
pub open spec fn aggregate(t: ValueType) -> Option<Aggregate> {
	match t {
		ValueType::Array { .. } => Some(Aggregate::Array),
		ValueType::ArrayWithNamedLength { .. } => Some(Aggregate::Array),
		ValueType::EndlessArray { .. } => Some(Aggregate::Array),
		ValueType::Slice { .. } => Some(Aggregate::ArrayView),
		ValueType::SlicePointer { .. } => Some(Aggregate::ArrayView),
		ValueType::Arraylike { .. } => Some(Aggregate::ArrayView),
		ValueType::Struct { .. } => Some(Aggregate::Struct),
		_ => None,
	}
}
pub open spec fn copy_error(k: Aggregate, location: Location) -> Error {
	match k {
		Aggregate::Array => Error::CannotCopyArray { location },
		Aggregate::ArrayView => Error::CannotCopySlice { location },
		Aggregate::Struct => Error::CannotCopyStruct { location },
	}
}
// the type recorded on a `Deref` after analysis: a whole aggregate that is not an immediate call argument is poisoned
// with E531 / E532 / E533 at the location of the reference; everything else (incl. unknown / already poisoned types) is kept
pub open spec fn copy_rule(t: Option<Poisonable<ValueType>>, imm: bool, location: Location) -> Option<Poisonable<ValueType>> {
	match t {
		Some(Ok(vt)) => if aggregate(vt) is Some && !imm { Some(Err(Poison::Error(copy_error(aggregate(vt)->0, location)))) } else { t },
		_ => t,
	}
}

// ---------------------------------------------------------------------------------------------
// C07: argument count and argument types of a call
// ---------------------------------------------------------------------------------------------
// E513 hint "argument is missing `&`" (same text as spec/u_mut_spec.rs): the argument is a plain variable reference whose
// ADDRESS would fit the parameter: the parameter is a pointer to exactly the argument's type, or the address coerces
pub open spec fn hint_missing_address(argument: Expression, argument_type: ValueType, parameter_type: ValueType) -> bool {
	argument is Deref && (
		(parameter_type is Pointer && value_type::teq(*parameter_type->Pointer_deref_type, argument_type))
		|| value_type::address_coercion(argument_type, parameter_type))
}
// argument and parameter both have a known type and the two are not identical (identical = what `==` on ValueType computes:
// same shape, same identifiers; no alias, no coercion: coercions are explicit `Autocoerce` nodes whose type is the target type)
pub open spec fn mismatch(p: Parameter, a: Expression) -> bool {
	p.value_type is Ok && etype(a) is Some && etype(a)->0 is Ok && !(value_type::teq(p.value_type->Ok_0, etype(a)->0->Ok_0))
}
// ... and the parameter itself is not already poisoned by an earlier error (then that error rejects the program)
pub open spec fn blames(p: Parameter, a: Expression) -> bool { mismatch(p, a) && p.name is Ok }
pub open spec fn arg_error(p: Parameter, a: Expression) -> Error {
	let pt = p.value_type->Ok_0;
	let at = etype(a)->0->Ok_0;
	if hint_missing_address(a, at, pt) {
		Error::ArgumentMissingAddress { parameter_name: p.name->Ok_0.name, argument_type: at, parameter_type: pt, location: eloc(a),
			location_of_declaration: p.name->Ok_0.location }
	} else {
		Error::ArgumentTypeMismatch { parameter_name: p.name->Ok_0.name, argument_type: at, parameter_type: pt, location: eloc(a),
			location_of_declaration: p.name->Ok_0.location }
	}
}
// first argument/parameter pair at or after k that is blamed
pub open spec fn first_blame(ps: Seq<Parameter>, args: Seq<Expression>, k: int) -> Option<int>
	decreases ps.len() - k
{
	if k < 0 || k >= ps.len() || k >= args.len() { None } else if blames(ps[k], args[k]) { Some(k) } else { first_blame(ps, args, k + 1) }
}
pub open spec fn user_call_verdict(f: Function, name: Identifier, args: Seq<Expression>) -> Result<(), Error> {
	if args.len() < f.parameters@.len() {
		Err(Error::TooFewArguments { location: name.location, location_of_declaration: f.identifier.location })
	} else if args.len() > f.parameters@.len() {
		Err(Error::TooManyArguments { location: name.location, location_of_declaration: f.identifier.location })
	} else {
		match first_blame(f.parameters@, args, 0) {
			Some(i) => Err(arg_error(f.parameters@[i], args[i])),
			None => Ok(()),
		}
	}
}
// builtins: `abort!` takes no argument, `dbg!` at most one, the others any number (E511 at the call otherwise)
pub open spec fn builtin_max_args(b: Builtin) -> Option<int> {
	match b { Builtin::Abort => Some(0int), Builtin::Dbg => Some(1int), _ => None }
}
pub open spec fn builtin_verdict(name: Identifier, b: Builtin, args: Seq<Expression>) -> Result<(), Error> {
	if builtin_max_args(b) is Some && args.len() > builtin_max_args(b)->0 {
		Err(Error::TooManyArguments { location: name.location, location_of_declaration: name.location })
	} else { Ok(()) }
}
pub open spec fn call_verdict(fns: Fns, name: Identifier, builtin: Option<Builtin>, args: Seq<Expression>) -> Result<(), Error> {
	match builtin {
		Some(b) => builtin_verdict(name, b, args),
		None => user_call_verdict(fns[name.resolution_id], name, args),
	}
}
pub proof fn lemma_first_blame(ps: Seq<Parameter>, args: Seq<Expression>, k: int)
	requires 0 <= k,
	ensures
		match first_blame(ps, args, k) {
			Some(i) => k <= i < ps.len() && i < args.len() && blames(ps[i], args[i]) && forall|j: int| k <= j < i ==> !blames(#[trigger] ps[j], args[j]),
			None => forall|j: int| k <= j < ps.len() && j < args.len() ==> !blames(#[trigger] ps[j], args[j]),
		},
	decreases ps.len() - k
{
	if k >= ps.len() || k >= args.len() { } else if blames(ps[k], args[k]) { } else { lemma_first_blame(ps, args, k + 1); }
}

// ---------------------------------------------------------------------------------------------
// caller obligations (what the earlier stages guarantee about the tree; each is a `requires`, none is assumed silently)
// ---------------------------------------------------------------------------------------------
// `Expression::location` is needed for an argument with a known type: it must not be an automatic coercion of a poisoned expression
pub open spec fn located(a: Expression) -> bool { (etype(a) is Some && etype(a)->0 is Ok) ==> loc_ok(a) }
pub open spec fn call_pre(fns: Fns, name: Identifier, builtin: Option<Builtin>, args: Seq<Expression>) -> bool {
	match builtin {
		Some(b) => !(b is IncludeBytes),
		None => fns.contains_key(name.resolution_id) && forall|i: int| 0 <= i < args.len() ==> located(#[trigger] args[i]),
	}
}
// named array lengths are resolved by the typer (analyze_type): no expression has type ArrayWithNamedLength any more
pub open spec fn named_length_resolved(t: Option<Poisonable<ValueType>>) -> bool {
	match t { Some(Ok(vt)) => !(vt is ArrayWithNamedLength), _ => true }
}
pub open spec fn pre_e(e: Expression, fns: Fns) -> bool
	decreases e, 0int
{
	match e {
		Expression::Binary { left, right, .. } => pre_e(*left, fns) && pre_e(*right, fns),
		Expression::Unary { expression, .. } => pre_e(*expression, fns),
		Expression::ArrayLiteral { array, .. } => pre_a(array, fns),
		Expression::Structural { members, .. } => forall|i: int| 0 <= i < members@.len() ==> pre_e((#[trigger] members@[i]).expression, fns),
		Expression::Parenthesized { inner, .. } => pre_e(*inner, fns),
		Expression::Deref { reference, deref_type } => named_length_resolved(deref_type) && pre_r(reference, fns),
		Expression::Autocoerce { expression, .. } => pre_e(*expression, fns),
		Expression::BitCast { expression, .. } => pre_e(*expression, fns),
		Expression::TypeCast { expression, .. } => pre_e(*expression, fns),
		Expression::LengthOfArray { reference, .. } => pre_r(reference, fns),
		Expression::FunctionCall { name, builtin, arguments, .. } => call_pre(fns, name, builtin, arguments@)
			&& forall|i: int| 0 <= i < arguments@.len() ==> pre_e(#[trigger] arguments@[i], fns),
		_ => true,
	}
}
pub open spec fn pre_a(a: Array, fns: Fns) -> bool
	decreases a, 0int
{
	forall|i: int| 0 <= i < a.elements@.len() ==> pre_e(#[trigger] a.elements@[i], fns)
}
pub open spec fn pre_r(r: Reference, fns: Fns) -> bool
	decreases r, 0int
{
	forall|i: int| 0 <= i < r.steps@.len() ==> pre_step(#[trigger] r.steps@[i], fns)
}
// an index expression is never an automatic coercion (the typer coerces to slices / views only, which are not index types)
pub open spec fn pre_step(s: ReferenceStep, fns: Fns) -> bool
	decreases s, 0int
{
	match s {
		ReferenceStep::Element { argument, .. } => pre_e(*argument, fns) && !(*argument is Autocoerce),
		_ => true,
	}
}
pub open spec fn pre_c(c: Comparison, fns: Fns) -> bool { pre_e(c.left, fns) && pre_e(c.right, fns) }
pub open spec fn pre_s(s: Statement, fns: Fns) -> bool
	decreases s, 0int
{
	match s {
		Statement::Declaration { value, .. } => match value { Some(v) => pre_e(v, fns), None => true },
		Statement::Assignment { reference, value, .. } => pre_r(reference, fns) && pre_e(value, fns),
		Statement::MethodCall { name, builtin, arguments } => call_pre(fns, name, builtin, arguments@)
			&& forall|i: int| 0 <= i < arguments@.len() ==> pre_e(#[trigger] arguments@[i], fns),
		Statement::If { condition, then_branch, else_branch, .. } => pre_c(condition, fns) && pre_s(*then_branch, fns)
			&& match else_branch { Some(e) => pre_s(*e.branch, fns), None => true },
		Statement::Block(b) => pre_b(b, fns),
		_ => true,
	}
}
pub open spec fn pre_b(b: Block, fns: Fns) -> bool
	decreases b, 0int
{
	forall|i: int| 0 <= i < b.statements@.len() ==> pre_s(#[trigger] b.statements@[i], fns)
}
pub open spec fn pre_f(f: FunctionBody, fns: Fns) -> bool {
	(forall|i: int| 0 <= i < f.statements@.len() ==> pre_s(#[trigger] f.statements@[i], fns))
	&& match f.return_value { Some(v) => pre_e(v, fns), None => true }
}
pub open spec fn pre_d(d: Declaration, fns: Fns) -> bool {
	match d { Declaration::Function { body: Ok(body), .. } => pre_f(body, fns), _ => true }
}

// ---------------------------------------------------------------------------------------------
// the oracle: r is the analysed form of e  (imm: e is the immediate argument of a call)
// ---------------------------------------------------------------------------------------------
pub open spec fn ok_e(r: Expression, e: Expression, imm: bool, fns: Fns) -> bool
	decreases e, 0int
{
	match e {
		Expression::Binary { op, left, right, location, location_of_op } =>
			r is Binary && r->Binary_op == op && r->Binary_location == location && r->Binary_location_of_op == location_of_op
			&& ok_e(*r->Binary_left, *left, false, fns) && ok_e(*r->Binary_right, *right, false, fns),
		Expression::Unary { op, expression, location, location_of_op } =>
			r is Unary && r->Unary_op == op && r->Unary_location == location && r->Unary_location_of_op == location_of_op
			&& ok_e(*r->Unary_expression, *expression, false, fns),
		Expression::ArrayLiteral { array, element_type } =>
			r is ArrayLiteral && r->ArrayLiteral_element_type == element_type && ok_a(r->ArrayLiteral_array, array, fns),
		// the members of a structural literal are copied into it: never call arguments
		Expression::Structural { members, structural_type, location } =>
			r is Structural && r->Structural_structural_type == structural_type && r->Structural_location == location
			&& r->Structural_members@.len() == members@.len()
			&& forall|i: int| 0 <= i < members@.len() ==> ok_m(#[trigger] r->Structural_members@[i], members@[i], fns),
		// transparent: parentheses, automatic coercions, casts
		Expression::Parenthesized { inner, location } =>
			r is Parenthesized && r->Parenthesized_location == location && ok_e(*r->Parenthesized_inner, *inner, imm, fns),
		Expression::Autocoerce { expression, coerced_type } =>
			r is Autocoerce && r->Autocoerce_coerced_type == coerced_type && ok_e(*r->Autocoerce_expression, *expression, imm, fns),
		Expression::BitCast { expression, coerced_type, location, location_of_keyword } =>
			r is BitCast && r->BitCast_coerced_type == coerced_type && r->BitCast_location == location && r->BitCast_location_of_keyword == location_of_keyword
			&& ok_e(*r->BitCast_expression, *expression, imm, fns),
		Expression::TypeCast { expression, coerced_type, location, location_of_type } =>
			r is TypeCast && r->TypeCast_coerced_type == coerced_type && r->TypeCast_location == location && r->TypeCast_location_of_type == location_of_type
			&& ok_e(*r->TypeCast_expression, *expression, imm, fns),
		// THE COPY RULE
		Expression::Deref { reference, deref_type } =>
			r is Deref && r->Deref_deref_type == copy_rule(deref_type, imm, reference.location) && ok_r(r->Deref_reference, reference, fns),
		Expression::LengthOfArray { reference, location } =>
			r is LengthOfArray && r->LengthOfArray_location == location && ok_r(r->LengthOfArray_reference, reference, fns),
		// THE CALL RULE: rejected calls become the error, accepted calls keep their shape, every argument is an immediate argument
		Expression::FunctionCall { name, builtin, arguments, return_type } => match call_verdict(fns, name, builtin, arguments@) {
			Err(error) => r == Expression::Poison(Poison::Error(error)),
			Ok(_) => r is FunctionCall && r->FunctionCall_name == name && r->FunctionCall_builtin == builtin && r->FunctionCall_return_type == return_type
				&& r->FunctionCall_arguments@.len() == arguments@.len()
				&& forall|i: int| 0 <= i < arguments@.len() ==> ok_e(#[trigger] r->FunctionCall_arguments@[i], arguments@[i], true, fns),
		},
		_ => r == e,
	}
}
pub open spec fn ok_m(r: MemberExpression, m: MemberExpression, fns: Fns) -> bool
	decreases m, 0int
{
	r.name == m.name && r.offset == m.offset && ok_e(r.expression, m.expression, false, fns)
}
pub open spec fn ok_a(r: Array, a: Array, fns: Fns) -> bool
	decreases a, 0int
{
	r.location == a.location && r.resolution_id == a.resolution_id && r.elements@.len() == a.elements@.len()
	&& forall|i: int| 0 <= i < a.elements@.len() ==> ok_e(#[trigger] r.elements@[i], a.elements@[i], false, fns)
}
pub open spec fn ok_r(r: Reference, e: Reference, fns: Fns) -> bool
	decreases e, 0int
{
	r.base == e.base && r.address_depth == e.address_depth && r.location == e.location && r.location_of_unaddressed == e.location_of_unaddressed
	&& r.steps@.len() == e.steps@.len()
	&& forall|i: int| 0 <= i < e.steps@.len() ==> ok_step(#[trigger] r.steps@[i], e.steps@[i], fns)
}
// C07 (E503): an index has type usize; an index of another known type is replaced by the error
pub open spec fn index_rule(a: Expression) -> Expression {
	match etype(a) {
		Some(Ok(t)) => if t is Usize { a } else {
			Expression::Poison(Poison::Error(Error::IndexTypeMismatch { argument_type: t, index_type: ValueType::Usize, location: eloc(a) }))
		},
		_ => a,
	}
}
pub open spec fn ok_step(r: ReferenceStep, s: ReferenceStep, fns: Fns) -> bool
	decreases s, 0int
{
	match s {
		ReferenceStep::Element { argument, is_endless } => r is Element && r->Element_is_endless == is_endless
			&& exists|a: Expression| ok_e(a, *argument, false, fns) && *r->Element_argument == #[trigger] index_rule(a),
		_ => r == s,
	}
}
pub open spec fn ok_c(r: Comparison, c: Comparison, fns: Fns) -> bool {
	r.op == c.op && r.location == c.location && r.location_of_op == c.location_of_op
	&& ok_e(r.left, c.left, false, fns) && ok_e(r.right, c.right, false, fns)
}
// C11 (E352), through ValueType::can_be_variable under its U-VT contract: the declared type of a variable must be legal
pub open spec fn variable_legal(t: ValueType) -> bool {
	value_type::wf(t) && !(t is Void || t is SlicePointer || t is EndlessArray || t is Arraylike || t is View)
}
pub open spec fn var_type_rule(t: Option<Poisonable<ValueType>>, location: Location) -> Option<Poisonable<ValueType>> {
	match t {
		Some(Ok(vt)) => if variable_legal(vt) { t } else { Some(Err(Poison::Error(Error::IllegalVariableType { value_type: vt, location }))) },
		_ => t,
	}
}
pub open spec fn ok_s(r: Statement, s: Statement, fns: Fns) -> bool
	decreases s, 0int
{
	match s {
		Statement::Declaration { name, value, value_type, location } =>
			r is Declaration && r->Declaration_name == name && r->Declaration_location == location
			&& r->Declaration_value_type == var_type_rule(value_type, name.location)
			&& match value {
				Some(v) => r->Declaration_value is Some && ok_e(r->Declaration_value->0, v, false, fns),
				None => r->Declaration_value is None,
			},
		Statement::Assignment { reference, value, location } =>
			r is Assignment && r->Assignment_location == location && ok_r(r->Assignment_reference, reference, fns)
			&& ok_e(r->Assignment_value, value, false, fns),
		Statement::MethodCall { name, builtin, arguments } => match call_verdict(fns, name, builtin, arguments@) {
			Err(error) => r == Statement::Poison(Poison::Error(error)),
			Ok(_) => r is MethodCall && r->MethodCall_name == name && r->MethodCall_builtin == builtin
				&& r->MethodCall_arguments@.len() == arguments@.len()
				&& forall|i: int| 0 <= i < arguments@.len() ==> ok_e(#[trigger] r->MethodCall_arguments@[i], arguments@[i], true, fns),
		},
		Statement::If { condition, then_branch, else_branch, location } =>
			r is If && r->If_location == location && ok_c(r->If_condition, condition, fns) && ok_s(*r->If_then_branch, *then_branch, fns)
			&& match else_branch {
				Some(e) => r->If_else_branch is Some && r->If_else_branch->0.location_of_else == e.location_of_else
					&& ok_s(*r->If_else_branch->0.branch, *e.branch, fns),
				None => r->If_else_branch is None,
			},
		Statement::Block(b) => r is Block && ok_b(r->Block_0, b, fns),
		_ => r == s,
	}
}
pub open spec fn ok_b(r: Block, b: Block, fns: Fns) -> bool
	decreases b, 0int
{
	r.location == b.location && r.statements@.len() == b.statements@.len()
	&& forall|i: int| 0 <= i < b.statements@.len() ==> ok_s(#[trigger] r.statements@[i], b.statements@[i], fns)
}
pub open spec fn ok_f(r: FunctionBody, f: FunctionBody, fns: Fns) -> bool {
	r.return_value_identifier == f.return_value_identifier && r.statements@.len() == f.statements@.len()
	&& (forall|i: int| 0 <= i < f.statements@.len() ==> ok_s(#[trigger] r.statements@[i], f.statements@[i], fns))
	&& match f.return_value {
		Some(v) => r.return_value is Some && ok_e(r.return_value->0, v, false, fns),
		None => r.return_value is None,
	}
}
pub open spec fn ok_d(r: Declaration, d: Declaration, fns: Fns) -> bool {
	match d {
		Declaration::Function { name, parameters, body, return_type, flags, location_of_declaration, location_of_return_type } => {
			&&& r is Function
			&&& r->Function_name == name && r->Function_parameters == parameters && r->Function_return_type == return_type
			&&& r->Function_flags == flags && r->Function_location_of_declaration == location_of_declaration
			&&& r->Function_location_of_return_type == location_of_return_type
			&&& match body { Ok(b) => r->Function_body is Ok && ok_f(r->Function_body->Ok_0, b, fns), Err(p) => r->Function_body == body }
		},
		_ => r == d,
	}
}

// ---- the flag protocol: the value of `is_immediate_function_argument` after analysing e, when it was imm before
// (never switched on: xf(.., false) == false; switched off by everything that has operands / elements / members / arguments / an index)
pub open spec fn xf_e(e: Expression, imm: bool) -> bool
	decreases e
{
	match e {
		Expression::Binary { .. } => false,
		Expression::Unary { .. } => false,
		Expression::ArrayLiteral { .. } => false,
		Expression::Structural { .. } => false,
		Expression::FunctionCall { .. } => false,
		Expression::Parenthesized { inner, .. } => xf_e(*inner, imm),
		Expression::Autocoerce { expression, .. } => xf_e(*expression, imm),
		Expression::BitCast { expression, .. } => xf_e(*expression, imm),
		Expression::TypeCast { expression, .. } => xf_e(*expression, imm),
		Expression::Deref { reference, .. } => xf_r(reference, imm),
		Expression::LengthOfArray { reference, .. } => xf_r(reference, imm),
		_ => imm,
	}
}
pub open spec fn xf_step(s: ReferenceStep, imm: bool) -> bool { imm && !(s is Element) }
pub open spec fn xf_steps(steps: Seq<ReferenceStep>, k: int, imm: bool) -> bool {
	imm && forall|i: int| 0 <= i < k && i < steps.len() ==> !(#[trigger] steps[i] is Element)
}
pub open spec fn xf_r(r: Reference, imm: bool) -> bool { xf_steps(r.steps@, r.steps@.len() as int, imm) }
pub proof fn lemma_flag_never_switched_on(e: Expression)
	ensures !xf_e(e, false),
	decreases e
{
	match e {
		Expression::Parenthesized { inner, .. } => lemma_flag_never_switched_on(*inner),
		Expression::Autocoerce { expression, .. } => lemma_flag_never_switched_on(*expression),
		Expression::BitCast { expression, .. } => lemma_flag_never_switched_on(*expression),
		Expression::TypeCast { expression, .. } => lemma_flag_never_switched_on(*expression),
		_ => {},
	}
}

// ---- the declarations table
pub open spec fn declares(d: Declaration) -> bool { d is Function || d is FunctionHead }
pub open spec fn declared_name(d: Declaration) -> Identifier { if d is Function { d->Function_name } else { d->FunctionHead_name } }
pub open spec fn declared_parameters(d: Declaration) -> Seq<Parameter> { if d is Function { d->Function_parameters@ } else { d->FunctionHead_parameters@ } }
pub open spec fn declared_as(fns0: Fns, fns1: Fns, name: Identifier, parameters: Seq<Parameter>) -> bool {
	&&& fns1.dom() =~= fns0.dom().insert(name.resolution_id)
	&&& fns1[name.resolution_id].identifier == name
	&&& fns1[name.resolution_id].parameters@ =~= parameters
	&&& forall|k: u32| k != name.resolution_id && fns0.contains_key(k) ==> #[trigger] fns1[k] == fns0[k]
}

// `From<Error> for Poison` (error.rs, sliced and verified): vstd's From contract is stated through FromSpec
impl vstd::std_specs::convert::FromSpecImpl<Error> for Poison {
	open spec fn obeys_from_spec() -> bool { true }
	open spec fn from_spec(v: Error) -> Self { Poison::Error(v) }
}

// ---------------------------------------------------------------------------------------------
// what the oracle says, spelled out (sanity of the spec against the property text)
// ---------------------------------------------------------------------------------------------
// `x = arr;` / `var x = arr;` / `f(arr + ..)`: a whole array / view / struct outside an argument position is E531 / E532 / E533
proof fn lemma_copy_outside_argument_is_rejected(r: Expression, e: Expression, fns: Fns)
	requires e is Deref, e->Deref_deref_type is Some, e->Deref_deref_type->0 is Ok, ok_e(r, e, false, fns),
	ensures ({ let t = e->Deref_deref_type->0->Ok_0; let l = e->Deref_reference.location;
		&&& (t is Array || t is EndlessArray) ==> r->Deref_deref_type == Some(Err::<ValueType, Poison>(Poison::Error(Error::CannotCopyArray { location: l })))
		&&& (t is Slice || t is SlicePointer || t is Arraylike) ==> r->Deref_deref_type == Some(Err::<ValueType, Poison>(Poison::Error(Error::CannotCopySlice { location: l })))
		&&& t is Struct ==> r->Deref_deref_type == Some(Err::<ValueType, Poison>(Poison::Error(Error::CannotCopyStruct { location: l })))
		&&& (t is Int32 || t is Pointer || t is View || t is Bool || t is Word) ==> r->Deref_deref_type == e->Deref_deref_type }),
{
}
// `f(arr)`, `f((arr))`: the immediate argument of a call keeps its type, also inside parentheses
proof fn lemma_immediate_argument_is_accepted(r: Expression, e: Expression, fns: Fns)
	requires ok_e(r, e, true, fns),
	ensures
		e is Deref ==> r->Deref_deref_type == e->Deref_deref_type,
		(e is Parenthesized && *e->Parenthesized_inner is Deref) ==> (*r->Parenthesized_inner)->Deref_deref_type == (*e->Parenthesized_inner)->Deref_deref_type,
{
	reveal_with_fuel(ok_e, 2);
}
// `f(arr + 1)`, `f(S { m: arr })`, `f(x[arr])`-style positions are NOT arguments even inside an argument
proof fn lemma_operands_and_members_are_not_arguments(r: Expression, e: Expression, fns: Fns, l: Location)
	requires ok_e(r, e, true, fns),
	ensures
		(e is Binary && *e->Binary_left is Deref) ==> (*r->Binary_left)->Deref_deref_type == copy_rule((*e->Binary_left)->Deref_deref_type, false, (*e->Binary_left)->Deref_reference.location),
		(e is Structural && e->Structural_members@.len() > 0 && e->Structural_members@[0].expression is Deref) ==>
			r->Structural_members@[0].expression->Deref_deref_type
				== copy_rule(e->Structural_members@[0].expression->Deref_deref_type, false, e->Structural_members@[0].expression->Deref_reference.location),
{
	reveal_with_fuel(ok_e, 2);
	if e is Structural && e->Structural_members@.len() > 0 {
		assert(ok_m(r->Structural_members@[0], e->Structural_members@[0], fns));
	}
}
// C07: a call is accepted exactly when the counts agree and no pair of known types differs (parameter not already poisoned)
proof fn lemma_user_call_accepted_iff(f: Function, name: Identifier, args: Seq<Expression>)
	ensures
		user_call_verdict(f, name, args) is Ok <==> (args.len() == f.parameters@.len()
			&& forall|i: int| 0 <= i < args.len() ==> !blames(#[trigger] f.parameters@[i], args[i])),
		args.len() < f.parameters@.len() <==> (user_call_verdict(f, name, args) is Err && user_call_verdict(f, name, args)->Err_0 is TooFewArguments),
		args.len() > f.parameters@.len() <==> (user_call_verdict(f, name, args) is Err && user_call_verdict(f, name, args)->Err_0 is TooManyArguments),
{
	lemma_first_blame(f.parameters@, args, 0);
}
// "a later expression in the same statement is not treated as an argument": in `f(a) + arr` and in `x = f(a); .. = arr`
// the operand / value after the call is judged with imm = false whatever the call's arguments were, and the flag is off
// after every call, operation and statement
proof fn lemma_expression_after_a_call_is_not_an_argument(r: Expression, e: Expression, imm: bool, fns: Fns)
	requires ok_e(r, e, imm, fns), e is Binary, *e->Binary_left is FunctionCall, *e->Binary_right is Deref,
	ensures
		(*r->Binary_right)->Deref_deref_type == copy_rule((*e->Binary_right)->Deref_deref_type, false, (*e->Binary_right)->Deref_reference.location),
		!xf_e(*e->Binary_left, imm), !xf_e(e, imm),
{
	reveal_with_fuel(ok_e, 2);
}
