// Shared by U-LEXD (lex() ENSURES it) and U-PARSE (parse() REQUIRES it): what the parser relies on about a token list.
// well-formedness of a packed (value type, payload id) word as ValueTypeAndPayloadId::new makes it
pub open spec fn vap_ok(v: ValueTypeAndPayloadId) -> bool { v.value_type_and_payload_id & 0xFF <= 14 }
// the list ends in TWO EndOfSource tokens (so that one over-consumption is harmless), the packed words are parallel
// to the tokens and every one of them is well formed
pub open spec fn ltok_shape(t: Tokens) -> bool {
	&&& 2 <= t.tokens@.len()
	&&& t.tokens@[t.tokens@.len() - 1] == BaseToken::EndOfSource
	&&& t.tokens@[t.tokens@.len() - 2] == BaseToken::EndOfSource
	&&& t.token_vaps@.len() == t.tokens@.len()
	&&& forall|i: int| 0 <= i < t.token_vaps@.len() ==> vap_ok(#[trigger] t.token_vaps@[i])
}
// ... and has fewer than 2^24 tokens (ids fit 24 bits with one to spare). lex() guarantees <= 2^24; the strict bound
// follows from parse()'s size precondition 5 + 5 * tokens <= 2^24 (D10).
pub open spec fn ltok_ok(t: Tokens) -> bool { ltok_shape(t) && t.tokens@.len() < 0x1000000 }
