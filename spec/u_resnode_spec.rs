// ---------------------------------------------------------------------------------------------------------------------------
// U-RESNODE ghost specification (hand-written, ghost only): the error collection of the resolver's NODE impls.
// Continues spec/u_collect_spec.rs (included in front of this file): the trait-level contract of `Resolvable` is U-COLLECT's,
// plus a fourth injected spec function
//     v.pre()     what earlier stages guarantee about v and `resolve` relies on (it would panic otherwise): an identifier has
//                 been given its resolution id, a constant / structure has been given its depth
// Each node impl DEFINES errs / poisoned / resolves_to / pre from its FIELDS (units/u_resnode.py), using
//     fails(v)                  v does not resolve: it has errors or is poisoned
//     then(a fails, a, b)       `a.resolve()?` before b is looked at: the errors of a if a fails, else those of b
//     own_errs(r) / own_poisoned(r)   the verdict r of a check the node makes itself (e.g. the compared type): its errors,
//                               and "rejected WITHOUT an error" when r is an Err with an empty list
// ---------------------------------------------------------------------------------------------------------------------------
pub open spec fn fails<V: Resolvable>(v: V) -> bool { v.errs().len() > 0 || v.poisoned() }
pub open spec fn list_pre<T: Resolvable>(s: Seq<T>) -> bool { forall|i: int| 0 <= i < s.len() ==> (#[trigger] s[i]).pre() }
pub open spec fn own_errs<X>(r: Result<X, Errors>) -> Seq<Error> { match r { Ok(_) => Seq::empty(), Err(e) => e.errors@ } }
pub open spec fn own_poisoned<X>(r: Result<X, Errors>) -> bool { r is Err && r->Err_0.errors@.len() == 0 }
// a depth that an earlier stage failed to compute
pub open spec fn depth_errs(d: Option<Poisonable<u32>>) -> Seq<Error> { match d { Some(Err(p)) => poison_errs(p), _ => Seq::empty() } }
pub open spec fn depth_poisoned(d: Option<Poisonable<u32>>) -> bool { d matches Some(Err(Poison::Poisoned)) }
pub open spec fn depth_is(d: Option<Poisonable<u32>>, x: u32) -> bool { d == Some(Ok::<u32, Poison>(x)) }
// Some(t).filter(not void)
pub open spec fn non_void(t: resolved::ValueType) -> Option<resolved::ValueType> { if t is Void { None } else { Some(t) } }

// ---- Declaration: the parts handed to the combinators, per kind, in the order the code hands them over
pub open spec fn decl_pre(d: Declaration) -> bool {
	match d {
		Declaration::Constant { name, value, value_type, depth, .. } => (name, value_type, value).pre() && depth is Some,
		Declaration::Function { name, parameters, body, return_type, .. } => (name, parameters, return_type, body).pre(),
		Declaration::FunctionHead { name, parameters, return_type, .. } => (name, parameters, return_type).pre(),
		Declaration::Structure { name, members, structural_type, depth, .. } => (name, structural_type, members).pre() && depth is Some,
		_ => true,
	}
}
pub open spec fn decl_errs(d: Declaration) -> Seq<Error> {
	match d {
		Declaration::Constant { name, value, value_type, depth, .. } =>
			if fails((name, value_type, value)) { (name, value_type, value).errs() } else { depth_errs(depth) },
		Declaration::Function { name, parameters, body, return_type, .. } => (name, parameters, return_type, body).errs(),
		Declaration::FunctionHead { name, parameters, return_type, .. } => (name, parameters, return_type).errs(),
		Declaration::Structure { name, members, structural_type, depth, .. } =>
			if fails((name, structural_type, members)) { (name, structural_type, members).errs() } else { depth_errs(depth) },
		Declaration::Import { filename, location } => seq![Error::UnresolvedImport { filename, location }],
		Declaration::Poison(p) => poison_errs(p),
	}
}
pub open spec fn decl_poisoned(d: Declaration) -> bool {
	match d {
		Declaration::Constant { name, value, value_type, depth, .. } =>
			if fails((name, value_type, value)) { (name, value_type, value).poisoned() } else { depth_poisoned(depth) },
		Declaration::Function { name, parameters, body, return_type, .. } => (name, parameters, return_type, body).poisoned(),
		Declaration::FunctionHead { name, parameters, return_type, .. } => (name, parameters, return_type).poisoned(),
		Declaration::Structure { name, members, structural_type, depth, .. } =>
			if fails((name, structural_type, members)) { (name, structural_type, members).poisoned() } else { depth_poisoned(depth) },
		Declaration::Import { .. } => false,
		Declaration::Poison(p) => p is Poisoned,
	}
}
pub open spec fn decl_resolves_to(d: Declaration, x: resolved::Declaration) -> bool {
	match d {
		Declaration::Constant { name, value, value_type, flags, depth, .. } =>
			x matches resolved::Declaration::Constant { name: n, value: v, value_type: t, flags: f, depth: dd }
				&& (name, value_type, value).resolves_to((n, t, v)) && f == flags && depth_is(depth, dd),
		Declaration::Function { name, parameters, body, return_type, flags, .. } =>
			x matches resolved::Declaration::Function { name: n, parameters: ps, body: b, return_type: rt, flags: f }
				&& f == flags && !(rt matches Some(resolved::ValueType::Void))
				&& (name, parameters, return_type, body).resolves_to((n, ps, match rt { Some(t) => t, None => resolved::ValueType::Void }, b)),
		Declaration::FunctionHead { name, parameters, return_type, flags, .. } =>
			x matches resolved::Declaration::FunctionHead { name: n, parameters: ps, return_type: rt, flags: f }
				&& f@ == flags@.insert(DeclarationFlag::Forward) && !(rt matches Some(resolved::ValueType::Void))
				&& (name, parameters, return_type).resolves_to((n, ps, match rt { Some(t) => t, None => resolved::ValueType::Void })),
		Declaration::Structure { name, members, structural_type, flags, depth, .. } =>
			x matches resolved::Declaration::Structure { name: n, members: ms, flags: f, depth: dd }
				&& f == flags && depth_is(depth, dd)
				&& name.resolves_to(n) && members.resolves_to(ms) && exists|st: resolved::ValueType| #[trigger] structural_type.resolves_to(st),
		_ => false,
	}
}

// ---- mirror of the list functions of spec/u_collect_spec.rs for `trait RecResolvable` (prelude/resnode_rec.rs)
pub open spec fn rec_list_errs<T: RecResolvable>(s: Seq<T>) -> Seq<Error>
	decreases s.len()
{
	if s.len() == 0 { Seq::empty() } else { rec_list_errs(s.drop_last()) + s.last().rec_errs() }
}
pub open spec fn rec_list_poisoned<T: RecResolvable>(s: Seq<T>) -> bool
	decreases s.len()
{
	if s.len() == 0 { false } else { rec_list_poisoned(s.drop_last()) || s.last().rec_poisoned() }
}
pub open spec fn rec_list_resolves_to<T: RecResolvable>(s: Seq<T>, x: Seq<T::Item>) -> bool {
	s.len() == x.len() && forall|i: int| 0 <= i < s.len() ==> (#[trigger] s[i]).rec_resolves_to(x[i])
}
pub open spec fn rec_list_pre<T: RecResolvable>(s: Seq<T>) -> bool { forall|i: int| 0 <= i < s.len() ==> (#[trigger] s[i]).rec_pre() }

// ---- Statement: errs / poisoned / resolves_to / pre in terms of the FIELDS, by structural recursion (no trait dispatch on the
//      recursive positions: a boxed branch is looked into, the block's vector is folded front to back)
broadcast use vstd::std_specs::vec::axiom_vec_index_decreases;
pub open spec fn method_call(name: Identifier, builtin: Option<Builtin>, arguments: Vec<Expression>) -> Expression {
	Expression::FunctionCall { name, builtin, arguments, return_type: Some(Ok(ValueType::Void)) }
}
pub open spec fn stmt_pre(s: Statement) -> bool
	decreases s
{
	match s {
		Statement::Declaration { name, value: Some(value), value_type: Some(vt), .. } => (name, vt, value).pre(),
		Statement::Declaration { name, value: None, value_type: Some(vt), .. } => (name, vt).pre(),
		Statement::Assignment { reference, value, .. } => recorded_type(value) is Some ==> (reference, value).pre(),
		Statement::MethodCall { name, builtin, arguments } => method_call(name, builtin, arguments).pre(),
		Statement::Goto { label, .. } => label.pre(),
		Statement::Label { label, .. } => label.pre(),
		Statement::If { condition, then_branch, else_branch, .. } => condition.pre() && stmt_pre(*then_branch)
			&& match else_branch { Some(e) => stmt_pre(*e.branch), None => true },
		Statement::Block(b) => forall|i: int| 0 <= i < b.statements@.len() ==> stmt_pre(#[trigger] b.statements@[i]),
		_ => true,
	}
}
pub open spec fn stmts_errs(v: Vec<Statement>, n: nat) -> Seq<Error>
	decreases v, n
{
	if n == 0 || n > v@.len() { Seq::empty() } else { stmts_errs(v, (n - 1) as nat) + stmt_errs(v@[n - 1]) }
}
pub open spec fn stmt_errs(s: Statement) -> Seq<Error>
	decreases s, 0nat
{
	match s {
		Statement::Declaration { name, value: Some(value), value_type: Some(vt), .. } => (name, vt, value).errs(),
		Statement::Declaration { name, value: None, value_type: Some(vt), .. } => (name, vt).errs(),
		Statement::Declaration { value_type: None, location, .. } => seq![Error::AmbiguousTypeOfDeclaration { location }],
		Statement::Assignment { reference, value, .. } => if recorded_type(value) is Some { (reference, value).errs() }
			else { seq![Error::AmbiguousType { location: location_of(value) }] },
		Statement::MethodCall { name, builtin, arguments } => method_call(name, builtin, arguments).errs(),
		Statement::Loop { .. } => Seq::empty(),
		Statement::Goto { label, .. } => label.errs(),
		Statement::Label { label, .. } => label.errs(),
		Statement::If { condition, then_branch, else_branch, .. } => condition.errs() + stmt_errs(*then_branch)
			+ match else_branch { Some(e) => stmt_errs(*e.branch), None => Seq::empty() },
		Statement::Block(b) => stmts_errs(b.statements, b.statements@.len()),
		Statement::Poison(p) => poison_errs(p),
	}
}
pub open spec fn stmts_poisoned(v: Vec<Statement>, n: nat) -> bool
	decreases v, n
{
	if n == 0 || n > v@.len() { false } else { stmts_poisoned(v, (n - 1) as nat) || stmt_poisoned(v@[n - 1]) }
}
pub open spec fn stmt_poisoned(s: Statement) -> bool
	decreases s, 0nat
{
	match s {
		Statement::Declaration { name, value: Some(value), value_type: Some(vt), .. } => (name, vt, value).poisoned(),
		Statement::Declaration { name, value: None, value_type: Some(vt), .. } => (name, vt).poisoned(),
		Statement::Declaration { value_type: None, .. } => false,
		Statement::Assignment { reference, value, .. } => recorded_type(value) is Some && (reference, value).poisoned(),
		Statement::MethodCall { name, builtin, arguments } => method_call(name, builtin, arguments).poisoned(),
		Statement::Loop { .. } => false,
		Statement::Goto { label, .. } => label.poisoned(),
		Statement::Label { label, .. } => label.poisoned(),
		Statement::If { condition, then_branch, else_branch, .. } => condition.poisoned() || stmt_poisoned(*then_branch)
			|| match else_branch { Some(e) => stmt_poisoned(*e.branch), None => false },
		Statement::Block(b) => stmts_poisoned(b.statements, b.statements@.len()),
		Statement::Poison(p) => p is Poisoned,
	}
}
// the resolved statement is of the SAME kind with every part resolved: an `if` keeps condition, then and else; a block stays a
// Block holding its statements resolved, one for one, in order (C06: where a loop may stand is decided on blocks)
pub open spec fn stmt_resolves_to(s: Statement, x: resolved::Statement) -> bool
	decreases s
{
	match s {
		Statement::Declaration { name, value: Some(value), value_type: Some(vt), .. } =>
			x matches resolved::Statement::Declaration { name: n, value: Some(v), value_type: t } && (name, vt, value).resolves_to((n, t, v)),
		Statement::Declaration { name, value: None, value_type: Some(vt), .. } =>
			x matches resolved::Statement::Declaration { name: n, value: None, value_type: t } && (name, vt).resolves_to((n, t)),
		Statement::Assignment { reference, value, .. } =>
			x matches resolved::Statement::Assignment { reference: r, value: v } && (reference, value).resolves_to((r, v)),
		Statement::MethodCall { name, builtin, arguments } =>
			x matches resolved::Statement::EvaluateAndDiscard { value: v } && method_call(name, builtin, arguments).resolves_to(v),
		Statement::Loop { .. } => x is Loop,
		Statement::Goto { label, .. } => x matches resolved::Statement::Goto { label: l } && label.resolves_to(l),
		Statement::Label { label, .. } => x matches resolved::Statement::Label { label: l } && label.resolves_to(l),
		Statement::If { condition, then_branch, else_branch, .. } =>
			x matches resolved::Statement::If { condition: c, then_branch: t, else_branch: e }
				&& condition.resolves_to(c) && stmt_resolves_to(*then_branch, *t)
				&& match else_branch { Some(el) => e is Some && stmt_resolves_to(*el.branch, *e->Some_0), None => e is None },
		Statement::Block(b) =>
			x matches resolved::Statement::Block(rb) && rb.statements@.len() == b.statements@.len()
				&& forall|i: int| 0 <= i < b.statements@.len() ==> stmt_resolves_to(#[trigger] b.statements@[i], rb.statements@[i]),
		_ => false,
	}
}
pub proof fn lemma_stmts(v: Vec<Statement>, n: nat)
	requires n <= v@.len(),
	ensures rec_list_errs(v@.take(n as int)) == stmts_errs(v, n), rec_list_poisoned(v@.take(n as int)) == stmts_poisoned(v, n),
	decreases n,
{
	if n > 0 {
		lemma_stmts(v, (n - 1) as nat);
		assert(v@.take(n as int).drop_last() =~= v@.take(n - 1));
		assert(v@.take(n as int).last() == v@[n - 1]);
	}
}
