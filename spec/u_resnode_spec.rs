// ---------------------------------------------------------------------------------------------------------------------------
// U-RESNODE ghost specification (hand-written, ghost only): the error collection of the resolver's NODE impls.
// Continues spec/u_collect_spec.rs (included in front of this file): the trait-level contract of `Resolvable` is U-COLLECT's,
// plus a fourth injected spec function
//     v.pre()     what earlier stages guarantee about v and `resolve` relies on (it would panic otherwise): an identifier has
//                 been given its resolution id, a constant / structure has been given its depth
// Each node impl DEFINES errs / poisoned / resolves_to / pre from its FIELDS (units/u_resnode.py), using
//     fails(v)                  v does not resolve: it has errors or is poisoned
//     then(a fails, a, b)       `a.resolve()?` before b is looked at: the errors of a if a fails, else those of b
//     own_errs(r) / own_poisoned(r)   the verdict r of a check the node makes itself (e.g. the compared type): its errors,
//                               and "rejected WITHOUT an error" when r is an Err with an empty list
// ---------------------------------------------------------------------------------------------------------------------------
pub open spec fn fails<V: Resolvable>(v: V) -> bool { v.errs().len() > 0 || v.poisoned() }
pub open spec fn list_pre<T: Resolvable>(s: Seq<T>) -> bool { forall|i: int| 0 <= i < s.len() ==> (#[trigger] s[i]).pre() }
pub open spec fn own_errs<X>(r: Result<X, Errors>) -> Seq<Error> { match r { Ok(_) => Seq::empty(), Err(e) => e.errors@ } }
pub open spec fn own_poisoned<X>(r: Result<X, Errors>) -> bool { r is Err && r->Err_0.errors@.len() == 0 }
// a depth that an earlier stage failed to compute
pub open spec fn depth_errs(d: Option<Poisonable<u32>>) -> Seq<Error> { match d { Some(Err(p)) => poison_errs(p), _ => Seq::empty() } }
pub open spec fn depth_poisoned(d: Option<Poisonable<u32>>) -> bool { d matches Some(Err(Poison::Poisoned)) }
pub open spec fn depth_is(d: Option<Poisonable<u32>>, x: u32) -> bool { d == Some(Ok::<u32, Poison>(x)) }
// Some(t).filter(not void)
pub open spec fn non_void(t: resolved::ValueType) -> Option<resolved::ValueType> { if t is Void { None } else { Some(t) } }

// ---- Declaration: the parts handed to the combinators, per kind, in the order the code hands them over
pub open spec fn decl_pre(d: Declaration) -> bool {
	match d {
		Declaration::Constant { name, value, value_type, depth, .. } => (name, value_type, value).pre() && depth is Some,
		Declaration::Function { name, parameters, body, return_type, .. } => (name, parameters, return_type, body).pre(),
		Declaration::FunctionHead { name, parameters, return_type, .. } => (name, parameters, return_type).pre(),
		Declaration::Structure { name, members, structural_type, depth, .. } => (name, structural_type, members).pre() && depth is Some,
		_ => true,
	}
}
pub open spec fn decl_errs(d: Declaration) -> Seq<Error> {
	match d {
		Declaration::Constant { name, value, value_type, depth, .. } =>
			if fails((name, value_type, value)) { (name, value_type, value).errs() } else { depth_errs(depth) },
		Declaration::Function { name, parameters, body, return_type, .. } => (name, parameters, return_type, body).errs(),
		Declaration::FunctionHead { name, parameters, return_type, .. } => (name, parameters, return_type).errs(),
		Declaration::Structure { name, members, structural_type, depth, .. } =>
			if fails((name, structural_type, members)) { (name, structural_type, members).errs() } else { depth_errs(depth) },
		Declaration::Import { filename, location } => seq![Error::UnresolvedImport { filename, location }],
		Declaration::Poison(p) => poison_errs(p),
	}
}
pub open spec fn decl_poisoned(d: Declaration) -> bool {
	match d {
		Declaration::Constant { name, value, value_type, depth, .. } =>
			if fails((name, value_type, value)) { (name, value_type, value).poisoned() } else { depth_poisoned(depth) },
		Declaration::Function { name, parameters, body, return_type, .. } => (name, parameters, return_type, body).poisoned(),
		Declaration::FunctionHead { name, parameters, return_type, .. } => (name, parameters, return_type).poisoned(),
		Declaration::Structure { name, members, structural_type, depth, .. } =>
			if fails((name, structural_type, members)) { (name, structural_type, members).poisoned() } else { depth_poisoned(depth) },
		Declaration::Import { .. } => false,
		Declaration::Poison(p) => p is Poisoned,
	}
}
pub open spec fn decl_resolves_to(d: Declaration, x: resolved::Declaration) -> bool {
	match d {
		Declaration::Constant { name, value, value_type, flags, depth, .. } =>
			x matches resolved::Declaration::Constant { name: n, value: v, value_type: t, flags: f, depth: dd }
				&& (name, value_type, value).resolves_to((n, t, v)) && f == flags && depth_is(depth, dd),
		Declaration::Function { name, parameters, body, return_type, flags, .. } =>
			x matches resolved::Declaration::Function { name: n, parameters: ps, body: b, return_type: rt, flags: f }
				&& f == flags && !(rt matches Some(resolved::ValueType::Void))
				&& (name, parameters, return_type, body).resolves_to((n, ps, match rt { Some(t) => t, None => resolved::ValueType::Void }, b)),
		Declaration::FunctionHead { name, parameters, return_type, flags, .. } =>
			x matches resolved::Declaration::FunctionHead { name: n, parameters: ps, return_type: rt, flags: f }
				&& f@ == flags@.insert(DeclarationFlag::Forward) && !(rt matches Some(resolved::ValueType::Void))
				&& (name, parameters, return_type).resolves_to((n, ps, match rt { Some(t) => t, None => resolved::ValueType::Void })),
		Declaration::Structure { name, members, structural_type, flags, depth, .. } =>
			x matches resolved::Declaration::Structure { name: n, members: ms, flags: f, depth: dd }
				&& f == flags && depth_is(depth, dd)
				&& name.resolves_to(n) && members.resolves_to(ms) && exists|st: resolved::ValueType| #[trigger] structural_type.resolves_to(st),
		_ => false,
	}
}

// ---- mirror of the list functions of spec/u_collect_spec.rs for `trait RecResolvable` (prelude/resnode_rec.rs)
pub open spec fn rec_list_errs<T: RecResolvable>(s: Seq<T>) -> Seq<Error>
	decreases s.len()
{
	if s.len() == 0 { Seq::empty() } else { rec_list_errs(s.drop_last()) + s.last().rec_errs() }
}
pub open spec fn rec_list_poisoned<T: RecResolvable>(s: Seq<T>) -> bool
	decreases s.len()
{
	if s.len() == 0 { false } else { rec_list_poisoned(s.drop_last()) || s.last().rec_poisoned() }
}
pub open spec fn rec_list_resolves_to<T: RecResolvable>(s: Seq<T>, x: Seq<T::Item>) -> bool {
	s.len() == x.len() && forall|i: int| 0 <= i < s.len() ==> (#[trigger] s[i]).rec_resolves_to(x[i])
}
pub open spec fn rec_list_pre<T: RecResolvable>(s: Seq<T>) -> bool { forall|i: int| 0 <= i < s.len() ==> (#[trigger] s[i]).rec_pre() }

// ---- Statement: errs / poisoned / resolves_to / pre in terms of the FIELDS, by structural recursion (no trait dispatch on the
//      recursive positions: a boxed branch is looked into, the block's vector is folded front to back)
broadcast use vstd::std_specs::vec::axiom_vec_index_decreases;
pub open spec fn method_call(name: Identifier, builtin: Option<Builtin>, arguments: Vec<Expression>) -> Expression {
	Expression::FunctionCall { name, builtin, arguments, return_type: Some(Ok(ValueType::Void)) }
}
pub open spec fn stmt_pre(s: Statement) -> bool
	decreases s
{
	match s {
		Statement::Declaration { name, value: Some(value), value_type: Some(vt), .. } => (name, vt, value).pre(),
		Statement::Declaration { name, value: None, value_type: Some(vt), .. } => (name, vt).pre(),
		Statement::Assignment { reference, value, .. } => recorded_type(value) is Some ==> (reference, value).pre(),
		Statement::MethodCall { name, builtin, arguments } => method_call(name, builtin, arguments).pre(),
		Statement::Goto { label, .. } => label.pre(),
		Statement::Label { label, .. } => label.pre(),
		Statement::If { condition, then_branch, else_branch, .. } => condition.pre() && stmt_pre(*then_branch)
			&& match else_branch { Some(e) => stmt_pre(*e.branch), None => true },
		Statement::Block(b) => forall|i: int| 0 <= i < b.statements@.len() ==> stmt_pre(#[trigger] b.statements@[i]),
		_ => true,
	}
}
pub open spec fn stmts_errs(v: Vec<Statement>, n: nat) -> Seq<Error>
	decreases v, n
{
	if n == 0 || n > v@.len() { Seq::empty() } else { stmts_errs(v, (n - 1) as nat) + stmt_errs(v@[n - 1]) }
}
pub open spec fn stmt_errs(s: Statement) -> Seq<Error>
	decreases s, 0nat
{
	match s {
		Statement::Declaration { name, value: Some(value), value_type: Some(vt), .. } => (name, vt, value).errs(),
		Statement::Declaration { name, value: None, value_type: Some(vt), .. } => (name, vt).errs(),
		Statement::Declaration { value_type: None, location, .. } => seq![Error::AmbiguousTypeOfDeclaration { location }],
		Statement::Assignment { reference, value, .. } => if recorded_type(value) is Some { (reference, value).errs() }
			else { seq![Error::AmbiguousType { location: location_of(value) }] },
		Statement::MethodCall { name, builtin, arguments } => method_call(name, builtin, arguments).errs(),
		Statement::Loop { .. } => Seq::empty(),
		Statement::Goto { label, .. } => label.errs(),
		Statement::Label { label, .. } => label.errs(),
		Statement::If { condition, then_branch, else_branch, .. } => condition.errs() + stmt_errs(*then_branch)
			+ match else_branch { Some(e) => stmt_errs(*e.branch), None => Seq::empty() },
		Statement::Block(b) => stmts_errs(b.statements, b.statements@.len()),
		Statement::Poison(p) => poison_errs(p),
	}
}
pub open spec fn stmts_poisoned(v: Vec<Statement>, n: nat) -> bool
	decreases v, n
{
	if n == 0 || n > v@.len() { false } else { stmts_poisoned(v, (n - 1) as nat) || stmt_poisoned(v@[n - 1]) }
}
pub open spec fn stmt_poisoned(s: Statement) -> bool
	decreases s, 0nat
{
	match s {
		Statement::Declaration { name, value: Some(value), value_type: Some(vt), .. } => (name, vt, value).poisoned(),
		Statement::Declaration { name, value: None, value_type: Some(vt), .. } => (name, vt).poisoned(),
		Statement::Declaration { value_type: None, .. } => false,
		Statement::Assignment { reference, value, .. } => recorded_type(value) is Some && (reference, value).poisoned(),
		Statement::MethodCall { name, builtin, arguments } => method_call(name, builtin, arguments).poisoned(),
		Statement::Loop { .. } => false,
		Statement::Goto { label, .. } => label.poisoned(),
		Statement::Label { label, .. } => label.poisoned(),
		Statement::If { condition, then_branch, else_branch, .. } => condition.poisoned() || stmt_poisoned(*then_branch)
			|| match else_branch { Some(e) => stmt_poisoned(*e.branch), None => false },
		Statement::Block(b) => stmts_poisoned(b.statements, b.statements@.len()),
		Statement::Poison(p) => p is Poisoned,
	}
}
// the resolved statement is of the SAME kind with every part resolved: an `if` keeps condition, then and else; a block stays a
// Block holding its statements resolved, one for one, in order (C06: where a loop may stand is decided on blocks)
pub open spec fn stmt_resolves_to(s: Statement, x: resolved::Statement) -> bool
	decreases s
{
	match s {
		Statement::Declaration { name, value: Some(value), value_type: Some(vt), .. } =>
			x matches resolved::Statement::Declaration { name: n, value: Some(v), value_type: t } && (name, vt, value).resolves_to((n, t, v)),
		Statement::Declaration { name, value: None, value_type: Some(vt), .. } =>
			x matches resolved::Statement::Declaration { name: n, value: None, value_type: t } && (name, vt).resolves_to((n, t)),
		Statement::Assignment { reference, value, .. } =>
			x matches resolved::Statement::Assignment { reference: r, value: v } && (reference, value).resolves_to((r, v)),
		Statement::MethodCall { name, builtin, arguments } =>
			x matches resolved::Statement::EvaluateAndDiscard { value: v } && method_call(name, builtin, arguments).resolves_to(v),
		Statement::Loop { .. } => x is Loop,
		Statement::Goto { label, .. } => x matches resolved::Statement::Goto { label: l } && label.resolves_to(l),
		Statement::Label { label, .. } => x matches resolved::Statement::Label { label: l } && label.resolves_to(l),
		Statement::If { condition, then_branch, else_branch, .. } =>
			x matches resolved::Statement::If { condition: c, then_branch: t, else_branch: e }
				&& condition.resolves_to(c) && stmt_resolves_to(*then_branch, *t)
				&& match else_branch { Some(el) => e is Some && stmt_resolves_to(*el.branch, *e->Some_0), None => e is None },
		Statement::Block(b) =>
			x matches resolved::Statement::Block(rb) && rb.statements@.len() == b.statements@.len()
				&& forall|i: int| 0 <= i < b.statements@.len() ==> stmt_resolves_to(#[trigger] b.statements@[i], rb.statements@[i]),
		_ => false,
	}
}
pub proof fn lemma_stmts(v: Vec<Statement>, n: nat)
	requires n <= v@.len(),
	ensures rec_list_errs(v@.take(n as int)) == stmts_errs(v, n), rec_list_poisoned(v@.take(n as int)) == stmts_poisoned(v, n),
	decreases n,
{
	if n > 0 {
		lemma_stmts(v, (n - 1) as nat);
		assert(v@.take(n as int).drop_last() =~= v@.take(n - 1));
		assert(v@.take(n as int).last() == v@[n - 1]);
	}
}

// ---- ValueType: a type that reaches the resolver is FULLY resolved - no named array length, no unresolved struct-or-word at
//      any depth (both arms of the code are `unreachable!()`: see the report), every struct / word identifier scoped.  Such a
//      type never fails to resolve and carries no error of its own: an ill-formed or unknown type was replaced by an
//      `Err(Poison)` in the enclosing Poisonable<ValueType> by the typer.
pub open spec fn vt_pre(t: ValueType) -> bool
	decreases t
{
	match t {
		ValueType::Array { element_type, .. } => vt_pre(*element_type),
		ValueType::ArrayWithNamedLength { .. } => false,
		ValueType::Slice { element_type } => vt_pre(*element_type),
		ValueType::SlicePointer { element_type } => vt_pre(*element_type),
		ValueType::EndlessArray { element_type } => vt_pre(*element_type),
		ValueType::Arraylike { element_type } => vt_pre(*element_type),
		ValueType::Struct { identifier } => identifier.pre(),
		ValueType::Word { identifier, .. } => identifier.pre(),
		ValueType::UnresolvedStructOrWord { .. } => false,
		ValueType::Pointer { deref_type } => vt_pre(*deref_type),
		ValueType::View { deref_type } => vt_pre(*deref_type),
		_ => true,
	}
}
// the resolved type is the SAME type constructor around the resolved parts (lengths and word sizes kept)
pub open spec fn vt_resolves_to(t: ValueType, x: resolved::ValueType) -> bool
	decreases t
{
	match t {
		ValueType::Void => x is Void, ValueType::Int8 => x is Int8, ValueType::Int16 => x is Int16, ValueType::Int32 => x is Int32,
		ValueType::Int64 => x is Int64, ValueType::Int128 => x is Int128, ValueType::Uint8 => x is Uint8, ValueType::Uint16 => x is Uint16,
		ValueType::Uint32 => x is Uint32, ValueType::Uint64 => x is Uint64, ValueType::Uint128 => x is Uint128, ValueType::Usize => x is Usize,
		ValueType::Char8 => x is Char8, ValueType::Bool => x is Bool,
		ValueType::Array { element_type, length } => x matches resolved::ValueType::Array { element_type: e, length: l } && l == length && vt_resolves_to(*element_type, *e),
		ValueType::Slice { element_type } => x matches resolved::ValueType::Slice { element_type: e } && vt_resolves_to(*element_type, *e),
		ValueType::SlicePointer { element_type } => x matches resolved::ValueType::SlicePointer { element_type: e } && vt_resolves_to(*element_type, *e),
		ValueType::EndlessArray { element_type } => x matches resolved::ValueType::EndlessArray { element_type: e } && vt_resolves_to(*element_type, *e),
		ValueType::Arraylike { element_type } => x matches resolved::ValueType::Arraylike { element_type: e } && vt_resolves_to(*element_type, *e),
		ValueType::Struct { identifier } => x matches resolved::ValueType::Struct { identifier: i } && identifier.resolves_to(i),
		ValueType::Word { identifier, size_in_bytes } => x matches resolved::ValueType::Word { identifier: i, size_in_bytes: n } && n == size_in_bytes && identifier.resolves_to(i),
		ValueType::Pointer { deref_type } => x matches resolved::ValueType::Pointer { deref_type: d } && vt_resolves_to(*deref_type, *d),
		ValueType::View { deref_type } => x matches resolved::ValueType::View { deref_type: d } && vt_resolves_to(*deref_type, *d),
		_ => false,
	}
}

// ---- the Expression cluster (Expression <-> Reference <-> ReferenceStep, Expression <-> MemberExpression): errs / poisoned / pre in
//      terms of the FIELDS by mutual structural recursion; vectors are folded front to back.  Where the code looks at a second
//      group of parts only after the first resolved (`a.resolve()?; b.resolve()?`), or raises its OWN error only after its parts
//      resolved, the definition says exactly that: the errors of the FIRST FAILING GROUP.
//      The verdicts of the operator / cast checks (binary_type_of, unary_type_of, bit_cast_type_of, primitive_cast_of) are
//      deterministic functions of the node (prelude/resnode_standins.rs); WHICH error they raise is unit U-RES's subject.
pub open spec fn naked_literal_error(suggested_type: ValueType, location: Location) -> Seq<Error> {
	seq![Error::AmbiguousTypeOfNakedIntegerLiteral { suggested_type, location }]
}
pub open spec fn exprs_errs(v: Vec<Expression>, n: nat) -> Seq<Error>
	decreases v, n
{
	if n == 0 || n > v@.len() { Seq::empty() } else { exprs_errs(v, (n - 1) as nat) + expr_errs(v@[n - 1]) }
}
pub open spec fn mexprs_errs(v: Vec<MemberExpression>, n: nat) -> Seq<Error>
	decreases v, n
{
	if n == 0 || n > v@.len() { Seq::empty() } else { mexprs_errs(v, (n - 1) as nat) + mexpr_errs(v@[n - 1]) }
}
pub open spec fn steps_errs(v: Vec<ReferenceStep>, n: nat) -> Seq<Error>
	decreases v, n
{
	if n == 0 || n > v@.len() { Seq::empty() } else { steps_errs(v, (n - 1) as nat) + step_errs(v@[n - 1]) }
}
pub open spec fn mexpr_errs(m: MemberExpression) -> Seq<Error>
	decreases m, 0nat
{
	m.name.errs() + expr_errs(m.expression)
}
pub open spec fn step_errs(s: ReferenceStep) -> Seq<Error>
	decreases s, 0nat
{
	match s { ReferenceStep::Element { argument, .. } => expr_errs(*argument), _ => Seq::empty() }
}
// a reference: the base first; its steps are looked at only when the base resolved
pub open spec fn ref_errs(r: Reference) -> Seq<Error>
	decreases r, 0nat
{
	if fails(r.base) { r.base.errs() } else { steps_errs(r.steps, r.steps@.len()) }
}
pub open spec fn expr_errs(e: Expression) -> Seq<Error>
	decreases e, 0nat
{
	match e {
		Expression::Binary { op, left, right, location_of_op, .. } =>
			if (expr_errs(*left).len() > 0 || expr_poisoned(*left)) || (expr_errs(*right).len() > 0 || expr_poisoned(*right)) { expr_errs(*left) + expr_errs(*right) } else { own_errs(binary_type_of(op, *left, *right, location_of_op)) },
		Expression::Unary { op, expression, location_of_op, .. } =>
			if (expr_errs(*expression).len() > 0 || expr_poisoned(*expression)) { expr_errs(*expression) } else { own_errs(unary_type_of(op, *expression, location_of_op)) },
		Expression::BooleanLiteral { .. } => Seq::empty(),
		Expression::SignedIntegerLiteral { value_type: Some(vt), .. } => vt.errs(),
		Expression::SignedIntegerLiteral { value_type: None, location, .. } => naked_literal_error(ValueType::Int32, location),
		Expression::BitIntegerLiteral { value_type: Some(vt), .. } => vt.errs(),
		Expression::BitIntegerLiteral { value_type: None, location, .. } => naked_literal_error(ValueType::Uint64, location),
		Expression::ArrayLiteral { array, element_type: Some(et) } => exprs_errs(array.elements, array.elements@.len()) + et.errs(),
		Expression::ArrayLiteral { array, element_type: None } => seq![Error::AmbiguousTypeOfArrayLiteral { location: array.location }],
		Expression::StringLiteral { .. } => Seq::empty(),
		Expression::Structural { members, structural_type, .. } =>
			if fails(structural_type) { structural_type.errs() } else { mexprs_errs(members, members@.len()) },
		Expression::Parenthesized { inner, .. } => expr_errs(*inner),
		Expression::Deref { reference, deref_type } =>
			if (ref_errs(reference).len() > 0 || ref_poisoned(reference)) { ref_errs(reference) } else { match deref_type { Some(dt) => dt.errs(), None => seq![Error::AmbiguousType { location: reference.location }] } },
		Expression::Autocoerce { expression, coerced_type } => expr_errs(*expression) + coerced_type.errs(),
		Expression::BitCast { expression, coerced_type, location, location_of_keyword } =>
			if (expr_errs(*expression).len() > 0 || expr_poisoned(*expression)) { expr_errs(*expression) } else { own_errs(bit_cast_type_of(*expression, coerced_type, location, location_of_keyword)) },
		Expression::TypeCast { expression, coerced_type, location_of_type, .. } =>
			if (expr_errs(*expression).len() > 0 || expr_poisoned(*expression)) || fails(coerced_type) { expr_errs(*expression) + coerced_type.errs() }
			else { own_errs(primitive_cast_of(*expression, coerced_type, location_of_type)) },
		Expression::LengthOfArray { reference, .. } => ref_errs(reference),
		Expression::SizeOf { queried_type, .. } => queried_type.errs(),
		Expression::FunctionCall { name, builtin: None, arguments, return_type } =>
			if fails(name) || exprs_errs(arguments, arguments@.len()).len() > 0 || exprs_poisoned(arguments, arguments@.len())
				{ name.errs() + exprs_errs(arguments, arguments@.len()) }
			else { match return_type { Some(rt) => rt.errs(), None => seq![Error::AmbiguousType { location: name.location }] } },
		Expression::FunctionCall { name, builtin: Some(_), arguments, return_type } =>
			if exprs_errs(arguments, arguments@.len()).len() > 0 || exprs_poisoned(arguments, arguments@.len()) { exprs_errs(arguments, arguments@.len()) }
			else { match return_type { Some(rt) => rt.errs(), None => seq![Error::AmbiguousType { location: name.location }] } },
		Expression::Poison(p) => poison_errs(p),
	}
}
pub open spec fn exprs_poisoned(v: Vec<Expression>, n: nat) -> bool
	decreases v, n
{
	if n == 0 || n > v@.len() { false } else { exprs_poisoned(v, (n - 1) as nat) || expr_poisoned(v@[n - 1]) }
}
pub open spec fn mexprs_poisoned(v: Vec<MemberExpression>, n: nat) -> bool
	decreases v, n
{
	if n == 0 || n > v@.len() { false } else { mexprs_poisoned(v, (n - 1) as nat) || mexpr_poisoned(v@[n - 1]) }
}
pub open spec fn steps_poisoned(v: Vec<ReferenceStep>, n: nat) -> bool
	decreases v, n
{
	if n == 0 || n > v@.len() { false } else { steps_poisoned(v, (n - 1) as nat) || step_poisoned(v@[n - 1]) }
}
pub open spec fn mexpr_poisoned(m: MemberExpression) -> bool
	decreases m, 0nat
{
	m.name.poisoned() || expr_poisoned(m.expression)
}
pub open spec fn step_poisoned(s: ReferenceStep) -> bool
	decreases s, 0nat
{
	match s { ReferenceStep::Element { argument, .. } => expr_poisoned(*argument), _ => false }
}
pub open spec fn ref_poisoned(r: Reference) -> bool
	decreases r, 0nat
{
	if fails(r.base) { r.base.poisoned() } else { steps_poisoned(r.steps, r.steps@.len()) }
}
pub open spec fn expr_poisoned(e: Expression) -> bool
	decreases e, 0nat
{
	match e {
		Expression::Binary { op, left, right, location_of_op, .. } =>
			if (expr_errs(*left).len() > 0 || expr_poisoned(*left)) || (expr_errs(*right).len() > 0 || expr_poisoned(*right)) { expr_poisoned(*left) || expr_poisoned(*right) } else { own_poisoned(binary_type_of(op, *left, *right, location_of_op)) },
		Expression::Unary { op, expression, location_of_op, .. } =>
			if (expr_errs(*expression).len() > 0 || expr_poisoned(*expression)) { expr_poisoned(*expression) } else { own_poisoned(unary_type_of(op, *expression, location_of_op)) },
		Expression::SignedIntegerLiteral { value_type: Some(vt), .. } => vt.poisoned(),
		Expression::BitIntegerLiteral { value_type: Some(vt), .. } => vt.poisoned(),
		Expression::ArrayLiteral { array, element_type: Some(et) } => exprs_poisoned(array.elements, array.elements@.len()) || et.poisoned(),
		Expression::Structural { members, structural_type, .. } =>
			if fails(structural_type) { structural_type.poisoned() } else { mexprs_poisoned(members, members@.len()) },
		Expression::Parenthesized { inner, .. } => expr_poisoned(*inner),
		Expression::Deref { reference, deref_type } =>
			if (ref_errs(reference).len() > 0 || ref_poisoned(reference)) { ref_poisoned(reference) } else { match deref_type { Some(dt) => dt.poisoned(), None => false } },
		Expression::Autocoerce { expression, coerced_type } => expr_poisoned(*expression) || coerced_type.poisoned(),
		Expression::BitCast { expression, coerced_type, location, location_of_keyword } =>
			if (expr_errs(*expression).len() > 0 || expr_poisoned(*expression)) { expr_poisoned(*expression) } else { own_poisoned(bit_cast_type_of(*expression, coerced_type, location, location_of_keyword)) },
		Expression::TypeCast { expression, coerced_type, location_of_type, .. } =>
			if (expr_errs(*expression).len() > 0 || expr_poisoned(*expression)) || fails(coerced_type) { expr_poisoned(*expression) || coerced_type.poisoned() }
			else { own_poisoned(primitive_cast_of(*expression, coerced_type, location_of_type)) },
		Expression::LengthOfArray { reference, .. } => ref_poisoned(reference),
		Expression::SizeOf { queried_type, .. } => queried_type.poisoned(),
		Expression::FunctionCall { name, builtin: None, arguments, return_type } =>
			if fails(name) || exprs_errs(arguments, arguments@.len()).len() > 0 || exprs_poisoned(arguments, arguments@.len())
				{ name.poisoned() || exprs_poisoned(arguments, arguments@.len()) }
			else { match return_type { Some(rt) => rt.poisoned(), None => false } },
		Expression::FunctionCall { name, builtin: Some(_), arguments, return_type } =>
			if exprs_errs(arguments, arguments@.len()).len() > 0 || exprs_poisoned(arguments, arguments@.len()) { exprs_poisoned(arguments, arguments@.len()) }
			else { match return_type { Some(rt) => rt.poisoned(), None => false } },
		Expression::Poison(p) => p is Poisoned,
		_ => false,
	}
}
// shorthands (outside the recursion)
pub open spec fn expr_fails(e: Expression) -> bool { expr_errs(e).len() > 0 || expr_poisoned(e) }
pub open spec fn ref_fails(r: Reference) -> bool { ref_errs(r).len() > 0 || ref_poisoned(r) }
// what earlier stages guarantee: identifiers scoped, types fully resolved, member offsets computed, a coerced expression typed
pub open spec fn mexpr_pre(m: MemberExpression) -> bool
	decreases m
{
	m.name.pre() && m.offset is Some && expr_pre(m.expression)
}
pub open spec fn step_pre(s: ReferenceStep) -> bool
	decreases s
{
	match s { ReferenceStep::Element { argument, .. } => expr_pre(*argument), ReferenceStep::Member { offset, .. } => offset is Some, _ => true }
}
pub open spec fn ref_pre(r: Reference) -> bool
	decreases r
{
	r.base.pre() && forall|i: int| 0 <= i < r.steps@.len() ==> step_pre(#[trigger] r.steps@[i])
}
pub open spec fn expr_pre(e: Expression) -> bool
	decreases e
{
	match e {
		Expression::Binary { left, right, .. } => expr_pre(*left) && expr_pre(*right),
		Expression::Unary { expression, .. } => expr_pre(*expression),
		Expression::SignedIntegerLiteral { value_type: Some(vt), .. } => vt.pre(),
		Expression::BitIntegerLiteral { value_type: Some(vt), .. } => vt.pre(),
		Expression::ArrayLiteral { array, element_type: Some(et) } => et.pre() && forall|i: int| 0 <= i < array.elements@.len() ==> expr_pre(#[trigger] array.elements@[i]),
		Expression::Structural { members, structural_type, .. } => structural_type.pre() && forall|i: int| 0 <= i < members@.len() ==> mexpr_pre(#[trigger] members@[i]),
		Expression::Parenthesized { inner, .. } => expr_pre(*inner),
		Expression::Deref { reference, deref_type } => ref_pre(reference) && match deref_type { Some(dt) => dt.pre(), None => true },
		Expression::Autocoerce { expression, coerced_type } => expr_pre(*expression) && coerced_type.pre() && recorded_type(*expression) is Some,
		Expression::BitCast { expression, .. } => expr_pre(*expression),
		Expression::TypeCast { expression, coerced_type, .. } => expr_pre(*expression) && coerced_type.pre(),
		Expression::LengthOfArray { reference, .. } => ref_pre(reference),
		Expression::SizeOf { queried_type, .. } => queried_type.pre(),
		Expression::FunctionCall { name, arguments, return_type, .. } => name.pre() && (match return_type { Some(rt) => rt.pre(), None => true })
			&& forall|i: int| 0 <= i < arguments@.len() ==> expr_pre(#[trigger] arguments@[i]),
		_ => true,
	}
}
// links between the folds above and the list functions of the mirror trait
pub proof fn lemma_exprs(v: Vec<Expression>, n: nat)
	requires n <= v@.len(),
	ensures rec_list_errs(v@.take(n as int)) == exprs_errs(v, n), rec_list_poisoned(v@.take(n as int)) == exprs_poisoned(v, n),
	decreases n,
{
	if n > 0 { lemma_exprs(v, (n - 1) as nat); assert(v@.take(n as int).drop_last() =~= v@.take(n - 1)); assert(v@.take(n as int).last() == v@[n - 1]); }
}
pub proof fn lemma_mexprs(v: Vec<MemberExpression>, n: nat)
	requires n <= v@.len(),
	ensures rec_list_errs(v@.take(n as int)) == mexprs_errs(v, n), rec_list_poisoned(v@.take(n as int)) == mexprs_poisoned(v, n),
	decreases n,
{
	if n > 0 { lemma_mexprs(v, (n - 1) as nat); assert(v@.take(n as int).drop_last() =~= v@.take(n - 1)); assert(v@.take(n as int).last() == v@[n - 1]); }
}
pub proof fn lemma_steps(v: Vec<ReferenceStep>, n: nat)
	requires n <= v@.len(),
	ensures rec_list_errs(v@.take(n as int)) == steps_errs(v, n), rec_list_poisoned(v@.take(n as int)) == steps_poisoned(v, n),
	decreases n,
{
	if n > 0 { lemma_steps(v, (n - 1) as nat); assert(v@.take(n as int).drop_last() =~= v@.take(n - 1)); assert(v@.take(n as int).last() == v@[n - 1]); }
}
