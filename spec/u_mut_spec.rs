// ---------------------------------------------------------------------------------------------
// U-MUT ghost specification: the C08 oracle (hand-written, ghost only).
// docs/features.md: views give immutable access only; for mutable access a pointer is needed.  So a write
// through a reference changes the *variable itself* (and needs it to be a `var`) unless the reference passes
// through a pointer: an automatic dereference, or an automatic deslice of an array reached by pointer.
// ---------------------------------------------------------------------------------------------
pub open spec fn through_pointer(s: ReferenceStep) -> bool {
	s is Autoderef || (s is Autodeslice && s->Autodeslice_offset is ArrayByPointer)
}
pub open spec fn passes_through_pointer(steps: Seq<ReferenceStep>) -> bool {
	exists|i: int| 0 <= i < steps.len() && through_pointer(#[trigger] steps[i])
}

// the mutability table: resolution id of a declaration -> (declaring identifier, declared mutable)
pub type Vars = Map<u32, (Identifier, bool)>;

// E530: a known variable that is declared immutable is mutated; unknown identifiers (earlier errors) are poisoned silently;
// already poisoned identifiers pass
pub open spec fn use_variable_spec(vars: Vars, identifier: Poisonable<Identifier>, is_mutated: bool) -> Result<(), Poison> {
	match identifier {
		Err(_) => Ok(()),
		Ok(id) => if !vars.contains_key(id.resolution_id) { Err(Poison::Poisoned) }
			else if is_mutated && !vars[id.resolution_id].1 {
				Err(Poison::Error(Error::NotMutable { location: id.location, location_of_declaration: vars[id.resolution_id].0.location }))
			} else { Ok(()) },
	}
}

// E513 hint "argument is missing `&`": the argument is a plain variable reference whose ADDRESS would fit the parameter:
// the parameter is a pointer to exactly the argument's type, or the address coerces (&array -> slice pointer / pointer to endless array)
pub open spec fn hint_missing_address(argument: Expression, argument_type: ValueType, parameter_type: ValueType) -> bool {
	argument is Deref && (
		(parameter_type is Pointer && value_type::teq(*parameter_type->Pointer_deref_type, argument_type))
		|| value_type::address_coercion(argument_type, parameter_type))
}
