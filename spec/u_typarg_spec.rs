// ---------------------------------------------------------------------------------------------
// U-TYPARG ghost specification (C07): structure literals and call arguments in the typer, stated AS THE PROPERTY DEMANDS,
// on top of spec/u_sym_spec.rs (put_spec / get_spec / keeps / unifies), spec/u_typst_spec.rs (abstract typer state, the
// uninterpreted effects ea_* / ta_* of the sub-expression analysis, etype) and the U-VT relations (teq, coercion).
// ---------------------------------------------------------------------------------------------
pub uninterp spec fn ama_result(a: TState, base: Identifier, access: Identifier) -> Result<usize, Poison>;   // Typer::analyze_member_access
pub uninterp spec fn ama_name(a: TState, base: Identifier, access: Identifier) -> Identifier;

// ---- structure literal `S { m: e, .. }` -------------------------------------------------------------------------------------
pub open spec fn sid_of(t: ValueType) -> Identifier {
	match t { ValueType::Struct { identifier } => identifier, ValueType::Word { identifier, .. } => identifier, _ => arbitrary() }
}
// one member: the member is looked up in the structure, its DECLARED type (what the table records for it) is the hint for
// the value, and the type of the analysed value is UNIFIED with it through the symbol table, as a mention of the member -
// exactly what a declaration `var m: T = e` does.  A value whose type does not unify is replaced by the E500 poison.
pub struct MemberRun {
	pub name: Poisonable<Identifier>, pub offset: Option<usize>,
	pub hint: Option<Poisonable<ValueType>>,
	pub e1: Expression, pub a1: TState,
	pub unified: bool, pub put: (SymTab, Result<(), Error>),
}
pub open spec fn member_run(m: MemberExpression, sid: Identifier, a: TState) -> MemberRun {
	let found = m.name is Ok;
	let n1 = ama_name(a, sid, m.name->Ok_0);
	let off = ama_result(a, sid, m.name->Ok_0);
	let name = if !found { m.name } else if off is Ok { Ok(n1) } else { Err(off->Err_0) };
	let offset = if found && off is Ok { Some(off->Ok_0) } else { None };
	let hint = if found { get_spec(a.symbols, n1) } else { None };
	let a0 = with_ctx(a, hint);
	let e1 = ea_result(m.expression, a0);
	let a1 = ea_state(m.expression, a0);
	let unified = name is Ok && typed(etype(e1));
	MemberRun { name, offset, hint, e1, a1, unified, put: put_spec(a1.symbols, mention(name->Ok_0), etype(e1)) }
}
pub open spec fn member_out(r: MemberRun) -> MemberExpression {
	MemberExpression { name: r.name, offset: r.offset,
		expression: if r.unified && r.put.1 is Err { Expression::Poison(Poison::Error(r.put.1->Err_0)) } else { r.e1 } }
}
pub open spec fn member_state(r: MemberRun) -> TState { if r.unified { with_symbols(r.a1, r.put.0) } else { r.a1 } }
pub open spec fn sfold(ms: Seq<MemberExpression>, sid: Identifier, k: int, a: TState) -> (Seq<MemberExpression>, TState)
	decreases k
{
	if k <= 0 { (Seq::empty(), a) } else {
		let p = sfold(ms, sid, k - 1, a);
		let r = member_run(ms[k - 1], sid, p.1);
		(p.0.push(member_out(r)), member_state(r))
	}
}
// consequences per member, in the vocabulary of U-SYM: accepted only if the types unify
pub open spec fn member_accepted_only_if_unifies(r: MemberRun) -> bool {
	r.unified && recorded_typed(r.a1.symbols, r.name->Ok_0) && member_out(r).expression == r.e1
		==> keeps(recorded_type(r.a1.symbols, r.name->Ok_0), etype(r.e1)->Some_0->Ok_0) || unifies_with_recorded(r.a1.symbols, mention(r.name->Ok_0), etype(r.e1)->Some_0->Ok_0)
}

// ---- call arguments -----------------------------------------------------------------------------------------------------------
// the only thing this layer may do to an analysed argument: wrap it in an automatic coercion to the parameter type, and only
// when its type is not the parameter type already and `coercion` (U-VT: array -> slice / view, slice pointer -> pointer to
// endless array, struct -> view) relates the two
pub open spec fn coerce_arg(e: Expression, h: Option<Poisonable<ValueType>>) -> Expression {
	if typed(etype(e)) && typed(h) && !value_type::teq(etype(e)->Some_0->Ok_0, h->Some_0->Ok_0) && value_type::coercion(etype(e)->Some_0->Ok_0, h->Some_0->Ok_0) {
		Expression::Autocoerce { expression: Box::new(e), coerced_type: h->Some_0->Ok_0 }
	} else { e }
}
pub open spec fn afold(args: Seq<Expression>, h: Hints, k: int, a: TState) -> (Seq<Expression>, TState)
	decreases k
{
	if k <= 0 { (Seq::empty(), a) } else {
		let p = afold(args, h, k - 1, a);
		let a0 = with_ctx(p.1, hint(h, k - 1));
		(p.0.push(coerce_arg(ea_result(args[k - 1], a0), hint(h, k - 1))), ea_state(args[k - 1], a0))
	}
}
// the hints of a call: the declared parameter types of the callee in order, the silent poison for every excess argument;
// no hints at all for an undeclared callee
pub open spec fn hints_of(fns: Map<u32, Function>, id: Identifier) -> Hints {
	Hints { head: if fns.contains_key(id.resolution_id) { fns[id.resolution_id].parameter_types@ } else { Seq::empty() }, rest: Some(Err(Poison::Poisoned)) }
}
pub open spec fn no_hints() -> Hints { Hints { head: Seq::empty(), rest: None } }
pub open spec fn shifted(h: Hints, n: int) -> Hints { Hints { head: if n <= h.head.len() { h.head.subrange(n, h.head.len() as int) } else { Seq::empty() }, rest: h.rest } }

// THEOREM: a documented coercion never changes the number of address levels
pub proof fn theorem_coercion_keeps_address_depth(a: ValueType, b: ValueType)
	requires value_type::coercion(a, b),
	ensures value_type::pdepth(a) == value_type::pdepth(b),
{
	reveal_with_fuel(value_type::pdepth, 3);
}
// THEOREM: what this layer returns for an argument reports the parameter type only if the analysed argument had it already
// or a documented coercion relates the two - every other mismatch is left standing for function_calls.rs (E512 / E513)
pub proof fn theorem_argument_type_only_changed_by_coercion(e: Expression, h: Option<Poisonable<ValueType>>)
	ensures coerce_arg(e, h) == e || (coerce_arg(e, h) is Autocoerce && typed(etype(e)) && typed(h)
		&& value_type::coercion(etype(e)->Some_0->Ok_0, h->Some_0->Ok_0) && etype(coerce_arg(e, h)) == Some(Ok::<ValueType, Poison>(h->Some_0->Ok_0))
		&& value_type::pdepth(etype(e)->Some_0->Ok_0) == value_type::pdepth(h->Some_0->Ok_0)),
{
	if coerce_arg(e, h) != e { theorem_coercion_keeps_address_depth(etype(e)->Some_0->Ok_0, h->Some_0->Ok_0); }
}
