// C12 oracle, written from the property statement ("importing a file makes exactly its `pub` functions (as
// signatures), constants and structures visible, never its private items and never items it imported itself"),
// not from the code of expander.rs.

// flags \ {Public}
pub open spec fn without_public(f: EnumSet<DeclarationFlag>, g: EnumSet<DeclarationFlag>) -> bool {
	g@ == f@.remove(DeclarationFlag::Public)
}

// the flag set of the kinds of declaration that can be part of a public interface at all
pub open spec fn interface_flags(d: Declaration) -> Option<EnumSet<DeclarationFlag>> {
	match d {
		Declaration::Constant { flags, .. } => Some(flags),
		Declaration::Function { flags, .. } => Some(flags),
		Declaration::FunctionHead { flags, .. } => Some(flags),
		Declaration::Structure { flags, .. } => Some(flags),
		Declaration::Import { .. } => None,
		Declaration::Poison(_) => None,
	}
}

// d is a `pub` constant / function / function head / structure
pub open spec fn is_public_item(d: Declaration) -> bool {
	interface_flags(d) is Some && interface_flags(d).unwrap()@.contains(DeclarationFlag::Public)
}

// x is what an importer sees of d: same kind, except that a function is seen as its signature (a FunctionHead has
// no body), and every field other than `flags` is unchanged
pub open spec fn same_item_as_signature(d: Declaration, x: Declaration) -> bool {
	match (d, x) {
		(
			Declaration::Constant { name, value, value_type, flags, depth, location_of_declaration, location_of_type },
			Declaration::Constant { name: n2, value: v2, value_type: t2, flags: f2, depth: d2, location_of_declaration: l2, location_of_type: lt2 },
		) => n2 == name && v2 == value && t2 == value_type && d2 == depth && l2 == location_of_declaration && lt2 == location_of_type,
		(
			Declaration::Function { name, parameters, body, return_type, flags, location_of_declaration, location_of_return_type },
			Declaration::FunctionHead { name: n2, parameters: p2, return_type: t2, flags: f2, location_of_declaration: l2, location_of_return_type: lr2 },
		) => n2 == name && p2@ == parameters@ && t2 == return_type && l2 == location_of_declaration && lr2 == location_of_return_type,
		(
			Declaration::FunctionHead { name, parameters, return_type, flags, location_of_declaration, location_of_return_type },
			Declaration::FunctionHead { name: n2, parameters: p2, return_type: t2, flags: f2, location_of_declaration: l2, location_of_return_type: lr2 },
		) => n2 == name && p2@ == parameters@ && t2 == return_type && l2 == location_of_declaration && lr2 == location_of_return_type,
		(
			Declaration::Structure { name, members, structural_type, flags, depth, location_of_declaration },
			Declaration::Structure { name: n2, members: m2, structural_type: t2, flags: f2, depth: d2, location_of_declaration: l2 },
		) => n2 == name && m2@ == members@ && t2 == structural_type && d2 == depth && l2 == location_of_declaration,
		_ => false,
	}
}

// the exported item carries the original flags minus Public
pub open spec fn public_cleared(d: Declaration, x: Declaration) -> bool {
	interface_flags(d) is Some && interface_flags(x) is Some
	&& without_public(interface_flags(d).unwrap(), interface_flags(x).unwrap())
}

// non-vacuity of the oracle: a public item and a private item both exist in the model
pub proof fn witness_oracle_not_vacuous(c: Declaration, s: Set<DeclarationFlag>)
	requires c is Constant,
{
	assert(interface_flags(c) is Some);
	assert(s.insert(DeclarationFlag::Public).contains(DeclarationFlag::Public));
	assert(!(s.remove(DeclarationFlag::Public).contains(DeclarationFlag::Public)));
}

// trusted: the derived Clone of Declaration is the identity (not called by the pinned code; present so that a change
// that clones a whole declaration is judged by the contracts instead of being rejected by the type checker)
impl Clone for Declaration { #[verifier::external_body] fn clone(&self) -> (r: Self) ensures r == *self { unimplemented!() } }
