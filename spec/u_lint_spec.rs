// ---------------------------------------------------------------------------------------------
// U-LINT ghost specification: the lint half of C06, written from the property statement
//   "A braced branch whose first statement is `loop` is accepted but always raises lint L1800,
//    and nothing else does."                                  (L1800 == Lint::LoopAsFirstStatement)
//
//   l1800(b, nb)   the block b is the braced then/else branch of an `if` (nb = Some(where its condition is))
//                  and its first statement is `loop`
//   exp_s / exp_b / exp_f / exp_d : the L1800 lints a statement / block / function body / declaration must
//                  produce, in traversal order (then-branch before else-branch, statements first to last)
//   loops_of(l)    the subsequence of LoopAsFirstStatement entries of a lint list
//   contract of every `lint`:   loops_of(lints after) == loops_of(lints before) ++ expected
//
// Context = the two Option fields of the Linter at the moment of the call (the mechanism the property names):
//   is_naked_branch = Some(n)              "the statement linted next is directly the branch of an if; n = its condition"
//   is_first_statement_of_branch = Some(b) "the statement linted next is the first statement of a braced branch b"
// ---------------------------------------------------------------------------------------------
pub open spec fn loops_of(l: Seq<Lint>) -> Seq<Lint>
	decreases l.len()
{
	if l.len() == 0 { Seq::empty() } else {
		let r = loops_of(l.drop_last());
		if l.last() is LoopAsFirstStatement { r.push(l.last()) } else { r }
	}
}

// ---- the oracle
pub open spec fn l1800(b: Block, nb: Option<NakedBranch>) -> bool {
	nb is Some && b.statements@.len() > 0 && b.statements@[0] is Loop
}
// payload: the loop, the condition that guards the branch (for an else branch: the `else`), the braced block
pub open spec fn lint1800(b: Block, nb: Option<NakedBranch>) -> Lint {
	Error::LoopAsFirstStatement {
		location_of_loop: b.statements@[0]->Loop_location,
		location_of_condition: nb->0.location_of_condition,
		location_of_block: b.location,
	}
}
pub open spec fn then_ctx(c: Comparison) -> Option<NakedBranch> { Some(NakedBranch { location_of_condition: c.location }) }
pub open spec fn else_ctx(e: Else) -> Option<NakedBranch> { Some(NakedBranch { location_of_condition: e.location_of_else }) }

// statement s; nb is Some iff s stands directly as the branch of an if
pub open spec fn exp_s(s: Statement, nb: Option<NakedBranch>) -> Seq<Lint>
	decreases s, 0int
{
	match s {
		Statement::If { condition, then_branch, else_branch, location } =>
			exp_s(*then_branch, then_ctx(condition)) + (match else_branch {
				Some(e) => exp_s(*e.branch, else_ctx(e)),
				None => Seq::empty(),
			}),
		Statement::Block(b) => exp_b(b, nb),
		_ => Seq::empty(),
	}
}
pub open spec fn exp_b(b: Block, nb: Option<NakedBranch>) -> Seq<Lint>
	decreases b, b.statements@.len() + 1
{
	exp_head(b, nb) + exp_upto(b, b.statements@.len() as int)
}
pub open spec fn exp_head(b: Block, nb: Option<NakedBranch>) -> Seq<Lint> {
	if l1800(b, nb) { seq![lint1800(b, nb)] } else { Seq::empty() }
}
// statements 0..k of block b (none of them is the branch of an if)
pub open spec fn exp_upto(b: Block, k: int) -> Seq<Lint>
	decreases b, k
{
	if 0 < k <= b.statements@.len() { exp_upto(b, k - 1) + exp_s(b.statements@[k - 1], None) } else { Seq::empty() }
}
pub open spec fn exp_f_upto(f: FunctionBody, k: int) -> Seq<Lint>
	decreases k
{
	if 0 < k <= f.statements@.len() { exp_f_upto(f, k - 1) + exp_s(f.statements@[k - 1], None) } else { Seq::empty() }
}
pub open spec fn exp_f(f: FunctionBody) -> Seq<Lint> { exp_f_upto(f, f.statements@.len() as int) }
pub open spec fn exp_d(d: Declaration) -> Seq<Lint> {
	match d {
		Declaration::Function { body: Ok(body), .. } => exp_f(body),
		_ => Seq::empty(),
	}
}
// the same oracle seen from inside the branch block: the first statement of a braced branch raises L1800 iff it is `loop`
pub open spec fn exp_ctx(s: Statement, nb: Option<NakedBranch>, fs: Option<Branch>) -> Seq<Lint> {
	if s is Loop && fs is Some {
		seq![Error::LoopAsFirstStatement {
			location_of_loop: s->Loop_location,
			location_of_condition: fs->0.location_of_condition,
			location_of_block: fs->0.location_of_block,
		}]
	} else { exp_s(s, nb) }
}

// ---- the flag protocol
pub open spec fn idle(l: Linter) -> bool { l.is_naked_branch is None && l.is_first_statement_of_branch is None }
// linting never switches a flag on (it may consume one)
pub open spec fn mono(l0: Linter, l1: Linter) -> bool {
	(l1.is_naked_branch is Some ==> l1.is_naked_branch == l0.is_naked_branch)
	&& (l1.is_first_statement_of_branch is Some ==> l1.is_first_statement_of_branch == l0.is_first_statement_of_branch)
}
// exactly which statements consume which flag: an `if` and a non-empty block reset both, a `loop` consumes "first statement of branch"
pub open spec fn consumes_nb(s: Statement) -> bool { s is If || (s is Block && s->Block_0.statements@.len() > 0) }
pub open spec fn consumes_fs(s: Statement) -> bool { consumes_nb(s) || s is Loop }
pub open spec fn flags_s(s: Statement, l0: Linter, l1: Linter) -> bool {
	&&& l1.is_naked_branch == (if consumes_nb(s) { None } else { l0.is_naked_branch })
	&&& l1.is_first_statement_of_branch == (if consumes_fs(s) { None } else { l0.is_first_statement_of_branch })
}
pub open spec fn flags_b(b: Block, l0: Linter, l1: Linter) -> bool {
	if b.statements@.len() > 0 { idle(l1) } else { same_flags(l0, l1) }
}
pub open spec fn same_flags(l0: Linter, l1: Linter) -> bool {
	l1.is_naked_branch == l0.is_naked_branch && l1.is_first_statement_of_branch == l0.is_first_statement_of_branch
}
// ---- frame: lints are only ever appended, and these impls append nothing but L1800 / L1142
pub open spec fn appended(l0: Seq<Lint>, l1: Seq<Lint>) -> bool {
	&&& l0.len() <= l1.len()
	&&& forall|i: int| 0 <= i < l0.len() ==> #[trigger] l1[i] == l0[i]
	&&& forall|i: int| l0.len() <= i < l1.len() ==> ((#[trigger] l1[i]) is LoopAsFirstStatement || l1[i] is IntegerLiteralTruncation)
}
pub open spec fn appended_only_trunc(l0: Seq<Lint>, l1: Seq<Lint>) -> bool {
	&&& l0.len() <= l1.len()
	&&& forall|i: int| 0 <= i < l0.len() ==> #[trigger] l1[i] == l0[i]
	&&& forall|i: int| l0.len() <= i < l1.len() ==> (#[trigger] l1[i]) is IntegerLiteralTruncation
}
// what every impl promises (the trait-level postcondition is `self.post(..)`)
pub open spec fn lint_post(l0: Linter, l1: Linter, expected: Seq<Lint>) -> bool {
	&&& mono(l0, l1)
	&&& appended(l0.lints@, l1.lints@)
	&&& loops_of(l1.lints@) =~= loops_of(l0.lints@) + expected
}
// expressions: no L1800, flags untouched
pub open spec fn expr_post(l0: Linter, l1: Linter) -> bool {
	same_flags(l0, l1) && appended_only_trunc(l0.lints@, l1.lints@)
}

// ---- lemmas about loops_of
pub proof fn lemma_loops_push(l: Seq<Lint>, x: Lint)
	ensures loops_of(l.push(x)) == (if x is LoopAsFirstStatement { loops_of(l).push(x) } else { loops_of(l) }),
{
	assert(l.push(x).drop_last() =~= l);
}
pub proof fn lemma_only_trunc(l0: Seq<Lint>, l1: Seq<Lint>)
	requires appended_only_trunc(l0, l1),
	ensures loops_of(l1) == loops_of(l0), appended(l0, l1),
	decreases l1.len()
{
	if l1.len() > l0.len() {
		let p = l1.drop_last();
		assert(appended_only_trunc(l0, p));
		lemma_only_trunc(l0, p);
		assert(l1.last() == l1[l1.len() - 1]);
	} else {
		assert(l1 =~= l0);
	}
}

// ---- what the oracle says, spelled out (sanity of the spec against the property text)
// `if c { loop; .. }`: exactly one L1800 for this block, with the loop / condition / block locations
proof fn lemma_braced_then_branch_starting_with_loop(s: Statement, nb: Option<NakedBranch>)
	requires s is If, *s->If_then_branch is Block,
		(*s->If_then_branch)->Block_0.statements@.len() > 0, (*s->If_then_branch)->Block_0.statements@[0] is Loop,
	ensures ({ let b = (*s->If_then_branch)->Block_0;
		exp_s(s, nb).len() >= 1 && exp_s(s, nb)[0] == (Error::LoopAsFirstStatement {
			location_of_loop: b.statements@[0]->Loop_location, location_of_condition: s->If_condition.location, location_of_block: b.location }) }),
{
	reveal_with_fuel(exp_s, 2);
	let b = (*s->If_then_branch)->Block_0;
	let c = then_ctx(s->If_condition);
	assert(l1800(b, c));
	assert(exp_head(b, c) == seq![lint1800(b, c)]);
	assert(exp_b(b, c)[0] == lint1800(b, c));
}
// `if c {..} else { loop; .. }`: the else block raises L1800 pointing at the `else`
proof fn lemma_braced_else_branch_starting_with_loop(s: Statement, nb: Option<NakedBranch>)
	requires s is If, s->If_else_branch is Some, *s->If_else_branch->0.branch is Block,
		(*s->If_else_branch->0.branch)->Block_0.statements@.len() > 0, (*s->If_else_branch->0.branch)->Block_0.statements@[0] is Loop,
	ensures ({ let b = (*s->If_else_branch->0.branch)->Block_0; let t = exp_s(*s->If_then_branch, then_ctx(s->If_condition));
		exp_s(s, nb).len() > t.len() && exp_s(s, nb)[t.len() as int] == (Error::LoopAsFirstStatement {
			location_of_loop: b.statements@[0]->Loop_location, location_of_condition: s->If_else_branch->0.location_of_else, location_of_block: b.location }) }),
{
	reveal_with_fuel(exp_s, 2);
	let b = (*s->If_else_branch->0.branch)->Block_0;
	let c = else_ctx(s->If_else_branch->0);
	assert(l1800(b, c));
	assert(exp_head(b, c) == seq![lint1800(b, c)]);
	assert(exp_b(b, c)[0] == lint1800(b, c));
}
// nothing else does: a loop that is not the first statement of a braced branch, a naked `if c loop`, a plain block `{ loop }`
proof fn lemma_nothing_else(s: Statement, b: Block, nb: Option<NakedBranch>)
	ensures
		s is Loop ==> exp_s(s, nb).len() == 0,
		(s is If && *s->If_then_branch is Loop && s->If_else_branch is None) ==> exp_s(s, nb).len() == 0,
		exp_head(b, None).len() == 0,
		(b.statements@.len() > 0 && !(b.statements@[0] is Loop)) ==> exp_head(b, nb).len() == 0,
		b.statements@.len() == 0 ==> exp_b(b, nb).len() == 0,
{
	reveal_with_fuel(exp_s, 2);
}
// every expected lint is an L1800 (so the oracle speaks about L1800 only)
pub open spec fn all_loops(l: Seq<Lint>) -> bool { forall|i: int| 0 <= i < l.len() ==> (#[trigger] l[i]) is LoopAsFirstStatement }
proof fn lemma_all_loops_add(a: Seq<Lint>, b: Seq<Lint>)
	requires all_loops(a), all_loops(b),
	ensures all_loops(a + b),
{
	assert forall|i: int| 0 <= i < (a + b).len() implies (#[trigger] (a + b)[i]) is LoopAsFirstStatement by {
		if i < a.len() { assert(a[i] is LoopAsFirstStatement); } else { assert(b[i - a.len()] is LoopAsFirstStatement); }
	}
}
proof fn lemma_expected_are_loops_s(s: Statement, nb: Option<NakedBranch>)
	ensures all_loops(exp_s(s, nb)),
	decreases s, 0int
{
	match s {
		Statement::If { condition, then_branch, else_branch, location } => {
			lemma_expected_are_loops_s(*then_branch, then_ctx(condition));
			match else_branch {
				Some(e) => {
					lemma_expected_are_loops_s(*e.branch, else_ctx(e));
					lemma_all_loops_add(exp_s(*then_branch, then_ctx(condition)), exp_s(*e.branch, else_ctx(e)));
				},
				None => { lemma_all_loops_add(exp_s(*then_branch, then_ctx(condition)), Seq::<Lint>::empty()); },
			}
		},
		Statement::Block(b) => {
			lemma_expected_are_loops_upto(b, b.statements@.len() as int);
			assert(all_loops(exp_head(b, nb))) by { if l1800(b, nb) { assert(seq![lint1800(b, nb)][0] is LoopAsFirstStatement); } }
			lemma_all_loops_add(exp_head(b, nb), exp_upto(b, b.statements@.len() as int));
			assert(all_loops(exp_b(b, nb)));
		},
		_ => { assert(exp_s(s, nb) =~= Seq::<Lint>::empty()); },
	}
}
proof fn lemma_expected_are_loops_upto(b: Block, k: int)
	ensures all_loops(exp_upto(b, k)),
	decreases b, k
{
	if 0 < k <= b.statements@.len() {
		lemma_expected_are_loops_upto(b, k - 1);
		lemma_expected_are_loops_s(b.statements@[k - 1], None);
		lemma_all_loops_add(exp_upto(b, k - 1), exp_s(b.statements@[k - 1], None));
	}
}

// `impl From<Linter> for Vec<Lint>`: vstd's From contract is stated through FromSpec
impl vstd::std_specs::convert::FromSpecImpl<Linter> for Vec<Lint> {
	open spec fn obeys_from_spec() -> bool { true }
	open spec fn from_spec(v: Linter) -> Self { v.lints }
}

// ---- trusted: #[derive(Default)] on Linter gives no lints and both flags off
pub assume_specification[ <Linter as core::default::Default>::default ]() -> (r: Linter)
	ensures r.lints@.len() == 0 && idle(r);

// ---- trusted: derived Clone of Identifier is the identity (only needed as supertrait of value_type::Identifier; same as spec/ast_common_spec.rs)
impl Clone for Identifier { #[verifier::external_body] fn clone(&self) -> (r: Self) ensures r == *self { unimplemented!() } }
// the sliced `impl PartialEq for Identifier` (needed as supertrait only, never called by the linter) is given no spec: obeys_eq_spec == false
impl vstd::std_specs::cmp::PartialEqSpecImpl for Identifier {
	open spec fn obeys_eq_spec() -> bool { false }
	open spec fn eq_spec(&self, other: &Self) -> bool { true }
}

// ---------------------------------------------------------------------------------------------
// C09, range arms of the linter: "a value outside the range of its type always raises the truncation lint
// L1142 while in-range values never do".   Range of a type, from its width and signedness
// (bits / signed / pow2: the same definitions as in spec/u_vt_spec.rs, against which min_i128 / max_u128 are verified):
// ---------------------------------------------------------------------------------------------
pub open spec fn bits<I: value_type::Identifier>(t: value_type::ValueType<I>) -> nat {
	match t {
		value_type::ValueType::Int8 | value_type::ValueType::Uint8 | value_type::ValueType::Char8 => 8,
		value_type::ValueType::Int16 | value_type::ValueType::Uint16 => 16,
		value_type::ValueType::Int32 | value_type::ValueType::Uint32 => 32,
		value_type::ValueType::Int64 | value_type::ValueType::Uint64 | value_type::ValueType::Usize
			| value_type::ValueType::Pointer { .. } | value_type::ValueType::View { .. } => 64,
		value_type::ValueType::Int128 | value_type::ValueType::Uint128 => 128,
		_ => 0,
	}
}
pub open spec fn signed<I: value_type::Identifier>(t: value_type::ValueType<I>) -> bool {
	t is Int8 || t is Int16 || t is Int32 || t is Int64 || t is Int128
}
pub open spec fn pow2(n: nat) -> int decreases n { if n == 0 { 1 } else { 2 * pow2((n - 1) as nat) } }
pub proof fn lemma_pow2_values()
	ensures pow2(7) == 0x80, pow2(8) == 0x100, pow2(15) == 0x8000, pow2(16) == 0x10000, pow2(31) == 0x8000_0000, pow2(32) == 0x1_0000_0000,
		pow2(63) == 0x8000_0000_0000_0000, pow2(64) == 0x1_0000_0000_0000_0000,
		pow2(127) == 0x8000_0000_0000_0000_0000_0000_0000_0000, pow2(128) == 0x1_0000_0000_0000_0000_0000_0000_0000_0000,
{
	reveal_with_fuel(pow2, 33);
	assert(pow2(32) == 0x1_0000_0000);
	lemma_pow2_add(32, 31); lemma_pow2_add(32, 32); lemma_pow2_add(64, 63); lemma_pow2_add(64, 64);
	assert(pow2(63) == 0x1_0000_0000 * 0x8000_0000);
	assert(pow2(64) == 0x1_0000_0000 * 0x1_0000_0000);
	assert(pow2(127) == 0x1_0000_0000_0000_0000 * 0x8000_0000_0000_0000) by { assert(pow2(127) == pow2(64) * pow2(63)); }
	assert(pow2(128) == 0x1_0000_0000_0000_0000 * 0x1_0000_0000_0000_0000) by { assert(pow2(128) == pow2(64) * pow2(64)); }
}
proof fn lemma_pow2_add(a: nat, b: nat)
	ensures pow2(a + b) == pow2(a) * pow2(b)
	decreases b
{
	if b == 0 { } else {
		lemma_pow2_add(a, (b - 1) as nat);
		assert(pow2(a + b) == 2 * pow2((a + b - 1) as nat));
		assert(2 * (pow2(a) * pow2((b - 1) as nat)) == pow2(a) * (2 * pow2((b - 1) as nat))) by (nonlinear_arith);
	}
}
// the representable range of a type: two's complement if signed, else 0 .. 2^bits - 1 (non-integer types: only 0)
pub open spec fn type_min(t: ValueType) -> int { if signed(t) { -pow2((bits(t) - 1) as nat) } else { 0 } }
pub open spec fn type_max(t: ValueType) -> int {
	if signed(t) { pow2((bits(t) - 1) as nat) - 1 } else if bits(t) > 0 { pow2(bits(t)) - 1 } else { 0 }
}
pub open spec fn in_range(v: int, t: ValueType) -> bool { type_min(t) <= v <= type_max(t) }
pub proof fn lemma_range_straddles_zero(t: ValueType)
	ensures type_min(t) <= 0 <= type_max(t),
{
	lemma_pow2_values();
}
pub open spec fn l1142(t: ValueType, location: Location) -> Lint {
	Error::IntegerLiteralTruncation { value_type: t, location_of_literal: location }
}
// a literal of value v whose type has been resolved to t: L1142 iff v is outside the range of t
pub open spec fn trunc_lit(v: int, vt: Option<Poisonable<ValueType>>, location: Location) -> Seq<Lint> {
	match vt {
		Some(Ok(t)) => if in_range(v, t) { Seq::empty() } else { seq![l1142(t, location)] },
		_ => Seq::empty(),
	}
}
// sub-expressions held in a Vec (array elements, structure members, call arguments)
pub open spec fn n_kids(e: Expression) -> int {
	match e {
		Expression::ArrayLiteral { array, .. } => array.elements@.len() as int,
		Expression::Structural { members, .. } => members@.len() as int,
		Expression::FunctionCall { arguments, .. } => arguments@.len() as int,
		_ => 0,
	}
}
pub open spec fn kid(e: Expression, i: int) -> Expression {
	match e {
		Expression::ArrayLiteral { array, .. } => array.elements@[i],
		Expression::Structural { members, .. } => members@[i].expression,
		Expression::FunctionCall { arguments, .. } => arguments@[i],
		_ => e,
	}
}
// the L1142 lints of an expression tree, in traversal order (left to right)
pub open spec fn trunc_e(e: Expression) -> Seq<Lint>
	decreases e, n_kids(e) + 1
{
	match e {
		Expression::Binary { left, right, .. } => trunc_e(*left) + trunc_e(*right),
		Expression::Unary { expression, .. } => trunc_e(*expression),
		Expression::SignedIntegerLiteral { value, value_type, location } => trunc_lit(value as int, value_type, location),
		Expression::BitIntegerLiteral { value, value_type, location } => trunc_lit(value as int, value_type, location),
		Expression::ArrayLiteral { .. } => trunc_kids(e, n_kids(e)),
		Expression::Structural { .. } => trunc_kids(e, n_kids(e)),
		Expression::FunctionCall { .. } => trunc_kids(e, n_kids(e)),
		Expression::Parenthesized { inner, .. } => trunc_e(*inner),
		Expression::Autocoerce { expression, .. } => trunc_e(*expression),
		Expression::BitCast { expression, .. } => trunc_e(*expression),
		Expression::TypeCast { expression, .. } => trunc_e(*expression),
		Expression::Deref { reference, .. } => trunc_r(reference),
		Expression::LengthOfArray { reference, .. } => trunc_r(reference),
		_ => Seq::empty(),
	}
}
pub open spec fn trunc_kids(e: Expression, k: int) -> Seq<Lint>
	decreases e, k
{
	if 0 < k <= n_kids(e) { trunc_kids(e, k - 1) + trunc_e(kid(e, k - 1)) } else { Seq::empty() }
}
pub open spec fn trunc_r(r: Reference) -> Seq<Lint>
	decreases r, r.steps@.len() + 1
{
	trunc_steps(r, r.steps@.len() as int)
}
pub open spec fn trunc_steps(r: Reference, k: int) -> Seq<Lint>
	decreases r, k
{
	if 0 < k <= r.steps@.len() { trunc_steps(r, k - 1) + trunc_step(r.steps@[k - 1]) } else { Seq::empty() }
}
pub open spec fn trunc_step(s: ReferenceStep) -> Seq<Lint>
	decreases s, 0int
{
	match s {
		ReferenceStep::Element { argument, .. } => trunc_e(*argument),
		_ => Seq::empty(),
	}
}
// sanity of the oracle against the property text
proof fn lemma_out_of_range_always_in_range_never(v: int, t: ValueType, location: Location)
	ensures
		!in_range(v, t) ==> trunc_lit(v, Some(Ok(t)), location) =~= seq![l1142(t, location)],
		in_range(v, t) ==> trunc_lit(v, Some(Ok(t)), location).len() == 0,
		t is Uint8 ==> (in_range(v, t) <==> 0 <= v <= 255),
		t is Int8 ==> (in_range(v, t) <==> -128 <= v <= 127),
		t is Int128 ==> (in_range(v, t) <==> i128::MIN <= v <= i128::MAX),
		t is Uint128 ==> (in_range(v, t) <==> 0 <= v <= u128::MAX),
{
	lemma_pow2_values();
}
