// ---------------------------------------------------------------------------------------------
// U-TYPST ghost specification (C07): the statement layer of the typer - declarations and assignments - on top of
// the symbol-table oracle of U-SYM (spec/u_sym_spec.rs: keeps / unifies / put_spec / get_spec) and the U-VT relations.
//
// The sub-expression analysis (Expression::analyze and friends) is NOT under contract: its effect is named by
// uninterpreted functions of the ABSTRACT typer state (the views of the four tables + the contextual type):
//   X_result(node, state)  the node returned      X_state(node, state)  the state left behind
// so that the oracle can say WHICH state each callee is run in (e.g. "the value is analysed with the declared type as
// its hint") and WHAT is done with what it returns, without saying anything about the callee itself.
// ---------------------------------------------------------------------------------------------
pub struct TState {
	pub symbols: SymTab,
	pub functions: Map<u32, Function>,
	pub structures: Map<u32, Structure>,
	pub lengths: Map<u32, usize>,
	pub ctx: Option<Poisonable<ValueType>>,
}
pub open spec fn abs(t: Typer) -> TState {
	TState { symbols: t.symbols@, functions: t.functions@, structures: t.structures@, lengths: t.calculated_named_lengths@, ctx: t.contextual_type }
}
pub open spec fn with_ctx(a: TState, c: Option<Poisonable<ValueType>>) -> TState { TState { ctx: c, ..a } }
pub open spec fn with_symbols(a: TState, tab: SymTab) -> TState { TState { symbols: tab, ..a } }

// effects of the callees that stay outside contracts (assumed deterministic in the abstract state; nothing else is assumed
// about them except the three thin facts below)
pub uninterp spec fn ea_result(e: Expression, a: TState) -> Expression;           // Expression::analyze
pub uninterp spec fn ea_state(e: Expression, a: TState) -> TState;
pub uninterp spec fn ta_result(t: Poisonable<ValueType>, a: TState) -> Poisonable<ValueType>;   // Poisonable<ValueType>::analyze (analyze_type)
pub uninterp spec fn ta_state(t: Poisonable<ValueType>, a: TState) -> TState;
pub uninterp spec fn gtr_type(r: Reference, a: TState) -> Option<Poisonable<ValueType>>;        // Typer::get_type_of_reference
pub uninterp spec fn gtr_ref(r: Reference, a: TState) -> Reference;
pub uninterp spec fn rs_result(s: ReferenceStep, a: TState) -> ReferenceStep;     // ReferenceStep::analyze
pub uninterp spec fn rs_state(s: ReferenceStep, a: TState) -> TState;
pub uninterp spec fn as_steps(base_type: ValueType, steps: Seq<ReferenceStep>, address_depth: u8, a: TState) -> (Seq<ReferenceStep>, u8);  // analyze_assignment_steps

// thin fact 1 (assumed of every callee, proved of the sliced code): every type in the symbol table is well formed
pub open spec fn tab_wf(tab: SymTab) -> bool {
	forall|k: u32| tab.contains_key(k) && (#[trigger] tab[k]).value_type is Ok ==> value_type::wf(tab[k].value_type->Ok_0)
}
// thin fact 2 (assumed of Expression::analyze and analyze_type): a type they report is well formed
pub open spec fn opt_wf(t: Option<Poisonable<ValueType>>) -> bool { typed(t) ==> value_type::wf(t->Some_0->Ok_0) }
// thin fact 3 (assumed of Expression::analyze): an expression that reports a type has a location (it is not an automatic
// coercion wrapped around a poisoned expression; Expression::location is unreachable!() there)
pub open spec fn loc_ok(e: Expression) -> bool
	decreases e
{
	match e {
		Expression::Autocoerce { expression, .. } => loc_ok(*expression),
		Expression::Poison(_) => false,
		_ => true,
	}
}
pub open spec fn eloc(e: Expression) -> Location
	decreases e
{
	match e {
		Expression::Binary { location, .. } => location,
		Expression::Unary { location, .. } => location,
		Expression::BooleanLiteral { location, .. } => location,
		Expression::SignedIntegerLiteral { location, .. } => location,
		Expression::BitIntegerLiteral { location, .. } => location,
		Expression::StringLiteral { location, .. } => location,
		Expression::ArrayLiteral { array, .. } => array.location,
		Expression::Structural { location, .. } => location,
		Expression::Parenthesized { location, .. } => location,
		Expression::Deref { reference, .. } => reference.location,
		Expression::Autocoerce { expression, .. } => eloc(*expression),
		Expression::BitCast { location, .. } => location,
		Expression::TypeCast { location, .. } => location,
		Expression::LengthOfArray { location, .. } => location,
		Expression::SizeOf { location, .. } => location,
		Expression::FunctionCall { name, .. } => name.location,
		Expression::Poison(_) => arbitrary(),
	}
}

// ---- (1) the type an expression reports: a total table over the forms ---------------------------------------------
// A literal reports the type recorded IN it (its suffix, or what the contextual type gave it during analysis); an operator
// reports the type of its LEFT / only operand (operand agreement is the resolver's job: U-RES); a cast / automatic
// coercion reports its target type; a poisoned expression reports the silent poison.
pub open spec fn etype(e: Expression) -> Option<Poisonable<ValueType>>
	decreases e
{
	match e {
		Expression::Binary { left, .. } => etype(*left),
		Expression::Unary { expression, .. } => etype(*expression),
		Expression::BooleanLiteral { .. } => Some(Ok(ValueType::Bool)),
		Expression::SignedIntegerLiteral { value_type, .. } => value_type,
		Expression::BitIntegerLiteral { value_type, .. } => value_type,
		Expression::ArrayLiteral { array, element_type } => match element_type {
			Some(Ok(t)) => Some(Ok(ValueType::Array { element_type: Box::new(t), length: array.elements@.len() as usize })),
			Some(Err(_)) => Some(Err(Poison::Poisoned)),
			None => None,
		},
		Expression::StringLiteral { bytes, .. } => Some(Ok(ValueType::Array { element_type: Box::new(ValueType::Char8), length: bytes@.len() as usize })),
		Expression::Structural { structural_type, .. } => Some(structural_type),
		Expression::Parenthesized { inner, .. } => etype(*inner),
		Expression::Deref { deref_type, .. } => deref_type,
		Expression::Autocoerce { coerced_type, .. } => Some(Ok(coerced_type)),
		Expression::BitCast { coerced_type, .. } => coerced_type,
		Expression::TypeCast { coerced_type, .. } => Some(Ok(coerced_type)),
		Expression::LengthOfArray { .. } => Some(Ok(ValueType::Usize)),
		Expression::SizeOf { .. } => Some(Ok(ValueType::Usize)),
		Expression::FunctionCall { return_type, .. } => return_type,
		Expression::Poison(_) => Some(Err(Poison::Poisoned)),
	}
}
pub open spec fn btype(b: FunctionBody) -> Option<Poisonable<ValueType>> {
	match b.return_value { Some(v) => etype(v), None => None }
}

// ---- the three type filters -------------------------------------------------------------------------------------------
pub open spec fn is_integer_or_char(t: ValueType) -> bool { value_type::signed(t) || value_type::unsigned_fixed(t) || t is Usize || t is Char8 }
// an unsuffixed decimal literal takes the contextual type when that is an integer type (or char8), else i32 - never bool, a pointer, ...
pub open spec fn naked_integer_spec(c: Option<Poisonable<ValueType>>) -> Option<Poisonable<ValueType>> {
	match c {
		Some(Ok(t)) => if is_integer_or_char(t) { Some(Ok(t)) } else { Some(Ok(ValueType::Int32)) },
		Some(Err(_)) => Some(Err(Poison::Poisoned)),
		None => None,
	}
}
// an unsuffixed hexadecimal / binary literal may in addition stand for a pointer or view (address literal)
pub open spec fn bit_integer_spec(c: Option<Poisonable<ValueType>>) -> Option<Poisonable<ValueType>> {
	match c {
		Some(Ok(t)) => if t is Pointer || t is View { Some(Ok(t)) } else { naked_integer_spec(c) },
		_ => naked_integer_spec(c),
	}
}
// `var x = e` without a declared type: the type of e, except that a pointer type is refused (E-ambiguous pointer declaration)
pub open spec fn infer_spec(t: Option<Poisonable<ValueType>>, id: Identifier) -> Option<Poisonable<ValueType>> {
	match t {
		Some(Ok(x)) => if x is Pointer { Some(Err(Poison::Error(Error::AmbiguousTypeOfPointerDeclaration { suggested_type: x, location: id.location }))) } else { Some(Ok(x)) },
		Some(Err(_)) => Some(Err(Poison::Poisoned)),
		None => None,
	}
}

// ---- (2) declarations ---------------------------------------------------------------------------------------------------
pub open spec fn mention(id: Identifier) -> Identifier { Identifier { is_authoritative: false, ..id } }
// E500 of the symbol table, re-addressed to the VALUE whose type did not fit: E504
pub open spec fn in_assignment(e: Error, at: Location) -> Error {
	match e {
		Error::ConflictingTypes { name, current_type, previous_type, location, previous } =>
			Error::ConflictingTypesInAssignment { name, current_type, previous_type, location: at, previous },
		_ => e,
	}
}
pub open spec fn get_or(tab: SymTab, id: Identifier, d: Poisonable<ValueType>) -> Poisonable<ValueType> {
	match get_spec(tab, id) { Some(x) => x, None => d }
}

// `var x: T = e`
pub struct DeclRun {
	pub t1: Poisonable<ValueType>,                 // T after analyze_type
	pub a1: TState,
	pub put1: (SymTab, Result<(), Error>),         // x := T            (authoritative)
	pub t2: Poisonable<ValueType>,                 // what the table now says about x
	pub a2: TState,                                // state in which e is analysed: hint = t2
	pub e1: Expression,
	pub a3: TState,
	pub put2: (SymTab, Result<(), Error>),         // x := type(e1)     (as a mention)
}
pub open spec fn decl_run(n: Identifier, e: Expression, t: Poisonable<ValueType>, a: TState) -> DeclRun {
	let a0 = with_ctx(a, None);
	let t1 = ta_result(t, a0);
	let a1 = ta_state(t, a0);
	let put1 = put_spec(a1.symbols, n, Some(t1));
	let t2 = get_or(put1.0, n, t1);
	let a2 = with_ctx(with_symbols(a1, put1.0), Some(t2));
	let e1 = ea_result(e, a2);
	let a3 = with_ctx(ea_state(e, a2), None);
	let put2 = put_spec(a3.symbols, mention(n), etype(e1));
	DeclRun { t1, a1, put1, t2, a2, e1, a3, put2 }
}
pub open spec fn decl_type(n: Identifier, r: DeclRun) -> Option<Poisonable<ValueType>> {
	if r.put1.1 is Err { Some(Err(Poison::Error(r.put1.1->Err_0))) }
	else if etype(r.e1) is Some {
		match r.put2.1 {
			Err(err) => Some(Err(Poison::Error(in_assignment(err, eloc(r.e1))))),
			Ok(_) => match (etype(r.e1)->Some_0, r.t2) {
				(_, Err(p)) => Some(Err(p)),
				(Err(p), Ok(_)) => Some(Err(p)),
				(Ok(_), Ok(d)) => Some(get_or(r.put2.0, n, Ok(d))),
			},
		}
	} else { None }
}
pub open spec fn decl_state(r: DeclRun) -> TState {
	if r.put1.1 is Ok && etype(r.e1) is Some { with_symbols(r.a3, r.put2.0) } else { r.a3 }
}
// `var x = e`
pub struct InferRun { pub a0: TState, pub e1: Expression, pub a1: TState, pub t: Option<Poisonable<ValueType>>, pub put: (SymTab, Result<(), Error>) }
pub open spec fn infer_run(n: Identifier, e: Expression, a: TState) -> InferRun {
	let a0 = with_ctx(a, get_spec(a.symbols, mention(n)));
	let e1 = ea_result(e, a0);
	let a1 = with_ctx(ea_state(e, a0), None);
	let t = infer_spec(etype(e1), n);
	InferRun { a0, e1, a1, t, put: put_spec(a1.symbols, n, t) }
}
// `var x: T;`
pub struct BareRun { pub t1: Poisonable<ValueType>, pub a1: TState, pub put: (SymTab, Result<(), Error>) }
pub open spec fn bare_run(n: Identifier, t: Poisonable<ValueType>, a: TState) -> BareRun {
	let a0 = with_ctx(a, None);
	let t1 = ta_result(t, a0);
	let a1 = ta_state(t, a0);
	BareRun { t1, a1, put: put_spec(a1.symbols, n, Some(t1)) }
}
pub open spec fn put_outcome(p: (SymTab, Result<(), Error>), t: Option<Poisonable<ValueType>>) -> Option<Poisonable<ValueType>> {
	match p.1 { Ok(_) => t, Err(e) => Some(Err(Poison::Error(e))) }
}

// ---- (2) assignments `r = e` ----------------------------------------------------------------------------------------------
pub struct AssignRun { pub hint: Option<Poisonable<ValueType>>, pub r1: Reference, pub e1: Expression, pub a1: TState }
pub open spec fn assign_run(r: Reference, e: Expression, a: TState) -> AssignRun {
	let a0 = with_ctx(a, None);
	let hint = gtr_type(r, a0);
	let r1 = gtr_ref(r, a0);
	let a0h = with_ctx(a0, hint);
	AssignRun { hint, r1, e1: ea_result(e, a0h), a1: with_ctx(ea_state(e, a0h), None) }
}

// what Statement::analyze must do
// caller obligations of Statement::analyze: the table is well formed, and the value assigned by any assignment in the statement has
// fewer than 2^64 pointer levels (aa_obligations; for a nested statement: in whatever well-formed state it is reached)
pub open spec fn stmt_pre_a(s: Statement, a: TState) -> bool
	decreases s
{
	&&& tab_wf(a.symbols)
	&&& match s {
		Statement::Assignment { reference, value, .. } => {
			let run = assign_run(reference, value, a);
			// get_type_of_reference (U-TYPREF): every structure the place passes through has been declared
			&&& gtr_pre(reference, a.symbols, a.structures)
			&&& aa_obligations(run.r1, etype(run.e1), Some(run.e1), run.a1)
		},
		Statement::If { then_branch, else_branch, .. } => forall|b: TState| #![trigger tab_wf(b.symbols)] tab_wf(b.symbols) ==>
			stmt_pre_a(*then_branch, b) && (else_branch is Some ==> stmt_pre_a(*else_branch->Some_0.branch, b)),
		_ => true,
	}
}
pub open spec fn stmt_pre(s: Statement, t: Typer) -> bool { stmt_pre_a(s, abs(t)) }
pub open spec fn stmt_post(s: Statement, r: Statement, t0: Typer, t1: Typer) -> bool {
	&&& tab_wf(t1.symbols@)
	&&& match s {
		Statement::Declaration { name, value: Some(e), value_type: Some(t), location } => {
			let run = decl_run(name, e, t, abs(t0));
			r == (Statement::Declaration { name, value: Some(run.e1), value_type: decl_type(name, run), location }) && abs(t1) == decl_state(run)
		},
		Statement::Declaration { name, value: Some(e), value_type: None, location } => {
			let run = infer_run(name, e, abs(t0));
			r == (Statement::Declaration { name, value: Some(run.e1), value_type: put_outcome(run.put, run.t), location }) && abs(t1) == with_symbols(run.a1, run.put.0)
		},
		Statement::Declaration { name, value: None, value_type: Some(t), location } => {
			let run = bare_run(name, t, abs(t0));
			r == (Statement::Declaration { name, value: None, value_type: put_outcome(run.put, Some(run.t1)), location }) && abs(t1) == with_symbols(run.a1, run.put.0)
		},
		Statement::Declaration { name, value: None, value_type: None, location } =>
			r == (Statement::Declaration { name, value: None, value_type: infer_spec(get_spec(t0.symbols@, mention(name)), name), location })
				&& abs(t1) == with_ctx(abs(t0), None),
		Statement::Assignment { reference, value, location } => {
			let run = assign_run(reference, value, abs(t0));
			r is Assignment && r->Assignment_value == run.e1 && r->Assignment_location == location
				&& aa_post(run.r1, etype(run.e1), Some(run.e1), r->Assignment_reference, run.a1, abs(t1))
		},
		_ => true,     // calls, branches, blocks, jumps: not specified here
	}
}

// ---- lemmas -------------------------------------------------------------------------------------------------------------
// the symbol-table oracle keeps the table well formed when the type put is
pub proof fn lemma_put_keeps_wf(tab: SymTab, id: Identifier, t: Option<Poisonable<ValueType>>)
	requires tab_wf(tab), opt_wf(t),
	ensures tab_wf(put_spec(tab, id, t).0), tab_wf(poison_spec(tab, id, Poison::Poisoned)),
{
	let k0 = id.resolution_id;
	let out = put_spec(tab, id, t).0;
	assert forall|k: u32| out.contains_key(k) && (#[trigger] out[k]).value_type is Ok implies value_type::wf(out[k].value_type->Ok_0) by {
		if k != k0 { assert(tab.contains_key(k) && tab[k] == out[k]); }
		else if tab.contains_key(k0) { assert(tab[k0].value_type is Ok ==> value_type::wf(tab[k0].value_type->Ok_0)); }
	}
	let p = poison_spec(tab, id, Poison::Poisoned);
	assert forall|k: u32| p.contains_key(k) && (#[trigger] p[k]).value_type is Ok implies value_type::wf(p[k].value_type->Ok_0) by {
		if k != k0 { assert(tab.contains_key(k) && tab[k] == p[k]); }
	}
}
pub proof fn lemma_get_wf(tab: SymTab, id: Identifier)
	requires tab_wf(tab),
	ensures opt_wf(get_spec(tab, id)),
{
	if tab.contains_key(id.resolution_id) { assert(tab[id.resolution_id].value_type is Ok ==> value_type::wf(tab[id.resolution_id].value_type->Ok_0)); }
}

// ---- Reference::analyze_assignment --------------------------------------------------------------------------------------
pub uninterp spec fn as_state(base_type: ValueType, steps: Seq<ReferenceStep>, address_depth: u8, a: TState) -> TState;   // analyze_assignment_steps
// the steps are analysed one after the other (index expressions)
pub open spec fn steps_fold(steps: Seq<ReferenceStep>, k: int, a: TState) -> (Seq<ReferenceStep>, TState)
	decreases k
{
	if k <= 0 { (Seq::empty(), a) } else {
		let p = steps_fold(steps, k - 1, a);
		(p.0.push(rs_result(steps[k - 1], p.1)), rs_state(steps[k - 1], p.1))
	}
}
// the type a place must have for `place steps = value` to make sense, built outwards from the type of the value:
// x[i] = v: x is some array of typeof(v); x.m = v: x is some struct or word; through a pointer / view: a pointer / view to ...
pub open spec fn bstep(s: ReferenceStep, p: (ValueType, bool)) -> (ValueType, bool) {
	match s {
		ReferenceStep::Element { .. } => (ValueType::Arraylike { element_type: Box::new(p.0) }, true),
		ReferenceStep::Member { .. } => (ValueType::UnresolvedStructOrWord { identifier: None }, true),
		ReferenceStep::Autoderef => (ValueType::Pointer { deref_type: Box::new(p.0) }, p.1),
		ReferenceStep::Autoview => (ValueType::View { deref_type: Box::new(p.0) }, p.1),
		ReferenceStep::Autodeslice { .. } => p,
	}
}
pub open spec fn bfold(base: ValueType, steps: Seq<ReferenceStep>, k: int) -> (ValueType, bool)
	decreases steps.len() - k
{
	if k >= steps.len() || k < 0 { (base, false) } else { bstep(steps[k], bfold(base, steps, k + 1)) }
}
pub open spec fn build1_spec(base: ValueType, steps: Seq<ReferenceStep>, took_address: bool) -> ValueType {
	let p = bfold(base, steps, 0);
	if took_address && !p.1 && p.0 is Pointer { value_type::deref(p.0) } else { p.0 }
}
pub open spec fn build_spec(t: Option<Poisonable<ValueType>>, steps: Seq<ReferenceStep>, took_address: bool) -> Option<Poisonable<ValueType>> {
	match t {
		Some(Ok(b)) => Some(Ok(build1_spec(b, steps, took_address))),
		Some(Err(_)) => Some(Err(Poison::Poisoned)),
		None => None,
	}
}
pub open spec fn ptr_n(t: ValueType, n: nat) -> ValueType
	decreases n
{
	if n == 0 { t } else { ValueType::Pointer { deref_type: Box::new(ptr_n(t, (n - 1) as nat)) } }
}
// the type the last member is unified with: the type built from the steps BELOW the member (s.arr[2] = v: arr is some array of
// typeof(v)) whenever such a type exists; when it is not well formed (no type allows those steps: an array of array views),
// the value's own type, so that the conflict is reported between the member and the value (E504)
pub open spec fn member_type_spec(vt: Option<Poisonable<ValueType>>, steps: Seq<ReferenceStep>) -> Option<Poisonable<ValueType>> {
	let built = build_spec(vt, steps_below_member(steps), false);
	if opt_wf(built) { built } else { vt }
}
// the type the base variable is unified with: the type built outwards from the value through ALL the steps whenever such a type
// exists; when it is not well formed (no variable can have it: an array of array views, a pointer to an array view) the value's own
// type, so that the conflict is reported between the variable and the value (E504)
pub open spec fn place_type_spec(vt: Option<Poisonable<ValueType>>, steps: Seq<ReferenceStep>) -> Option<Poisonable<ValueType>> {
	let built = build_spec(vt, steps, false);
	if opt_wf(built) { built } else { vt }
}
pub struct AaRun {
	pub steps1: Seq<ReferenceStep>, pub a1: TState,                 // after the index expressions
	pub steps2: Seq<ReferenceStep>, pub excess: u8, pub a2: TState, // after analyze_assignment_steps (automatic dereferences made explicit)
	pub member: Option<Identifier>,                                 // the last member accessed, if any
	pub address_error: Option<Error>,
	pub full: Option<Poisonable<ValueType>>,                        // type put for the base variable
	pub put1: (SymTab, Result<(), Error>),
	pub put2: (SymTab, Result<(), Error>),
}
pub open spec fn address_error_spec(r: Reference, base: Identifier, vt: Option<Poisonable<ValueType>>, av: Option<Expression>, decl: Option<(ValueType, Location)>, excess: u8) -> Option<Error> {
	match decl {
		Some((pt, prev)) =>
			if excess > 0 { Some(Error::ExcessAddressInAssignment { name: base.name, previous_type: pt, location: r.location, previous: prev }) }
			else if typed(vt) && av is Some && r.address_depth as int != value_type::pdepth(vt->Some_0->Ok_0) {
				Some(Error::MismatchedAddressInAssignment {
					name: base.name,
					assigned_type: vt->Some_0->Ok_0,
					assignee_type: ptr_n(value_type::strip(vt->Some_0->Ok_0), r.address_depth as nat),
					declared_type: pt,
					location: eloc(av->Some_0),
					location_of_assignee: r.location,
					location_of_declaration: prev,
				})
			} else { None },
		None => None,
	}
}
pub open spec fn aa_run(r: Reference, vt: Option<Poisonable<ValueType>>, av: Option<Expression>, a: TState) -> AaRun {
	let base = r.base->Ok_0;
	let f = steps_fold(r.steps@, r.steps@.len() as int, a);
	let bt = get_spec(f.1.symbols, base);
	let s2 = if typed(bt) { as_steps(bt->Some_0->Ok_0, f.0, r.address_depth, f.1) } else { (f.0, 0u8) };
	let a2 = if typed(bt) { as_state(bt->Some_0->Ok_0, f.0, r.address_depth, f.1) } else { f.1 };
	let member = last_member(s2.0);
	let symbol = match member { Some(m) => m, None => base };
	let full = place_type_spec(vt, s2.0);
	let put1 = put_spec(a2.symbols, base, full);
	let put2 = if put1.1 is Ok && member is Some { put_spec(put1.0, member->Some_0, member_type_spec(vt, s2.0)) } else { put1 };
	AaRun { steps1: f.0, a1: f.1, steps2: s2.0, excess: s2.1, a2, member, full, put1, put2,
		address_error: address_error_spec(r, base, vt, av, valid_declaration_spec(a2.symbols, symbol), s2.1) }
}
pub open spec fn same_places(out: Reference, r: Reference) -> bool { out.location == r.location && out.location_of_unaddressed == r.location_of_unaddressed }
pub open spec fn aa_post(r: Reference, vt: Option<Poisonable<ValueType>>, av: Option<Expression>, out: Reference, a: TState, a_out: TState) -> bool {
	let f = steps_fold(r.steps@, r.steps@.len() as int, a);
	let run = aa_run(r, vt, av, a);
	&&& same_places(out, r)
	&&& if r.base is Err { out.base == r.base && out.steps@ == f.0 && out.address_depth == r.address_depth && a_out == f.1 }
		else if run.address_error is Some { out.base == Err::<Identifier, Poison>(Poison::Error(run.address_error->Some_0)) && out.steps@ == run.steps2 && out.address_depth == run.excess && a_out == run.a2 }
		else {
			&&& out.steps@ == run.steps2 && out.address_depth == 0 && a_out == with_symbols(run.a2, run.put2.0)
			&&& out.base == (match run.put2.1 {
					Ok(_) => r.base,
					Err(e) => Err(Poison::Error(if av is Some { in_assignment(e, eloc(av->Some_0)) } else { e })),
				})
		}
}
// the obligations of analyze_assignment that nothing in the typer establishes: a size regime (no type has 2^64 pointer levels;
// pointer_depth() counts them in a usize).  The three assert!(..is_wellformed()) sites of the assignment path - the type put for
// the base variable (D22), the type put for the member, the assignee type shown by E507 (D23) - are guarded or gone and PROVED unreachable.
pub open spec fn aa_obligations(r: Reference, vt: Option<Poisonable<ValueType>>, av: Option<Expression>, a: TState) -> bool {
	&&& typed(vt) ==> value_type::pdepth(vt->Some_0->Ok_0) <= usize::MAX
	// the precondition of analyze_assignment_steps (spec/u_typas_spec.rs: no unreachable!() is met walking the steps from the recorded type
	// of the base).  It FOLLOWS from "the place has a type" (theorem_typed_place_can_be_walked, U-TYPAS) in the table state in which
	// get_type_of_reference ran; here it is needed in the state AFTER the value and the index expressions were analysed (uninterpreted
	// effects), so it stays a caller obligation
	&&& r.base is Ok ==> {
		let f = steps_fold(r.steps@, r.steps@.len() as int, a);
		let bt = get_spec(f.1.symbols, r.base->Ok_0);
		typed(bt) ==> as_pre(bt->Some_0->Ok_0, f.0, f.1.symbols)
	}
}
pub open spec fn aa_pre(r: Reference, vt: Option<Poisonable<ValueType>>, av: Option<Expression>, a: TState) -> bool {
	&&& tab_wf(a.symbols) && opt_wf(vt)
	&&& av is Some && typed(vt) ==> loc_ok(av->Some_0)
	&&& aa_obligations(r, vt, av, a)
}
// what the property demands of `x.m steps = v` (D21): the member is unified with the type built from the steps BELOW it
pub open spec fn steps_below_member(steps: Seq<ReferenceStep>) -> Seq<ReferenceStep> {
	steps.subrange(last_member_at(steps, steps.len() as int) + 1, steps.len() as int)
}

// ---- property-level readings of the declaration oracle (named clauses of Statement::analyze) ----------------------------
// `var x: T = e` is accepted (reports a type) only if the type of e unifies with what is recorded for x (T, after the put)
pub open spec fn decl_accepts_only_unifiable(n: Identifier, r: DeclRun, out: Option<Poisonable<ValueType>>) -> bool {
	typed(out) ==> r.put1.1 is Ok && r.t2 is Ok
		&& (typed(etype(r.e1)) && recorded_typed(r.a3.symbols, n) ==>
			keeps(recorded_type(r.a3.symbols, n), etype(r.e1)->Some_0->Ok_0) || unifies_with_recorded(r.a3.symbols, mention(n), etype(r.e1)->Some_0->Ok_0))
}
// otherwise: E504 naming both types, located at the value; the table is left as the value's analysis left it
pub open spec fn decl_mismatch_is_E504(n: Identifier, r: DeclRun, out: Option<Poisonable<ValueType>>, a_out: TState) -> bool {
	r.put1.1 is Ok && typed(etype(r.e1)) && recorded_typed(r.a3.symbols, n)
		&& !keeps(recorded_type(r.a3.symbols, n), etype(r.e1)->Some_0->Ok_0) && !unifies_with_recorded(r.a3.symbols, mention(n), etype(r.e1)->Some_0->Ok_0)
	==> a_out.symbols == r.a3.symbols && out == Some(Err::<ValueType, Poison>(Poison::Error(Error::ConflictingTypesInAssignment {
			name: n.name,
			current_type: etype(r.e1)->Some_0->Ok_0,
			previous_type: recorded_type(r.a3.symbols, n),
			location: eloc(r.e1),
			previous: r.a3.symbols[n.resolution_id].identifier.location,
		})))
}

// ---- the member found by `iter().rev().find_map(get_member)` sits at the index found by `iter().rposition(is member)` ----
pub proof fn lemma_last_member_char(steps: Seq<ReferenceStep>, n: int)
	requires 0 <= n <= steps.len(),
	ensures ({
		let j = last_member_at(steps, n);
		||| (j == -1 && forall|k: int| 0 <= k < n ==> !(#[trigger] steps[k] is Member))
		||| (0 <= j < n && steps[j] is Member && forall|k: int| j < k < n ==> !(#[trigger] steps[k] is Member))
	}),
	decreases n
{
	if n > 0 { lemma_last_member_char(steps, n - 1); }
}
