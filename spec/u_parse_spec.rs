// U-PARSE ghost specification (filled in below)
