// ---------------------------------------------------------------------------------------------
// U-PARSE ghost specification.
//
// Cursor (parser/tokens.rs `Tokens`): (lexer tokens, next_token_id, span) where span is a window of the token list.
//   toks(t)  the lexer's token sequence            pos(t)  index of the next token
//   lim(t)   pos + span.len(): end of the window   ( == toks.len() unless a reservation narrowed the window )
//   cur(t)   what peek()/take() yield: the token at pos, or a VIRTUAL EndOfSource when the window is exhausted
//   ok_at(t, e)  t is a cursor of the window ending at e (possibly one step beyond it, with an empty span)
//   live(t)  ok and take() is allowed: pos <= endp (in particular pos < toks.len(): Tokens::advance's debug_assert)
//   rem(t)   number of tokens that can still be consumed: the termination measure and the node-budget credit
// Node buffer (parse_tree.rs `ParseBuffer`): cells [0, num_nodes) initialised, capacity fits 24-bit ids,
//   the active private zone / open lists name cells that still hold their placeholder.
// ---------------------------------------------------------------------------------------------
use lexer::tokens::ltok_ok;
use lexer::tokens::vap_ok;
pub type LTokenId = lexer::tokens::TokenId;

pub open spec fn toks(t: Tokens) -> Seq<BaseToken> { t.tokens.tokens@ }
pub open spec fn pos(t: Tokens) -> int { t.next_token_id.0 as int }
pub open spec fn lim(t: Tokens) -> int { t.next_token_id.0 as int + t.span@.len() }
pub open spec fn ok_at(t: Tokens, e: int) -> bool {
	&&& ltok_ok(*t.tokens)
	&&& 0 <= e <= toks(t).len()
	&&& pos(t) <= toks(t).len()
	&&& (if pos(t) <= e { t.span@ =~= toks(t).subrange(pos(t), e) } else { t.span@.len() == 0 })
}
pub open spec fn live(t: Tokens) -> bool { ok_at(t, lim(t)) && pos(t) <= endp(t) }
pub open spec fn cur(t: Tokens) -> BaseToken { tokv(toks(t), lim(t), pos(t)) }
// last position that may be consumed: the virtual EndOfSource of a reservation, or the FIRST of the two final
// EndOfSource tokens (the second one is the sentinel that skip_until relies on and is never consumed)
pub open spec fn endp(t: Tokens) -> int { if lim(t) >= toks(t).len() - 2 { toks(t).len() - 2 } else { lim(t) } }
pub open spec fn rem(t: Tokens) -> int { endp(t) + 1 - pos(t) }
pub open spec fn unreserved(t: Tokens) -> bool { lim(t) == toks(t).len() }
pub open spec fn has_message(e: BaseToken) -> bool {
	e == BaseToken::Assignment || e == BaseToken::BraceLeft || e == BaseToken::BraceRight || e == BaseToken::BracketLeft
	|| e == BaseToken::BracketRight || e == BaseToken::Dot || e == BaseToken::ParenLeft || e == BaseToken::ParenRight
	|| e == BaseToken::Pipe || e == BaseToken::Semicolon || e == BaseToken::StringLiteral || e == BaseToken::Identifier
	|| e == BaseToken::Colon || e == BaseToken::Comma
}
pub open spec fn is_decl_start(t: BaseToken) -> bool {
	t == BaseToken::Pub || t == BaseToken::Extern || t == BaseToken::Import || t == BaseToken::Const || t == BaseToken::Fn
	|| t == BaseToken::Struct || t == BaseToken::Word8 || t == BaseToken::Word16 || t == BaseToken::Word32
	|| t == BaseToken::Word64 || t == BaseToken::Word128
}

// ---- node buffer ----
pub open spec fn cell(b: ParseBuffer, i: int) -> Option<ParseNode> { mu_val(b.nodes@[i]) }
// (the two cell-wise quantifiers are opaque: the parse functions only pass them along, the buffer methods reveal them)
#[verifier::opaque]
pub open spec fn cells_init(b: ParseBuffer) -> bool { forall|i: int| 0 <= i < b.num_nodes ==> mu_val(#[trigger] b.nodes@[i]).is_some() }
pub open spec fn pb_inv(b: ParseBuffer) -> bool {
	&&& b.num_nodes <= b.nodes@.len() <= 0x1000000
	&&& cells_init(b)
	&&& match b.active_private_zone { Some(z) => u24v(z.0) < b.num_nodes && cell(b, u24v(z.0)) == Some(ParseNode::EndlessPrivateZone), None => true }
}
pub open spec fn recent(b: ParseBuffer, n: NodeId) -> bool { u24v(n.0) + 1 == b.num_nodes }
// (stated over the node slice and count, so that buffer states differing only in the zone marker share the trigger term)
pub open spec fn unpc(s: Seq<MaybeUninit<ParseNode>>, n: int, i: int) -> bool { 0 <= i < n && mu_val(s[i]) == Some(ParseNode::UnpatchedListItem) }
pub open spec fn unp(b: ParseBuffer, i: int) -> bool { unpc(b.nodes@, b.num_nodes as int, i) }
pub open spec fn unpatched(b: ParseBuffer, n: NodeId) -> bool { unp(b, u24v(n.0)) }
pub open spec fn list_ok(b: ParseBuffer, l: Option<ActiveList>) -> bool {
	match l { Some(a) => unpatched(b, a.last_node) && u24v(a.first_node.0) <= u24v(a.last_node.0), None => true }
}
// b1 extends b0: same slice, same capacity, nodes only appended, and every placeholder cell of b0 that b0's owner may
// still want to patch (UnpatchedListItem) is untouched
pub open spec fn extends(b0: ParseBuffer, b1: ParseBuffer) -> bool {
	&&& b1.nodes@.len() == b0.nodes@.len()
	&&& b0.num_nodes <= b1.num_nodes
	&&& forall|i: int| #[trigger] unpc(b0.nodes@, b0.num_nodes as int, i) ==> unpc(b1.nodes@, b1.num_nodes as int, i)
}

// every cell of b0 except k is unchanged in b1 (opaque: stated and proved by the buffer methods, not unfolded by the
// parse functions, which only need the UnpatchedListItem part below)
#[verifier::opaque]
pub open spec fn cells_same_except(b0: ParseBuffer, b1: ParseBuffer, k: int) -> bool { forall|i: int| 0 <= i < b0.num_nodes && i != k ==> mu_val(b1.nodes@[i]) == mu_val(#[trigger] b0.nodes@[i]) }
pub open spec fn unp_kept_except(b0: ParseBuffer, b1: ParseBuffer, k: int) -> bool { forall|i: int| #[trigger] unpc(b0.nodes@, b0.num_nodes as int, i) && i != k ==> unpc(b1.nodes@, b1.num_nodes as int, i) }
pub open spec fn lastk(l: Option<ActiveList>) -> int { match l { Some(a) => u24v(a.last_node.0), None => -1 } }

// b1 is b0 with exactly n nodes appended and nothing else changed
#[verifier::opaque]
pub open spec fn cells_same(b0: ParseBuffer, b1: ParseBuffer) -> bool { forall|i: int| 0 <= i < b0.num_nodes ==> mu_val(b1.nodes@[i]) == mu_val(#[trigger] b0.nodes@[i]) }
pub open spec fn appended(b0: ParseBuffer, b1: ParseBuffer, n: int) -> bool {
	&&& b1.nodes@.len() == b0.nodes@.len()
	&&& b1.num_nodes == b0.num_nodes + n
	&&& b1.active_private_zone == b0.active_private_zone
	&&& cells_same(b0, b1)
	&&& extends(b0, b1)
}

// ---- the uniform contract of the parse_* functions -------------------------------------------
pub open spec fn tokv(ts: Seq<BaseToken>, e: int, j: int) -> BaseToken { if 0 <= j < e && j < ts.len() { ts[j] } else { BaseToken::EndOfSource } }
// no EndOfSource (real or virtual) among positions [a, b)
pub open spec fn clean(ts: Seq<BaseToken>, e: int, a: int, b: int) -> bool { forall|j: int| a <= j < b ==> #[trigger] tokv(ts, e, j) != BaseToken::EndOfSource }
pub open spec fn kk() -> int { KKK }
// entry condition: live cursor, buffer invariant, and enough room: K nodes per remaining token plus K slack
pub open spec fn pre(t: Tokens, b: ParseBuffer) -> bool {
	live(t) && pb_inv(b) && zinv(b) && b.num_nodes + kk() * rem(t) + kk() <= b.nodes@.len()
}
// exit condition (Ok and Err alike): same token list and window; nothing consumed after an EndOfSource; at most one
// step beyond the window; buffer only extended; at most K nodes per consumed token plus the function's constant c
pub open spec fn post(t0: Tokens, b0: ParseBuffer, t1: Tokens, b1: ParseBuffer, c: int) -> bool {
	&&& t1.tokens == t0.tokens && ok_at(t1, lim(t0)) && pos(t0) <= pos(t1) <= endp(t0) + 1
	&&& clean(toks(t0), lim(t0), pos(t0), pos(t1) - 1)
	&&& pb_inv(b1) && extends(b0, b1) && zinv(b1)
	&&& b1.num_nodes - b0.num_nodes <= kk() * (pos(t1) - pos(t0)) + c
}
// on success the cursor is still live in the same window and every consumed token was a real, non-EndOfSource token
pub open spec fn post_ok(t0: Tokens, t1: Tokens) -> bool {
	live(t1) && lim(t1) == lim(t0) && clean(toks(t0), lim(t0), pos(t0), pos(t1))
}
// loop invariant relative to the entry snapshots t0 / b0
pub open spec fn linv(t0: Tokens, b0: ParseBuffer, t: Tokens, b: ParseBuffer, c: int) -> bool {
	&&& pre(t0, b0)
	&&& t.tokens == t0.tokens && live(t) && lim(t) == lim(t0) && pos(t0) <= pos(t)
	&&& clean(toks(t0), lim(t0), pos(t0), pos(t))
	&&& pb_inv(b) && extends(b0, b) && zinv(b)
	&&& b.num_nodes - b0.num_nodes <= kk() * (pos(t) - pos(t0)) + c
}
// an open list created inside the current function: its last item is still a placeholder and lies above the entry mark
pub open spec fn list_in(b0: ParseBuffer, b: ParseBuffer, l: Option<ActiveList>) -> bool {
	list_ok(b, l) && (l is Some ==> u24v(l->0.last_node.0) >= b0.num_nodes)
}
// the declaration list of the buffer is untouched
pub open spec fn decls_same(b0: ParseBuffer, b1: ParseBuffer) -> bool {
	b1.declarations@ == b0.declarations@ && vec_cap(*b1.declarations) == vec_cap(*b0.declarations)
}
// a window that is clean for a narrow limit is clean for any wider limit (the tokens are real ones)
proof fn lemma_clean_widen(ts: Seq<BaseToken>, e1: int, e2: int, a: int, b: int)
	requires clean(ts, e1, a, b), e1 <= e2
	ensures clean(ts, e2, a, b)
{
	assert forall|j: int| a <= j < b implies #[trigger] tokv(ts, e2, j) != BaseToken::EndOfSource by {
		assert(tokv(ts, e1, j) != BaseToken::EndOfSource);
	}
}

// ---- top level `parse` ------------------------------------------------------------------------
// number of declaration-starting tokens among ts[0 .. k)
pub open spec fn cnt(ts: Seq<BaseToken>, k: int) -> int
	decreases k
{
	if k <= 0 || k > ts.len() { 0 } else { cnt(ts, k - 1) + (if is_decl_start(ts[k - 1]) { 1int } else { 0int }) }
}
proof fn lemma_cnt_mono(ts: Seq<BaseToken>, a: int, b: int)
	requires 0 <= a <= b <= ts.len()
	ensures cnt(ts, a) <= cnt(ts, b), 0 <= cnt(ts, a) <= a
	decreases b - a
{
	if a < b { lemma_cnt_mono(ts, a, b - 1); }
	lemma_cnt_nonneg(ts, a);
}
proof fn lemma_cnt_nonneg(ts: Seq<BaseToken>, a: int)
	requires 0 <= a <= ts.len()
	ensures 0 <= cnt(ts, a) <= a
	decreases a
{
	if a > 0 { lemma_cnt_nonneg(ts, a - 1); }
}
proof fn lemma_cnt_step(ts: Seq<BaseToken>, a: int, b: int)
	requires 0 <= a < b <= ts.len(), is_decl_start(ts[a])
	ensures cnt(ts, a) + 1 <= cnt(ts, b)
{
	lemma_cnt_mono(ts, a + 1, b);
}
// what slice_count(tokens, starts_declaration, ..) returns, in terms of cnt
proof fn lemma_count_p_is_cnt(ts: Seq<BaseToken>, k: int)
	requires 0 <= k <= ts.len()
	ensures count_p(ts, |t: BaseToken| is_decl_start(t), k) == cnt(ts, k)
	decreases k
{
	if k > 0 { lemma_count_p_is_cnt(ts, k - 1); }
}

// ---- private zones (C17, parser side): the initialised prefix of the buffer is always well bracketed ----
pub open spec fn marker(n: ParseNode) -> bool { n is StartPrivateZone || n is EndPrivateZone || n is EndlessPrivateZone }
pub open spec fn cells(b: ParseBuffer) -> Seq<ParseNode> { Seq::new(b.num_nodes as nat, |i: int| mu_val(b.nodes@[i])->0) }
pub open spec fn zidx(b: ParseBuffer) -> Option<int> { match b.active_private_zone { Some(z) => Some(u24v(z.0)), None => None } }
// scan from i: closed zones are skipped as a whole, the only EndlessPrivateZone is the active one, and it is met iff there is one
pub open spec fn wfs(s: Seq<ParseNode>, i: int, a: Option<int>) -> bool
	decreases s.len() - i
{
	if i < 0 || i >= s.len() { a is None } else { match s[i] {
		ParseNode::StartPrivateZone { end } => i < u24v(end.0) < s.len() && s[u24v(end.0)] is EndPrivateZone && wfs(s, u24v(end.0) + 1, a),
		ParseNode::EndPrivateZone { .. } => false,
		ParseNode::EndlessPrivateZone => a == Some(i),
		_ => wfs(s, i + 1, a),
	} }
}
#[verifier::opaque]
pub open spec fn zinv(b: ParseBuffer) -> bool { wfs(cells(b), 0, zidx(b)) }

proof fn lemma_wfs_push_plain(s: Seq<ParseNode>, i: int, a: Option<int>, n: ParseNode)
	requires wfs(s, i, a), !marker(n), 0 <= i, a is Some ==> a->0 < s.len()
	ensures wfs(s.push(n), i, a)
	decreases s.len() - i
{
	let t = s.push(n);
	if i >= s.len() {
		assert(a is None);
		if i == s.len() { assert(t[i] == n); assert(wfs(t, i + 1, a)); }
	} else {
		assert(t[i] == s[i]);
		match s[i] {
			ParseNode::StartPrivateZone { end } => { let e = u24v(end.0); assert(t[e] == s[e]); lemma_wfs_push_plain(s, e + 1, a, n); },
			ParseNode::EndPrivateZone { .. } => {},
			ParseNode::EndlessPrivateZone => {},
			_ => { lemma_wfs_push_plain(s, i + 1, a, n); },
		}
	}
}
proof fn lemma_wfs_push_endless(s: Seq<ParseNode>, i: int)
	requires wfs(s, i, None), 0 <= i <= s.len()
	ensures wfs(s.push(ParseNode::EndlessPrivateZone), i, Some(s.len() as int))
	decreases s.len() - i
{
	let t = s.push(ParseNode::EndlessPrivateZone);
	if i >= s.len() {
		if i == s.len() { assert(t[i] == ParseNode::EndlessPrivateZone); }
	} else {
		assert(t[i] == s[i]);
		match s[i] {
			ParseNode::StartPrivateZone { end } => { let e = u24v(end.0); assert(t[e] == s[e]); lemma_wfs_push_endless(s, e + 1); },
			ParseNode::EndPrivateZone { .. } => {},
			ParseNode::EndlessPrivateZone => {},
			_ => { lemma_wfs_push_endless(s, i + 1); },
		}
	}
}
// closing the active zone z: push EndPrivateZone at index len and turn cell z into StartPrivateZone{end: len}
proof fn lemma_wfs_close(s: Seq<ParseNode>, i: int, z: int, endn: ParseNode, startn: ParseNode)
	requires wfs(s, i, Some(z)), 0 <= i, 0 <= z < s.len(), s[z] is EndlessPrivateZone, endn is EndPrivateZone,
		startn is StartPrivateZone, u24v(startn->StartPrivateZone_end.0) == s.len()
	ensures wfs(s.push(endn).update(z, startn), i, None)
	decreases s.len() - i
{
	let t = s.push(endn).update(z, startn);
	if i >= s.len() {
	} else if i == z {
		assert(t[z] == startn);
		assert(t[s.len() as int] == endn);
		assert(wfs(t, s.len() as int + 1, None));
	} else {
		assert(t[i] == s[i]);
		match s[i] {
			ParseNode::StartPrivateZone { end } => {
				let e = u24v(end.0);
				assert(e != z);
				assert(t[e] == s[e]);
				lemma_wfs_close(s, e + 1, z, endn, startn);
			},
			ParseNode::EndPrivateZone { .. } => {},
			ParseNode::EndlessPrivateZone => {},
			_ => { lemma_wfs_close(s, i + 1, z, endn, startn); },
		}
	}
}
proof fn lemma_wfs_update_plain(s: Seq<ParseNode>, i: int, a: Option<int>, k: int, n: ParseNode)
	requires wfs(s, i, a), 0 <= i, 0 <= k < s.len(), !marker(s[k]), !marker(n)
	ensures wfs(s.update(k, n), i, a)
	decreases s.len() - i
{
	let t = s.update(k, n);
	if i >= s.len() {
	} else if i == k {
		assert(t[i] == n);
		lemma_wfs_update_plain(s, i + 1, a, k, n);
	} else {
		assert(t[i] == s[i]);
		match s[i] {
			ParseNode::StartPrivateZone { end } => { let e = u24v(end.0); assert(e != k); assert(t[e] == s[e]); lemma_wfs_update_plain(s, e + 1, a, k, n); },
			ParseNode::EndPrivateZone { .. } => {},
			ParseNode::EndlessPrivateZone => {},
			_ => { lemma_wfs_update_plain(s, i + 1, a, k, n); },
		}
	}
}

// what the header builder needs (spec/u_hdr_spec.rs: wfz, tree_ok): the scan invariant of the buffer implies it, whether
// or not a zone is still open at the end of the file
proof fn lemma_wfs_implies_wfz(s: Seq<ParseNode>, i: int, a: Option<int>)
	requires wfs(s, i, a), 0 <= i
	ensures wfz(s, i)
	decreases s.len() - i
{
	if i >= s.len() { } else { match s[i] {
		ParseNode::StartPrivateZone { end } => { lemma_wfs_implies_wfz(s, u24v(end.0) + 1, a); },
		ParseNode::EndPrivateZone { .. } => {},
		ParseNode::EndlessPrivateZone => {},
		_ => { lemma_wfs_implies_wfz(s, i + 1, a); },
	} }
}
