// ghost value of a 24-bit id (little endian, as U24::new / From<U24> for u32 encode it)
pub open spec fn u24v(x: U24) -> int { x.0[0] as int + 256 * (x.0[1] as int) + 65536 * (x.0[2] as int) }
// spec side of the two sliced From impls (vstd's FromSpec mechanism: the exec `from` must equal from_spec)
impl vstd::std_specs::convert::FromSpecImpl<U24> for u32 {
	open spec fn obeys_from_spec() -> bool { true }
	open spec fn from_spec(v: U24) -> u32 { u24v(v) as u32 }
}
impl vstd::std_specs::convert::FromSpecImpl<U24> for usize {
	open spec fn obeys_from_spec() -> bool { true }
	open spec fn from_spec(v: U24) -> usize { u24v(v) as usize }
}
proof fn lemma_u24_range(x: U24)
	ensures 0 <= u24v(x) < 0x1000000
{ }
