// ---------------------------------------------------------------------------------------------------------------------------
// U-PSPAN ghost specification (C13: diagnostics are well located): the SPAN BOOKKEEPING of the first-generation parser.
// Included after spec/u_plit_spec.rs (forward, covers, same_line, tokens_wf, peeked, advanced, dropped, eloc, loc_ok, ...).
//
// The token stream is what the lexer hands over (U-LEXA proves it): every token location is a forward span and the spans are
// ordered (stream_wf).  A parse function that returns Ok(node) has TAKEN k >= 1 tokens off the front of the cursor, and the
// node's location L
//     starts where the FIRST taken token starts, ends inside the taken tokens (not before the end of the first, not after the
//     end of the last), is a forward span, and reports file / line / column of the first taken token          (node_at)
// One thing the code really does and the contracts therefore say (reported as a finding, not "fixed" in the spec):
//   * L need not END at the last taken token: the location of a call `f(x, y)` is the location of the NAME `f` only
//     (Expression::location of FunctionCall), so every expression whose last operand is a call ends early.
// (A second finding of the first version - `cast e` reported the line / column of its OPERAND while its span started at the
//  keyword - was a genuine violation and is repaired in the repository (ed22e30): a bit cast now obeys the uniform rule, and the
//  special case `line_index` is gone from this specification.)
// An Err(error) carries one of the parser's located errors (end of file, lexical, unexpected token, depth, illegal type); its location is a forward span that does not end after the last token
// that was lexed; an UnexpectedEndOfFile points AT the last token
// of the file (location == last_location == location of the last token), never past it.                         (err_at)
// ---------------------------------------------------------------------------------------------------------------------------
pub open spec fn ordered(s: Seq<LexedToken>) -> bool {
	forall|i: int, j: int| 0 <= i <= j < s.len() ==> (#[trigger] s[i]).location.span.start <= (#[trigger] s[j]).location.span.start
		&& s[i].location.span.end <= s[j].location.span.end
}
pub open spec fn stream_wf(t: Tokens) -> bool { tokens_wf(t) && ordered(t.tokens@) }
pub proof fn lemma_suffix_wf(t0: Tokens, t1: Tokens, k: int)
	requires stream_wf(t0), 0 <= k <= t0.tokens@.len(), t1.tokens@ =~= t0.tokens@.subrange(k, t0.tokens@.len() as int), forward(t1.last_location),
	ensures stream_wf(t1),
{
	assert forall|i: int| 0 <= i < t1.tokens@.len() implies forward((#[trigger] t1.tokens@[i]).location) by { assert(t1.tokens@[i] == t0.tokens@[i + k]); }
	assert forall|i: int, j: int| 0 <= i <= j < t1.tokens@.len() implies (#[trigger] t1.tokens@[i]).location.span.start <= (#[trigger] t1.tokens@[j]).location.span.start
		&& t1.tokens@[i].location.span.end <= t1.tokens@[j].location.span.end by {
		assert(t1.tokens@[i] == t0.tokens@[i + k] && t1.tokens@[j] == t0.tokens@[j + k]);
	}
}
// at least `least` tokens were taken off the front; the last one taken is what last_location names; what the end of the file is stays
pub open spec fn taken(t0: Tokens, t1: Tokens) -> int { t0.tokens@.len() - t1.tokens@.len() }
pub open spec fn end_loc(t: Tokens) -> Location { if t.tokens@.len() > 0 { t.tokens@[t.tokens@.len() - 1].location } else { t.last_location } }
pub open spec fn took(t0: Tokens, t1: Tokens, least: int) -> bool {
	&&& 0 <= taken(t0, t1) && least <= taken(t0, t1) <= t0.tokens@.len()
	&&& t1.tokens@ =~= t0.tokens@.subrange(taken(t0, t1), t0.tokens@.len() as int)
	&&& t1.reserved_token == t0.reserved_token
	&&& (taken(t0, t1) > 0 ==> t1.last_location == t0.tokens@[taken(t0, t1) - 1].location)
	&&& (taken(t0, t1) == 0 ==> t1.last_location == t0.last_location)
	&&& end_loc(t1) == end_loc(t0)
}
pub broadcast proof fn lemma_took_trans(t0: Tokens, t1: Tokens, t2: Tokens, a: int, b: int)
	requires #[trigger] took(t0, t1, a), #[trigger] took(t1, t2, b),
	ensures took(t0, t2, a + b),
{
	let k1 = taken(t0, t1); let k2 = taken(t1, t2);
	let n = t0.tokens@.len() as int;
	assert(t1.tokens@.len() == n - k1 && t2.tokens@.len() == n - k1 - k2);
	assert forall|i: int| 0 <= i < t2.tokens@.len() implies t2.tokens@[i] == t0.tokens@.subrange(k1 + k2, n)[i] by {
		assert(t2.tokens@[i] == t1.tokens@.subrange(k2, n - k1)[i]);
		assert(t1.tokens@[k2 + i] == t0.tokens@.subrange(k1, n)[k2 + i]);
	}
	assert(t2.tokens@ =~= t0.tokens@.subrange(k1 + k2, n));
	if k2 > 0 { assert(t1.tokens@[k2 - 1] == t0.tokens@.subrange(k1, n)[k2 - 1]); }
}
pub proof fn lemma_took_one(t0: Tokens, t1: Tokens)
	requires advanced(t0, t1),
	ensures took(t0, t1, 1), taken(t0, t1) == 1,
{
	if t0.tokens@.len() > 1 { assert(t1.tokens@[t1.tokens@.len() - 1] == t0.tokens@[t0.tokens@.len() - 1]); }
}
pub open spec fn first_loc(t: Tokens) -> Location { t.tokens@[0].location }
pub open spec fn node_at(t0: Tokens, t1: Tokens, l: Location, line_tok: int) -> bool {
	&&& took(t0, t1, 1)
	&&& forward(l)
	&&& l.span.start == first_loc(t0).span.start
	&&& first_loc(t0).span.end <= l.span.end <= t1.last_location.span.end
	&&& 0 <= line_tok < t0.tokens@.len() && same_line(l, t0.tokens@[line_tok].location)
}
// a construct whose first part (location `given`) was read by the caller: the rest extends it
pub open spec fn precedes(given: Location, t: Tokens) -> bool {
	forward(given) && (t.tokens@.len() > 0 ==> given.span.start <= first_loc(t).span.start && given.span.end <= first_loc(t).span.end)
}
pub open spec fn extends_loc(given: Location, t0: Tokens, t1: Tokens, l: Location, least: int) -> bool {
	&&& took(t0, t1, least)
	&&& forward(l)
	&&& l.span.start == given.span.start && same_line(l, given)
	&&& given.span.end <= l.span.end
	&&& (taken(t0, t1) == 0 ==> l.span.end == given.span.end)
	&&& (taken(t0, t1) > 0 ==> l.span.end <= t1.last_location.span.end)
}
// ---- errors
pub open spec fn perr(e: Error) -> bool { e is UnexpectedEndOfFile || e is Lexical || e is UnexpectedToken || e is MaximumParseDepthExceeded || e is IllegalType }
pub open spec fn perr_loc(e: Error) -> Location {
	match e {
		Error::UnexpectedEndOfFile { location, .. } => location,
		Error::Lexical { location, .. } => location,
		Error::UnexpectedToken { location, .. } => location,
		Error::MaximumParseDepthExceeded { location } => location,
		Error::IllegalType { location, .. } => location,
		_ => arbitrary(),
	}
}
pub open spec fn err_at(t0: Tokens, e: Error) -> bool {
	&&& perr(e)
	&&& forward(perr_loc(e))
	&&& perr_loc(e).span.end <= end_loc(t0).span.end
	&&& (e is UnexpectedEndOfFile ==> perr_loc(e) == end_loc(t0) && e->UnexpectedEndOfFile_last_location == end_loc(t0))
}

// ---- composition lemmas for many-armed functions (U-PSPAN2 hides the quantified definitions inside parse_primary_expression) ---------
pub proof fn lemma_stream_head(t: Tokens)
	requires stream_wf(t),
	ensures forward(t.last_location), t.tokens@.len() > 0 ==> forward(first_loc(t)) && first_loc(t).span.end <= end_loc(t).span.end,
{
}
// after the first token of t0 has been taken (t1): its location precedes the rest, errors of the rest are errors of the whole
pub proof fn lemma_first_taken(t0: Tokens, t1: Tokens)
	requires stream_wf(t0), stream_wf(t1), took(t0, t1, 1), taken(t0, t1) == 1,
	ensures precedes(first_loc(t0), t1), t1.last_location == first_loc(t0), forward(first_loc(t0)),
		first_loc(t0).span.end <= end_loc(t0).span.end,
		forall|e: Error| #[trigger] err_at(t1, e) ==> err_at(t0, e),
		node_at(t0, t1, first_loc(t0), 0),
{
	if t1.tokens@.len() > 0 { assert(t1.tokens@[0] == t0.tokens@[1]); }
}
// t1 is t0 with a front part taken, t2 is t1 with at least `least` more: the whole, and what extends the first token spans the whole
pub proof fn lemma_rest_taken(t0: Tokens, t1: Tokens, t2: Tokens, least: int)
	requires stream_wf(t0), stream_wf(t2), took(t0, t1, 1), took(t1, t2, least), 0 <= least,
	ensures took(t0, t2, 1 + least), taken(t0, t2) == taken(t0, t1) + taken(t1, t2),
		forall|e: Error| #[trigger] err_at(t2, e) ==> err_at(t0, e),
		forall|l: Location| #[trigger] extends_loc(first_loc(t0), t1, t2, l, least) && taken(t0, t1) == 1 ==> node_at(t0, t2, l, 0),
		forward(t2.last_location), t2.last_location.span.end <= end_loc(t0).span.end && first_loc(t0).span.end <= t2.last_location.span.end,
		first_loc(t0).span.start <= t2.last_location.span.start,
		t2.tokens@.len() > 0 ==> t2.last_location.span.start <= first_loc(t2).span.start && t2.last_location.span.end <= first_loc(t2).span.end,
{
	lemma_took_trans(t0, t1, t2, 1, least);
	let k = taken(t0, t2);
	assert(t2.last_location == t0.tokens@[k - 1].location);
	if t2.tokens@.len() > 0 { assert(t2.tokens@[0] == t0.tokens@[k]); }
}

// ---- statements ---------------------------------------------------------------------------------------------------------------------------
// the location a statement carries (Statement::location; a poison has none).  As the code stands, `if`, `loop`, `goto`, `var` and
// assignments are located by their FIRST token only; a block by `{` .. `}`; a label by name and colon; a call by its name.
pub open spec fn sloc(s: Statement) -> Location {
	match s {
		Statement::Declaration { location, .. } => location,
		Statement::Assignment { location, .. } => location,
		Statement::MethodCall { name, .. } => name.location,
		Statement::Loop { location } => location,
		Statement::Goto { location, .. } => location,
		Statement::Label { location, .. } => location,
		Statement::If { location, .. } => location,
		Statement::Block(block) => block.location,
		Statement::Poison(_) => arbitrary(),
	}
}
// a node located by its first token alone (statements) spans the tokens taken
pub proof fn lemma_node_first(t0: Tokens, t1: Tokens)
	requires stream_wf(t0), took(t0, t1, 1),
	ensures node_at(t0, t1, first_loc(t0), 0),
{
	let k = taken(t0, t1);
	assert(t1.last_location == t0.tokens@[k - 1].location);
}
// the reservation changes what the cursor shows, not what it holds
pub open spec fn same_tokens(a: Tokens, b: Tokens) -> bool { a.tokens == b.tokens && a.last_location == b.last_location }
