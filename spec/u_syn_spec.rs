// ---------------------------------------------------------------------------------------------
// U-SYN ghost specification: the C06 oracle, written from the property statement.
//   loop: only as final statement of a braced block (E800 elsewhere in a block, E801 directly in a body)
//   if:   each branch a goto or a braced block; an else branch may also be another if (E840 otherwise)
// Context = the analyzer's three flags at the moment of the call: nt / ne (naked then / else branch), ib (in block).
// ---------------------------------------------------------------------------------------------
pub open spec fn inv(a: Analyzer) -> bool {
	!(a.is_naked_then_branch && a.is_naked_else_branch) && ((a.is_naked_then_branch || a.is_naked_else_branch) ==> !a.is_in_block)
}
pub open spec fn mono(a0: Analyzer, a1: Analyzer) -> bool {
	(a1.is_naked_then_branch ==> a0.is_naked_then_branch) && (a1.is_naked_else_branch ==> a0.is_naked_else_branch) && (a1.is_in_block ==> a0.is_in_block)
}
// what may stand as a branch of an if
pub open spec fn allowed(s: Statement, ne: bool) -> bool {
	s is Goto || s is Block || s is Poison || (s is If && ne)
}
pub open spec fn e840(s: Statement) -> Statement { Statement::Poison(Poison::Error(Error::MissingBraces { location: stmt_loc(s) })) }
pub open spec fn e801(location: Location) -> Statement { Statement::Poison(Poison::Error(Error::MisplacedLoopStatement { location })) }
pub open spec fn e800(location: Location, location_of_block: Location) -> Statement {
	Statement::Poison(Poison::Error(Error::NonFinalLoopStatement { location, location_of_block }))
}
pub open spec fn ok(r: Statement, s: Statement, nt: bool, ne: bool, ib: bool) -> bool
	decreases s, 2int
{
	if (nt || ne) && !allowed(s, ne) {
		r == e840(s)
	} else {
		match s {
			Statement::Loop { location } => if ib { r == s } else { r == e801(location) },
			Statement::If { condition, then_branch, else_branch, location } => {
				&&& r is If
				&&& r->If_condition == condition
				&&& r->If_location == location
				&&& ok(*r->If_then_branch, *then_branch, true, false, false)
				&&& match else_branch {
					None => r->If_else_branch is None,
					Some(e) => r->If_else_branch is Some && r->If_else_branch->0.location_of_else == e.location_of_else
						&& ok(*r->If_else_branch->0.branch, *e.branch, false, true, false),
				}
			},
			Statement::Block(b) => r is Block && okb(r->Block_0, b),
			_ => r == s,
		}
	}
}
pub open spec fn okb(rb: Block, b: Block) -> bool
	decreases b, 1int
{
	&&& rb.location == b.location
	&&& rb.statements@.len() == b.statements@.len()
	&&& forall|i: int| 0 <= i < b.statements@.len() ==> ok_at(#[trigger] rb.statements@[i], b, i)
}
pub open spec fn ok_at(r: Statement, b: Block, i: int) -> bool
	decreases b, 0int
{
	if 0 <= i < b.statements@.len() {
		let s = b.statements@[i];
		if i < b.statements@.len() - 1 && s is Loop {
			r == e800(s->Loop_location, b.location)
		} else {
			ok(r, s, false, false, true)
		}
	} else { true }
}
// function body: statements are NOT in a block (a bare loop is E801)
pub open spec fn okf(r: FunctionBody, f: FunctionBody) -> bool {
	&&& r.return_value == f.return_value
	&&& r.return_value_identifier == f.return_value_identifier
	&&& r.statements@.len() == f.statements@.len()
	&&& forall|i: int| 0 <= i < f.statements@.len() ==> ok(#[trigger] r.statements@[i], f.statements@[i], false, false, false)
}
pub open spec fn okd(r: Declaration, d: Declaration) -> bool {
	match d {
		Declaration::Function { name, parameters, body, return_type, flags, location_of_declaration, location_of_return_type } => {
			&&& r is Function
			&&& r->Function_name == name && r->Function_parameters == parameters && r->Function_return_type == return_type
			&&& r->Function_flags == flags && r->Function_location_of_declaration == location_of_declaration
			&&& r->Function_location_of_return_type == location_of_return_type
			&&& match body { Ok(b) => r->Function_body is Ok && okf(r->Function_body->Ok_0, b), Err(p) => r->Function_body == body }
		},
		_ => r == d,
	}
}

// ---- what the oracle says, spelled out as lemmas (sanity of the spec against the property text)
proof fn lemma_loop_last_in_block_accepted(b: Block, rb: Block)
	requires okb(rb, b), b.statements@.len() > 0, b.statements@[b.statements@.len() - 1] is Loop
	ensures rb.statements@[b.statements@.len() - 1] == b.statements@[b.statements@.len() - 1]
{
	assert(ok_at(rb.statements@[b.statements@.len() - 1], b, b.statements@.len() - 1));
}
proof fn lemma_loop_nonfinal_rejected(b: Block, rb: Block, i: int)
	requires okb(rb, b), 0 <= i < b.statements@.len() - 1, b.statements@[i] is Loop
	ensures rb.statements@[i] == e800(b.statements@[i]->Loop_location, b.location)
{
	assert(ok_at(rb.statements@[i], b, i));
}
proof fn lemma_then_branch_must_be_goto_or_block(r: Statement, s: Statement, nt: bool, ne: bool, ib: bool)
	requires ok(r, s, nt, ne, ib), s is If, !(nt || ne)
	ensures ({ let t = *s->If_then_branch; (t is Goto || t is Block || t is Poison) || *r->If_then_branch == e840(t) }),
		s->If_else_branch is Some ==> ({ let e = *s->If_else_branch->0.branch;
			(e is Goto || e is Block || e is Poison || e is If) || *r->If_else_branch->0.branch == e840(e) }),
{ reveal_with_fuel(ok, 2); }

// trusted: #[derive(Default)] on the three-flag analyzer gives all-false
pub assume_specification[ <Analyzer as core::default::Default>::default ]() -> (r: Analyzer)
	ensures !r.is_naked_then_branch && !r.is_naked_else_branch && !r.is_in_block;
