// spec side of the id conversions (vstd FromSpec mechanism)
impl vstd::std_specs::convert::FromSpecImpl<TokenId> for usize {
	open spec fn obeys_from_spec() -> bool { true }
	open spec fn from_spec(v: TokenId) -> usize { v.0 as usize }
}
impl vstd::std_specs::convert::FromSpecImpl<TokenId> for crate::TokenId {
	open spec fn obeys_from_spec() -> bool { false }
	open spec fn from_spec(v: TokenId) -> crate::TokenId { arbitrary() }
}
// trusted: #[derive(PartialEq)] on the field-less enum BaseToken is structural equality
impl vstd::std_specs::cmp::PartialEqSpecImpl for BaseToken {
	open spec fn obeys_eq_spec() -> bool { true }
	open spec fn eq_spec(&self, o: &Self) -> bool { *self == *o }
}
