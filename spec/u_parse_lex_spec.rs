// (inside mod lexer::tokens) spec side of the id conversions
