// (inside mod lexer::tokens) well-formedness of a packed (value type, payload id) word as ValueTypeAndPayloadId::new makes it
pub open spec fn vap_ok(v: ValueTypeAndPayloadId) -> bool { v.value_type_and_payload_id & 0xFF <= 14 }
// What the parser relies on about a token list produced by lex(): it ends in TWO EndOfSource tokens (so that one
// over-consumption is harmless), has fewer than 2^24 tokens (ids fit 24 bits) and every packed word is well formed.
pub open spec fn ltok_ok(t: Tokens) -> bool {
	&&& 2 <= t.tokens@.len() < 0x1000000
	&&& t.tokens@[t.tokens@.len() - 1] == BaseToken::EndOfSource
	&&& t.tokens@[t.tokens@.len() - 2] == BaseToken::EndOfSource
	&&& t.token_vaps@.len() == t.tokens@.len()
	&&& forall|i: int| 0 <= i < t.token_vaps@.len() ==> vap_ok(#[trigger] t.token_vaps@[i])
}
// spec side of the id conversions (vstd FromSpec mechanism)
impl vstd::std_specs::convert::FromSpecImpl<TokenId> for usize {
	open spec fn obeys_from_spec() -> bool { true }
	open spec fn from_spec(v: TokenId) -> usize { v.0 as usize }
}
impl vstd::std_specs::convert::FromSpecImpl<TokenId> for crate::TokenId {
	open spec fn obeys_from_spec() -> bool { false }
	open spec fn from_spec(v: TokenId) -> crate::TokenId { arbitrary() }
}
// trusted: #[derive(PartialEq)] on the field-less enum BaseToken is structural equality
impl vstd::std_specs::cmp::PartialEqSpecImpl for BaseToken {
	open spec fn obeys_eq_spec() -> bool { true }
	open spec fn eq_spec(&self, o: &Self) -> bool { *self == *o }
}
