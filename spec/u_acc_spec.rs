// U-ACC ghost specification (C13: the list of diagnostics is a function of the input, not of hash-table or traversal order).
// Written from the property statement: diagnostics are reported ORDERED BY PRIMARY LOCATION (file, line, column);
// diagnostics at the same place keep the order in which the compiler stages produced them.

// the primary position of a diagnostic, as compared by the compiler: (file name, line, column)
pub open spec fn key_of(l: Location) -> (Seq<char>, usize, usize) { (l.source_filename@, l.line_number, l.line_offset) }
pub open spec fn err_key(e: Error) -> (Seq<char>, usize, usize) { key_of(err_loc(e)) }

// lexicographic comparison of two positions: file name first (std string order, prelude/acc_opaque.rs), then line, then column
pub open spec fn key_cmp(a: (Seq<char>, usize, usize), b: (Seq<char>, usize, usize)) -> Ordering {
	if str_cmp(a.0, b.0) != Ordering::Equal { str_cmp(a.0, b.0) }
	else if a.1 < b.1 { Ordering::Less } else if a.1 > b.1 { Ordering::Greater }
	else if a.2 < b.2 { Ordering::Less } else if a.2 > b.2 { Ordering::Greater }
	else { Ordering::Equal }
}

// "a is reported no later than b"
pub open spec fn err_le(a: Error, b: Error) -> bool { key_cmp(err_key(a), err_key(b)) != Ordering::Greater }
pub open spec fn by_location() -> spec_fn(Error, Error) -> bool { |a: Error, b: Error| err_le(a, b) }

// the list is ordered by primary location
pub open spec fn ordered_by_location(s: Seq<Error>) -> bool {
	forall|i: int, j: int| 0 <= i < j < s.len() ==> err_le(#[trigger] s[i], #[trigger] s[j])
}

// `out` is exactly what must be reported for the diagnostics `inp` (in production order): the same diagnostics, ordered by
// location, ties in production order (prelude/acc_sort.rs: these conditions determine `out`)
pub open spec fn reported_order_of(inp: Seq<Error>, out: Seq<Error>) -> bool { is_stable_sort(inp, out, by_location()) }

// the codes of a list of diagnostics, in order
pub open spec fn codes_of(s: Seq<Error>) -> Seq<u16> { Seq::new(s.len(), |i: int| err_code(s[i])) }

// VERIFIED (from the std string-order axiom): "no later than" is a total preorder, and it is the order that
// key_cmp decides - the two preconditions of the sort wrapper.
pub proof fn lemma_by_location_is_total_preorder()
	ensures
		total_preorder(by_location()),
		forall|a: Error, b: Error| (#[trigger] key_cmp(err_key(a), err_key(b)) == Ordering::Greater) <==> !(by_location()(a, b)),
		forall|a: Error, b: Error| (#[trigger] key_cmp(err_key(a), err_key(b)) == Ordering::Less) <==> !(by_location()(b, a)),
{
	axiom_str_ord();
}

// VERIFIED, broadcast: the diagnostics of a concatenation are the diagnostics of both parts (vstd lemma, made available to the
// solver wherever a concatenation's multiset is mentioned, so that "keeps every error of both" does not depend on the
// direction of the concatenation - the direction is what the *_ties_in_production_order clauses are about)
// (in a module of its own: a module-level `broadcast use` must not reach the lemma's own proof)
pub mod acc_lemmas {
	use vstd::prelude::*;
	use super::Error;
	pub broadcast proof fn lemma_concat_multiset(a: Seq<Error>, b: Seq<Error>)
		ensures #[trigger] (a + b).to_multiset() == a.to_multiset().add(b.to_multiset()),
	{
		vstd::seq_lib::lemma_multiset_commutative(a, b);
	}
}
broadcast use acc_lemmas::lemma_concat_multiset;

// `Errors: From<Error>` opts out of vstd's value-level `from_spec` (a Vec cannot be built in spec code); the sliced `from`
// body is verified against its own `ensures` instead (same text as spec/u_res_spec.rs).
impl vstd::std_specs::convert::FromSpecImpl<Error> for Errors {
	open spec fn obeys_from_spec() -> bool { false }
	open spec fn from_spec(e: Error) -> Self { arbitrary() }
}
