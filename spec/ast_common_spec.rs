// trusted: the derived Clone impls of the (recursive) AST types are the identity
impl Clone for Identifier { #[verifier::external_body] fn clone(&self) -> (r: Self) ensures r == *self { unimplemented!() } }
impl Clone for Poison { #[verifier::external_body] fn clone(&self) -> (r: Self) ensures r == *self { unimplemented!() } }
impl Clone for Error { #[verifier::external_body] fn clone(&self) -> (r: Self) ensures r == *self { unimplemented!() } }
impl Clone for Statement { #[verifier::external_body] fn clone(&self) -> (r: Self) ensures r == *self { unimplemented!() } }
impl Clone for Block { #[verifier::external_body] fn clone(&self) -> (r: Self) ensures r == *self { unimplemented!() } }

// the location a diagnostic about statement s points to (what Statement::location returns)
pub open spec fn stmt_loc(s: Statement) -> Location {
	match s {
		Statement::Declaration { location, .. } => location,
		Statement::Assignment { location, .. } => location,
		Statement::MethodCall { name, .. } => name.location,
		Statement::Loop { location } => location,
		Statement::Goto { location, .. } => location,
		Statement::Label { location, .. } => location,
		Statement::If { location, .. } => location,
		Statement::Block(block) => block.location,
		Statement::Poison(_) => arbitrary(),
	}
}
