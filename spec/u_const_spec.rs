// ---------------------------------------------------------------------------------------------
// U-CONST ghost specification: the C08 oracle for the CONSTANT-EXPRESSION pass (src/alpha/analyzer/constness.rs), written from
//   the property statement "only vars and explicitly passed pointers can be mutated ... a call can change a variable of its
//     caller only if the caller wrote `&` on that argument" - the mutability walk (U-MUTW) does not enter the initialiser of a
//     constant and relies on this pass to keep `&`, calls and every access path other than a plain name out of it;
//   docs/errors.md E360 "A constant expression contains an unsupported operation" (example: `const X: &i32 = &A;`;
//     "In addition to literals and other constants, constant expressions may use basic arithmetic, bitwise operations and
//     primitive conversions"), E361 "A constant expression contains a function call",
//     E531-E533 (a whole array / array view / struct cannot be copied).
//
// const_ok(e): "e may stand in the initialiser of a constant" = the pass raises nothing anywhere in e.  Declarative, on the
//   input tree only:
//     literals (boolean, integer, bit, string), sizeof                         : yes
//     unary / binary operators, parentheses, casts and automatic coercions     : iff their operands are
//     array literals, structural literals                                      : iff every element / member value is
//     a reference                                                              : iff it is TRIVIAL - a plain name: no `&` (address depth 0), no
//                                                                                index, no member, no automatic deref/view step - and the value
//                                                                                read is not a whole array, array view or struct
//     `|x|` (length of array), function calls (builtins included)              : never
//     an expression already poisoned by an earlier stage                       : raises nothing new
// node_error(e) is the same rule for one node, with the documented error value:
//     reference with address_depth > 0 or any step  -> E360 UnsupportedInConstContext at the reference
//     `|x|`                                          -> E360 UnsupportedInConstContext at the expression
//     call                                           -> E361 FunctionInConstContext at the callee name
// and copy_error the rule for the value read through a trivial reference:
//     Array / EndlessArray -> E531 CannotCopyArray, Slice / SlicePointer / Arraylike -> E532 CannotCopySlice,
//     Struct -> E533 CannotCopyStruct, each at the reference, recorded in the TYPE slot of the Deref node (the node stays).
//
// The result is specified by a relational oracle: ok_X(r, x) <=> "r is what the pass must return for input x":
//   a node with node_error is REPLACED by Expression::Poison(Poison::Error(that error)) (its children are dropped, not analysed);
//   every other node keeps its constructor and all its non-recursive fields; children are related pairwise, same length, same order.
// (A Vec cannot be constructed in spec code, hence a relation; for a given input it determines the result up to the identity of
// Vec buffers.)  theorem_accepted_iff_unchanged ties the two: for r with ok_e(r, e): const_ok(e) <=> r is e, node for node.
// ---------------------------------------------------------------------------------------------

// ---- the recorded type and the location of an expression (accessors of typer.rs / common.rs: one projection per variant)
pub open spec fn etype(e: Expression) -> Option<Poisonable<ValueType>>
	decreases e
{
	match e {
		Expression::Binary { left, .. } => etype(*left),
		Expression::Unary { expression, .. } => etype(*expression),
		Expression::BooleanLiteral { .. } => Some(Ok(ValueType::Bool)),
		Expression::SignedIntegerLiteral { value_type, .. } => value_type,
		Expression::BitIntegerLiteral { value_type, .. } => value_type,
		Expression::ArrayLiteral { array, element_type } => match element_type {
			Some(Ok(t)) => Some(Ok(ValueType::Array { element_type: Box::new(t), length: array.elements@.len() as usize })),
			Some(Err(_)) => Some(Err(Poison::Poisoned)),
			None => None,
		},
		Expression::StringLiteral { bytes, .. } => Some(Ok(ValueType::Array { element_type: Box::new(ValueType::Char8), length: bytes@.len() as usize })),
		Expression::Structural { structural_type, .. } => Some(structural_type),
		Expression::Parenthesized { inner, .. } => etype(*inner),
		Expression::Deref { deref_type, .. } => deref_type,
		Expression::Autocoerce { coerced_type, .. } => Some(Ok(coerced_type)),
		Expression::BitCast { coerced_type, .. } => coerced_type,
		Expression::TypeCast { coerced_type, .. } => Some(Ok(coerced_type)),
		Expression::LengthOfArray { .. } => Some(Ok(ValueType::Usize)),
		Expression::SizeOf { .. } => Some(Ok(ValueType::Usize)),
		Expression::FunctionCall { return_type, .. } => return_type,
		Expression::Poison(_) => Some(Err(Poison::Poisoned)),
	}
}
// has a location: everything but a poisoned expression (an automatic coercion sits where its operand sits)
pub open spec fn loc_ok(e: Expression) -> bool
	decreases e
{
	match e {
		Expression::Autocoerce { expression, .. } => loc_ok(*expression),
		Expression::Poison(_) => false,
		_ => true,
	}
}
pub open spec fn eloc(e: Expression) -> Location
	decreases e
{
	match e {
		Expression::Binary { location, .. } => location,
		Expression::Unary { location, .. } => location,
		Expression::BooleanLiteral { location, .. } => location,
		Expression::SignedIntegerLiteral { location, .. } => location,
		Expression::BitIntegerLiteral { location, .. } => location,
		Expression::StringLiteral { location, .. } => location,
		Expression::ArrayLiteral { array, .. } => array.location,
		Expression::Structural { location, .. } => location,
		Expression::Parenthesized { location, .. } => location,
		Expression::Deref { reference, .. } => reference.location,
		Expression::Autocoerce { expression, .. } => eloc(*expression),
		Expression::BitCast { location, .. } => location,
		Expression::TypeCast { location, .. } => location,
		Expression::LengthOfArray { location, .. } => location,
		Expression::SizeOf { location, .. } => location,
		Expression::FunctionCall { name, .. } => name.location,
		Expression::Poison(_) => arbitrary(),
	}
}

// ---- the rule, node by node
// a plain name: no address taken, no index / member / automatic step
pub open spec fn trivial(r: Reference) -> bool { r.address_depth == 0 && r.steps@.len() == 0 }
pub open spec fn poisoned(error: Error) -> Expression { Expression::Poison(Poison::Error(error)) }
pub open spec fn e360(location: Location) -> Expression { poisoned(Error::UnsupportedInConstContext { location }) }
pub open spec fn e361(location: Location) -> Expression { poisoned(Error::FunctionInConstContext { location }) }
// the error raised AT this node (None: the node itself may stand in a constant expression)
pub open spec fn node_error(e: Expression) -> Option<Error> {
	match e {
		Expression::Deref { reference, .. } => if trivial(reference) { None } else { Some(Error::UnsupportedInConstContext { location: reference.location }) },
		Expression::LengthOfArray { location, .. } => Some(Error::UnsupportedInConstContext { location }),
		Expression::FunctionCall { name, .. } => Some(Error::FunctionInConstContext { location: name.location }),
		_ => None,
	}
}
// reading a whole array, array view or struct: no copy (E531-E533), at the reference
pub open spec fn copy_error(t: Option<Poisonable<ValueType>>, location: Location) -> Option<Error> {
	match t {
		Some(Ok(vt)) =>
			if vt is Array || vt is EndlessArray { Some(Error::CannotCopyArray { location }) }
			else if vt is Slice || vt is SlicePointer || vt is Arraylike { Some(Error::CannotCopySlice { location }) }
			else if vt is Struct { Some(Error::CannotCopyStruct { location }) }
			else { None },
		_ => None,
	}
}
// the type slot of a Deref node that stays
pub open spec fn deref_type_rule(t: Option<Poisonable<ValueType>>, location: Location) -> Option<Poisonable<ValueType>> {
	match copy_error(t, location) { Some(error) => Some(Err(Poison::Error(error))), None => t }
}

// ---- const_ok: may stand in the initialiser of a constant (the pass raises nothing anywhere in e)
pub open spec fn const_ok(e: Expression) -> bool
	decreases e
{
	match e {
		Expression::BooleanLiteral { .. } => true,
		Expression::SignedIntegerLiteral { .. } => true,
		Expression::BitIntegerLiteral { .. } => true,
		Expression::StringLiteral { .. } => true,
		Expression::SizeOf { .. } => true,
		Expression::Binary { left, right, .. } => const_ok(*left) && const_ok(*right),
		Expression::Unary { expression, .. } => const_ok(*expression),
		Expression::Parenthesized { inner, .. } => const_ok(*inner),
		Expression::Autocoerce { expression, .. } => const_ok(*expression),
		Expression::BitCast { expression, .. } => const_ok(*expression),
		Expression::TypeCast { expression, .. } => const_ok(*expression),
		Expression::ArrayLiteral { array, .. } => forall|i: int| 0 <= i < array.elements@.len() ==> const_ok(#[trigger] array.elements@[i]),
		Expression::Structural { members, .. } => forall|i: int| 0 <= i < members@.len() ==> const_ok((#[trigger] members@[i]).expression),
		// another constant, by its plain name, read as a scalar (or pointer) value
		Expression::Deref { reference, deref_type } => trivial(reference) && copy_error(deref_type, reference.location) is None,
		Expression::LengthOfArray { .. } => false,
		Expression::FunctionCall { .. } => false,
		// poisoned by an earlier stage: nothing new is raised
		Expression::Poison(_) => true,
	}
}

// ---- the result of the pass (relational oracle)
pub open spec fn ok_e(r: Expression, e: Expression) -> bool
	decreases e, 0int
{
	match node_error(e) {
		Some(error) => r == poisoned(error),
		None => match e {
			Expression::Binary { op, left, right, location, location_of_op } => {
				&&& r is Binary
				&&& r->Binary_op == op && r->Binary_location == location && r->Binary_location_of_op == location_of_op
				&&& ok_e(*r->Binary_left, *left)
				&&& ok_e(*r->Binary_right, *right)
			},
			Expression::Unary { op, expression, location, location_of_op } => {
				&&& r is Unary
				&&& r->Unary_op == op && r->Unary_location == location && r->Unary_location_of_op == location_of_op
				&&& ok_e(*r->Unary_expression, *expression)
			},
			Expression::ArrayLiteral { array, element_type } => {
				&&& r is ArrayLiteral
				&&& r->ArrayLiteral_element_type == element_type
				&&& ok_a(r->ArrayLiteral_array, array)
			},
			Expression::Structural { members, structural_type, location } => {
				&&& r is Structural
				&&& r->Structural_structural_type == structural_type && r->Structural_location == location
				&&& r->Structural_members@.len() == members@.len()
				&&& forall|i: int| 0 <= i < members@.len() ==> ok_m(#[trigger] r->Structural_members@[i], members@[i])
			},
			Expression::Parenthesized { inner, location } => {
				&&& r is Parenthesized
				&&& r->Parenthesized_location == location
				&&& ok_e(*r->Parenthesized_inner, *inner)
			},
			// a trivial reference (node_error is None): the node stays; E531-E533 go into its type slot
			Expression::Deref { reference, deref_type } => {
				&&& r is Deref
				&&& r->Deref_deref_type == deref_type_rule(deref_type, reference.location)
				&&& ok_r(r->Deref_reference, reference)
			},
			Expression::Autocoerce { expression, coerced_type } => {
				&&& r is Autocoerce
				&&& r->Autocoerce_coerced_type == coerced_type
				&&& ok_e(*r->Autocoerce_expression, *expression)
			},
			Expression::BitCast { expression, coerced_type, location, location_of_keyword } => {
				&&& r is BitCast
				&&& r->BitCast_coerced_type == coerced_type && r->BitCast_location == location && r->BitCast_location_of_keyword == location_of_keyword
				&&& ok_e(*r->BitCast_expression, *expression)
			},
			Expression::TypeCast { expression, coerced_type, location, location_of_type } => {
				&&& r is TypeCast
				&&& r->TypeCast_coerced_type == coerced_type && r->TypeCast_location == location && r->TypeCast_location_of_type == location_of_type
				&&& ok_e(*r->TypeCast_expression, *expression)
			},
			// literals, sizeof, already poisoned
			_ => r == e,
		},
	}
}
pub open spec fn ok_a(ra: Array, a: Array) -> bool
	decreases a, 0int
{
	&&& ra.location == a.location && ra.resolution_id == a.resolution_id
	&&& ra.elements@.len() == a.elements@.len()
	&&& forall|i: int| 0 <= i < a.elements@.len() ==> ok_e(#[trigger] ra.elements@[i], a.elements@[i])
}
pub open spec fn ok_m(rm: MemberExpression, m: MemberExpression) -> bool
	decreases m, 0int
{
	rm.name == m.name && rm.offset == m.offset && ok_e(rm.expression, m.expression)
}
// Reference::analyze / ReferenceStep::analyze as functions in their own right.  (Inside the pass they only ever see a trivial
// reference, i.e. no step at all: a reference with steps is rejected as a whole by node_error.)
pub open spec fn ok_r(rr: Reference, r: Reference) -> bool
	decreases r, 0int
{
	&&& rr.base == r.base && rr.address_depth == r.address_depth && rr.location == r.location
	&&& rr.location_of_unaddressed == r.location_of_unaddressed
	&&& rr.steps@.len() == r.steps@.len()
	&&& forall|i: int| 0 <= i < r.steps@.len() ==> ok_step(#[trigger] rr.steps@[i], r.steps@[i])
}
// an index of known type other than usize is E503 (IndexTypeMismatch) at the index expression
pub open spec fn index_rule(a: Expression) -> Expression {
	match etype(a) {
		Some(Ok(t)) => if t is Usize { a } else {
			poisoned(Error::IndexTypeMismatch { argument_type: t, index_type: ValueType::Usize, location: eloc(a) })
		},
		_ => a,
	}
}
pub open spec fn ok_step(rs: ReferenceStep, s: ReferenceStep) -> bool
	decreases s, 0int
{
	match s {
		ReferenceStep::Element { argument, is_endless } => rs is Element && rs->Element_is_endless == is_endless
			&& exists|a: Expression| ok_e(a, *argument) && *rs->Element_argument == #[trigger] index_rule(a),
		_ => rs == s,
	}
}
// caller obligation of ReferenceStep::analyze (Expression::location is unreachable!() on a poisoned expression): an index that is
// an automatic coercion to a type other than usize must keep a location through the pass.  No call site inside constness.rs needs
// it: the only caller chain is Expression::Deref -> Reference -> ReferenceStep, taken for references WITHOUT steps only.
pub open spec fn survives(e: Expression) -> bool
	decreases e
{
	match e {
		Expression::Autocoerce { expression, .. } => survives(*expression),
		Expression::Poison(_) => false,
		_ => node_error(e) is None,
	}
}
pub open spec fn pre_step(s: ReferenceStep) -> bool {
	match s {
		ReferenceStep::Element { argument, .. } => (*argument is Autocoerce && !(argument->Autocoerce_coerced_type is Usize)) ==> survives(*argument),
		_ => true,
	}
}
pub open spec fn pre_r(r: Reference) -> bool {
	forall|i: int| 0 <= i < r.steps@.len() ==> pre_step(#[trigger] r.steps@[i])
}
pub open spec fn ok_d(r: Declaration, d: Declaration) -> bool {
	match d {
		Declaration::Constant { name, value, value_type, flags, depth, location_of_declaration, location_of_type } => {
			&&& r is Constant
			&&& r->Constant_name == name && r->Constant_value_type == value_type && r->Constant_flags == flags && r->Constant_depth == depth
			&&& r->Constant_location_of_declaration == location_of_declaration && r->Constant_location_of_type == location_of_type
			&&& ok_e(r->Constant_value, value)
		},
		// functions, function heads, structures, imports, poison: not this pass's business
		_ => r == d,
	}
}

// ---- lemma used by the proof of ReferenceStep::analyze: what survives the pass still has a location
pub proof fn lemma_survivor_located(a: Expression, e: Expression)
	requires ok_e(a, e), survives(e),
	ensures loc_ok(a),
	decreases e
{
	match e {
		Expression::Autocoerce { expression, .. } => { lemma_survivor_located(*a->Autocoerce_expression, *expression); },
		_ => {},
	}
}
// a result that is not an automatic coercion has a location unless it is poison (whose recorded type is poison)
pub proof fn lemma_plain_located(a: Expression, e: Expression)
	requires ok_e(a, e), !(e is Autocoerce),
	ensures loc_ok(a) || a is Poison,
{
}

// ---- what the oracle says, spelled out (sanity of the spec against the property text)
// "r is e, node for node" (structural identity up to the identity of Vec buffers)
pub open spec fn same_e(r: Expression, e: Expression) -> bool
	decreases e, 0int
{
	match e {
		Expression::Binary { op, left, right, location, location_of_op } => {
			&&& r is Binary
			&&& r->Binary_op == op && r->Binary_location == location && r->Binary_location_of_op == location_of_op
			&&& same_e(*r->Binary_left, *left)
			&&& same_e(*r->Binary_right, *right)
		},
		Expression::Unary { op, expression, location, location_of_op } => {
			&&& r is Unary
			&&& r->Unary_op == op && r->Unary_location == location && r->Unary_location_of_op == location_of_op
			&&& same_e(*r->Unary_expression, *expression)
		},
		Expression::ArrayLiteral { array, element_type } => {
			&&& r is ArrayLiteral
			&&& r->ArrayLiteral_element_type == element_type
			&&& r->ArrayLiteral_array.location == array.location && r->ArrayLiteral_array.resolution_id == array.resolution_id
			&&& r->ArrayLiteral_array.elements@.len() == array.elements@.len()
			&&& forall|i: int| 0 <= i < array.elements@.len() ==> same_e(#[trigger] r->ArrayLiteral_array.elements@[i], array.elements@[i])
		},
		Expression::Structural { members, structural_type, location } => {
			&&& r is Structural
			&&& r->Structural_structural_type == structural_type && r->Structural_location == location
			&&& r->Structural_members@.len() == members@.len()
			&&& forall|i: int| 0 <= i < members@.len() ==> {
				&&& (#[trigger] r->Structural_members@[i]).name == members@[i].name
				&&& r->Structural_members@[i].offset == members@[i].offset
				&&& same_e(r->Structural_members@[i].expression, members@[i].expression)
			}
		},
		Expression::Parenthesized { inner, location } => {
			&&& r is Parenthesized
			&&& r->Parenthesized_location == location
			&&& same_e(*r->Parenthesized_inner, *inner)
		},
		Expression::Autocoerce { expression, coerced_type } => {
			&&& r is Autocoerce
			&&& r->Autocoerce_coerced_type == coerced_type
			&&& same_e(*r->Autocoerce_expression, *expression)
		},
		Expression::BitCast { expression, coerced_type, location, location_of_keyword } => {
			&&& r is BitCast
			&&& r->BitCast_coerced_type == coerced_type && r->BitCast_location == location && r->BitCast_location_of_keyword == location_of_keyword
			&&& same_e(*r->BitCast_expression, *expression)
		},
		Expression::TypeCast { expression, coerced_type, location, location_of_type } => {
			&&& r is TypeCast
			&&& r->TypeCast_coerced_type == coerced_type && r->TypeCast_location == location && r->TypeCast_location_of_type == location_of_type
			&&& same_e(*r->TypeCast_expression, *expression)
		},
		// references are compared as far as the pass can let them through: all fields, step sequences equal
		Expression::Deref { reference, deref_type } => {
			&&& r is Deref
			&&& r->Deref_deref_type == deref_type
			&&& r->Deref_reference.base == reference.base && r->Deref_reference.address_depth == reference.address_depth
			&&& r->Deref_reference.location == reference.location && r->Deref_reference.location_of_unaddressed == reference.location_of_unaddressed
			&&& r->Deref_reference.steps@ == reference.steps@
		},
		_ => r == e,
	}
}
// THE reading of the oracle: the pass hands back the initialiser untouched exactly when it may stand in a constant
pub proof fn theorem_accepted_iff_unchanged(r: Expression, e: Expression)
	requires ok_e(r, e),
	ensures const_ok(e) <==> same_e(r, e),
	decreases e
{
	reveal_with_fuel(ok_e, 2); reveal_with_fuel(ok_a, 2); reveal_with_fuel(ok_m, 2); reveal_with_fuel(ok_r, 2);
	match e {
		Expression::Binary { left, right, .. } => {
			theorem_accepted_iff_unchanged(*r->Binary_left, *left);
			theorem_accepted_iff_unchanged(*r->Binary_right, *right);
		},
		Expression::Unary { expression, .. } => { theorem_accepted_iff_unchanged(*r->Unary_expression, *expression); },
		Expression::Parenthesized { inner, .. } => { theorem_accepted_iff_unchanged(*r->Parenthesized_inner, *inner); },
		Expression::Autocoerce { expression, .. } => { theorem_accepted_iff_unchanged(*r->Autocoerce_expression, *expression); },
		Expression::BitCast { expression, .. } => { theorem_accepted_iff_unchanged(*r->BitCast_expression, *expression); },
		Expression::TypeCast { expression, .. } => { theorem_accepted_iff_unchanged(*r->TypeCast_expression, *expression); },
		Expression::ArrayLiteral { array, .. } => {
			let ra = r->ArrayLiteral_array;
			assert forall|i: int| 0 <= i < array.elements@.len() implies (const_ok(#[trigger] array.elements@[i]) <==> same_e(ra.elements@[i], array.elements@[i])) by {
				assert(ok_e(ra.elements@[i], array.elements@[i]));
				theorem_accepted_iff_unchanged(ra.elements@[i], array.elements@[i]);
			}
			if const_ok(e) {
				assert forall|i: int| 0 <= i < array.elements@.len() implies same_e(#[trigger] ra.elements@[i], array.elements@[i]) by {
					assert(const_ok(array.elements@[i]));
				}
			}
			if same_e(r, e) {
				assert forall|i: int| 0 <= i < array.elements@.len() implies const_ok(#[trigger] array.elements@[i]) by {
					assert(same_e(ra.elements@[i], array.elements@[i]));
				}
			}
		},
		Expression::Structural { members, .. } => {
			let rm = r->Structural_members;
			assert forall|i: int| 0 <= i < members@.len() implies (const_ok((#[trigger] members@[i]).expression) <==> same_e(rm@[i].expression, members@[i].expression)) by {
				assert(ok_m(rm@[i], members@[i]));
				theorem_accepted_iff_unchanged(rm@[i].expression, members@[i].expression);
			}
			if const_ok(e) {
				assert forall|i: int| 0 <= i < members@.len() implies same_e((#[trigger] rm@[i]).expression, members@[i].expression)
					&& rm@[i].name == members@[i].name && rm@[i].offset == members@[i].offset by {
					assert(const_ok(members@[i].expression));
					assert(ok_m(rm@[i], members@[i]));
				}
			}
			if same_e(r, e) {
				assert forall|i: int| 0 <= i < members@.len() implies const_ok((#[trigger] members@[i]).expression) by {
					assert(same_e(rm@[i].expression, members@[i].expression));
				}
			}
		},
		Expression::Deref { reference, deref_type } => {
			if trivial(reference) {
				assert(r->Deref_reference.steps@ =~= reference.steps@);
			}
		},
		_ => {},
	}
}
// E360 example of docs/errors.md: `const X: &i32 = &A;` - an address taken inside a constant expression is ALWAYS rejected
pub proof fn lemma_address_in_constant_is_rejected(r: Expression, e: Expression)
	requires ok_e(r, e), e is Deref, e->Deref_reference.address_depth > 0,
	ensures r == e360(e->Deref_reference.location), !const_ok(e),
{
}
// `const B: i32 = A;` - another constant, by its plain name, is accepted and handed back as it is
pub proof fn lemma_trivial_reference_accepted(r: Expression, e: Expression, t: ValueType)
	requires ok_e(r, e), e is Deref, trivial(e->Deref_reference), e->Deref_deref_type == Some(Ok::<ValueType, Poison>(t)), t is Int32 || t is Usize || t is Bool || t is Pointer,
	ensures const_ok(e), r is Deref, r->Deref_deref_type == e->Deref_deref_type, r->Deref_reference.base == e->Deref_reference.base,
		r->Deref_reference.address_depth == 0, r->Deref_reference.steps@.len() == 0,
{
	reveal_with_fuel(ok_e, 2); reveal_with_fuel(ok_r, 2);
}
// E361 example: `const A: i32 = calculate_value();`, also below operators: `const A: i32 = 1 + f();` keeps the `1 +` and poisons the call
pub proof fn lemma_call_in_constant_is_rejected(r: Expression, e: Expression)
	requires ok_e(r, e), e is Binary, *e->Binary_right is FunctionCall,
	ensures r is Binary, *r->Binary_right == e361(e->Binary_right->FunctionCall_name.location), !const_ok(e),
{
	reveal_with_fuel(ok_e, 2); reveal_with_fuel(const_ok, 2);
}
// a declared constant: accepted iff handed back with its initialiser untouched
pub proof fn theorem_constant_accepted_iff_unchanged(r: Declaration, d: Declaration)
	requires ok_d(r, d), d is Constant,
	ensures r is Constant, const_ok(d->Constant_value) <==> same_e(r->Constant_value, d->Constant_value),
{
	theorem_accepted_iff_unchanged(r->Constant_value, d->Constant_value);
}
