// ---------------------------------------------------------------------------------------------
// U-MUTW ghost specification: the C08 oracle for the mutability TREE WALK, written from the property statement
//   "Assignments to constants, to by-value parameters or through array/struct views are rejected (E530) ...
//    only vars and explicitly passed pointers can be mutated."
// and docs/features.md ("Views ... only give immutable access. For mutable access, a pointer is needed. Pointers can be
// created by taking the address of a variable using `&`"), docs/errors.md E530 ("A constant or parameter of a non-pointer
// type is mutated, or a variable of a non-mutable type is mutated").
//
// Two ingredients (the two mechanisms the property names):
//  (1) a mutability bit per declaration (table `Vars`: resolution id -> (declaring identifier, mutable?)):
//        `var` declarations are mutable, except vars whose type is itself a view (array view, slice pointer, struct view);
//        constants and parameters - ALL parameters, pointer parameters included - are immutable.
//      A pointer parameter `x: &i32` can still be written THROUGH (`x = 10`): that write passes through a pointer and so
//      does not need the parameter itself to be mutable; re-pointing the parameter (`&x = &y`) does and is rejected.
//      Error recovery (not in the property, which speaks about programs whose only fault is the mutation): a constant or
//      parameter whose type is already poisoned by an earlier error is entered as mutable so that no second error is raised.
//  (2) a USE of a variable mutates the variable itself iff it is
//        - the target of an assignment whose reference does not pass through a pointer, or
//        - an address-taking `&x..` (address_depth > 0) whose reference does not pass through a pointer
//          (this is how a variable is handed to a pointer parameter; the callee may then write it),
//      and every other use (reading, `|x|`, indexing expressions, call arguments by value/view) does not.
//      A mutating use of a known immutable variable is REPLACED by the E530 poison `Error::NotMutable`; a use of an identifier
//      that is not in the table (an earlier error) is replaced by silent poison; everything else is analysed recursively and
//      otherwise left unchanged, in order.
//
// The oracle is relational: ok_X(r, x, t) <=> "r is what the walk must return for input x under table t".  (A Vec cannot be
// constructed in spec code, so children held in a Vec are related pairwise, same length, same order; every non-recursive field
// and every leaf is pinned with ==.  For a given input the relation determines the result up to the identity of Vec buffers.)
// The table after the walk is functional: tbl_X(x, t).
// Uses from spec/u_mut_spec.rs: Vars, use_variable_spec (E530 iff known, mutated, declared immutable), passes_through_pointer.
// ---------------------------------------------------------------------------------------------

// ---- (1) the mutability bit
pub open spec fn is_view_type(t: ValueType) -> bool { t is Slice || t is SlicePointer || t is View }
// `var x: T`: mutable unless T is a view type (no type yet / poisoned type: mutable)
pub open spec fn var_mutable(vt: Option<Poisonable<ValueType>>) -> bool {
	!(vt is Some && vt->0 is Ok && is_view_type(vt->0->Ok_0))
}
// constants and parameters: immutable (poisoned type: error recovery, see above)
pub open spec fn fixed_mutable(vt: Poisonable<ValueType>) -> bool { vt is Err }
pub open spec fn declare(t: Vars, name: Identifier, is_mutable: bool) -> Vars { t.insert(name.resolution_id, (name, is_mutable)) }

// ---- (2) which uses mutate the variable itself
pub open spec fn assignment_mutates_variable(target: Reference) -> bool { !(passes_through_pointer(target.steps@)) }
pub open spec fn address_taken_of_variable(r: Reference) -> bool { r.address_depth > 0 && !(passes_through_pointer(r.steps@)) }

// ---- expressions: the table is only read
pub open spec fn ok_e(r: Expression, e: Expression, t: Vars) -> bool
	decreases e, 0int
{
	match e {
		Expression::Binary { op, left, right, location, location_of_op } => {
			&&& r is Binary
			&&& r->Binary_op == op && r->Binary_location == location && r->Binary_location_of_op == location_of_op
			&&& ok_e(*r->Binary_left, *left, t)
			&&& ok_e(*r->Binary_right, *right, t)
		},
		Expression::Unary { op, expression, location, location_of_op } => {
			&&& r is Unary
			&&& r->Unary_op == op && r->Unary_location == location && r->Unary_location_of_op == location_of_op
			&&& ok_e(*r->Unary_expression, *expression, t)
		},
		Expression::ArrayLiteral { array, element_type } => {
			&&& r is ArrayLiteral
			&&& r->ArrayLiteral_element_type == element_type
			&&& ok_a(r->ArrayLiteral_array, array, t)
		},
		Expression::Structural { members, structural_type, location } => {
			&&& r is Structural
			&&& r->Structural_structural_type == structural_type && r->Structural_location == location
			&&& r->Structural_members@.len() == members@.len()
			&&& forall|i: int| 0 <= i < members@.len() ==> ok_m(#[trigger] r->Structural_members@[i], members@[i], t)
		},
		Expression::Parenthesized { inner, location } => {
			&&& r is Parenthesized
			&&& r->Parenthesized_location == location
			&&& ok_e(*r->Parenthesized_inner, *inner, t)
		},
		Expression::Autocoerce { expression, coerced_type } => {
			&&& r is Autocoerce
			&&& r->Autocoerce_coerced_type == coerced_type
			&&& ok_e(*r->Autocoerce_expression, *expression, t)
		},
		Expression::BitCast { expression, coerced_type, location, location_of_keyword } => {
			&&& r is BitCast
			&&& r->BitCast_coerced_type == coerced_type && r->BitCast_location == location && r->BitCast_location_of_keyword == location_of_keyword
			&&& ok_e(*r->BitCast_expression, *expression, t)
		},
		Expression::TypeCast { expression, coerced_type, location, location_of_type } => {
			&&& r is TypeCast
			&&& r->TypeCast_coerced_type == coerced_type && r->TypeCast_location == location && r->TypeCast_location_of_type == location_of_type
			&&& ok_e(*r->TypeCast_expression, *expression, t)
		},
		// a variable is used, possibly with its address taken: E530 iff the address of an immutable variable itself is taken
		Expression::Deref { reference, deref_type } => match use_variable_spec(t, reference.base, address_taken_of_variable(reference)) {
			Ok(_) => {
				&&& r is Deref
				&&& r->Deref_deref_type == deref_type
				&&& ok_r(r->Deref_reference, reference, t)
			},
			Err(p) => r == Expression::Poison(p),
		},
		// `|x|` reads
		Expression::LengthOfArray { reference, location } => match use_variable_spec(t, reference.base, false) {
			Ok(_) => {
				&&& r is LengthOfArray
				&&& r->LengthOfArray_location == location
				&&& ok_r(r->LengthOfArray_reference, reference, t)
			},
			Err(p) => r == Expression::Poison(p),
		},
		// EVERY call, builtin or not: all arguments analysed, in order
		Expression::FunctionCall { name, builtin, arguments, return_type } => {
			&&& r is FunctionCall
			&&& r->FunctionCall_name == name && r->FunctionCall_builtin == builtin && r->FunctionCall_return_type == return_type
			&&& r->FunctionCall_arguments@.len() == arguments@.len()
			&&& forall|i: int| 0 <= i < arguments@.len() ==> ok_e(#[trigger] r->FunctionCall_arguments@[i], arguments@[i], t)
		},
		// literals, sizeof, already poisoned
		_ => r == e,
	}
}
pub open spec fn ok_a(ra: Array, a: Array, t: Vars) -> bool
	decreases a, 0int
{
	&&& ra.location == a.location && ra.resolution_id == a.resolution_id
	&&& ra.elements@.len() == a.elements@.len()
	&&& forall|i: int| 0 <= i < a.elements@.len() ==> ok_e(#[trigger] ra.elements@[i], a.elements@[i], t)
}
pub open spec fn ok_m(rm: MemberExpression, m: MemberExpression, t: Vars) -> bool
	decreases m, 0int
{
	rm.name == m.name && rm.offset == m.offset && ok_e(rm.expression, m.expression, t)
}
// a reference `&&base[i].m..`: only the index expressions are analysed; whether the base is mutated is decided by the user of the reference
pub open spec fn ok_r(rr: Reference, r: Reference, t: Vars) -> bool
	decreases r, 0int
{
	&&& rr.base == r.base && rr.address_depth == r.address_depth && rr.location == r.location
	&&& rr.location_of_unaddressed == r.location_of_unaddressed
	&&& rr.steps@.len() == r.steps@.len()
	&&& forall|i: int| 0 <= i < r.steps@.len() ==> ok_step(#[trigger] rr.steps@[i], r.steps@[i], t)
}
pub open spec fn ok_step(rs: ReferenceStep, s: ReferenceStep, t: Vars) -> bool
	decreases s, 0int
{
	match s {
		ReferenceStep::Element { argument, is_endless } => {
			&&& rs is Element
			&&& rs->Element_is_endless == is_endless
			&&& ok_e(*rs->Element_argument, *argument, t)
		},
		_ => rs == s,
	}
}
pub open spec fn ok_oe(r: Option<Expression>, e: Option<Expression>, t: Vars) -> bool {
	match e { Some(x) => r is Some && ok_e(r->0, x, t), None => r is None }
}
pub open spec fn ok_c(rc: Comparison, c: Comparison, t: Vars) -> bool {
	&&& rc.op == c.op && rc.location == c.location && rc.location_of_op == c.location_of_op
	&&& ok_e(rc.left, c.left, t)
	&&& ok_e(rc.right, c.right, t)
}

// ---- statements: the table after the walk ...
pub open spec fn tbl_s(s: Statement, t: Vars) -> Vars
	decreases s, 0int
{
	match s {
		Statement::Declaration { name, value, value_type, location } => declare(t, name, var_mutable(value_type)),
		Statement::If { condition, then_branch, else_branch, location } => {
			let t1 = tbl_s(*then_branch, t);
			match else_branch { Some(e) => tbl_s(*e.branch, t1), None => t1 }
		},
		// no scoping: declarations are keyed by resolution id, a block's declarations stay in the table
		Statement::Block(b) => tbl_b(b, b.statements@.len() as int, t),
		_ => t,
	}
}
// ... after the first k statements of a block
pub open spec fn tbl_b(b: Block, k: int, t: Vars) -> Vars
	decreases b, k
{
	if 0 < k <= b.statements@.len() { tbl_s(b.statements@[k - 1], tbl_b(b, k - 1, t)) } else { t }
}
// ... and the result
pub open spec fn ok_s(r: Statement, s: Statement, t: Vars) -> bool
	decreases s, 0int
{
	match s {
		// the initialiser is analysed BEFORE the name is declared
		Statement::Declaration { name, value, value_type, location } => {
			&&& r is Declaration
			&&& r->Declaration_name == name && r->Declaration_value_type == value_type && r->Declaration_location == location
			&&& ok_oe(r->Declaration_value, value, t)
		},
		// E530 iff the target is a known immutable variable and the write does not pass through a pointer
		Statement::Assignment { reference, value, location } => match use_variable_spec(t, reference.base, assignment_mutates_variable(reference)) {
			Ok(_) => {
				&&& r is Assignment
				&&& r->Assignment_location == location
				&&& ok_e(r->Assignment_value, value, t)
				&&& ok_r(r->Assignment_reference, reference, t)
			},
			Err(p) => r == Statement::Poison(p),
		},
		// EVERY call statement, builtin or not: all arguments analysed, in order
		Statement::MethodCall { name, builtin, arguments } => {
			&&& r is MethodCall
			&&& r->MethodCall_name == name && r->MethodCall_builtin == builtin
			&&& r->MethodCall_arguments@.len() == arguments@.len()
			&&& forall|i: int| 0 <= i < arguments@.len() ==> ok_e(#[trigger] r->MethodCall_arguments@[i], arguments@[i], t)
		},
		Statement::If { condition, then_branch, else_branch, location } => {
			&&& r is If
			&&& r->If_location == location
			&&& ok_c(r->If_condition, condition, t)
			&&& ok_s(*r->If_then_branch, *then_branch, t)
			&&& match else_branch {
				None => r->If_else_branch is None,
				Some(e) => r->If_else_branch is Some && r->If_else_branch->0.location_of_else == e.location_of_else
					&& ok_s(*r->If_else_branch->0.branch, *e.branch, tbl_s(*then_branch, t)),
			}
		},
		Statement::Block(b) => r is Block && ok_b(r->Block_0, b, t),
		// loop, goto, label, already poisoned
		_ => r == s,
	}
}
pub open spec fn ok_b(rb: Block, b: Block, t: Vars) -> bool
	decreases b, 1int
{
	&&& rb.location == b.location
	&&& rb.statements@.len() == b.statements@.len()
	&&& forall|i: int| 0 <= i < b.statements@.len() ==> ok_at(#[trigger] rb.statements@[i], b, i, t)
}
// statement i of a block is analysed under the table left by statements 0..i
pub open spec fn ok_at(r: Statement, b: Block, i: int, t: Vars) -> bool
	decreases b, 0int
{
	if 0 <= i < b.statements@.len() { ok_s(r, b.statements@[i], tbl_b(b, i, t)) } else { true }
}

// ---- function bodies: statements in order, then the return value under the final table
pub open spec fn tbl_f(f: FunctionBody, k: int, t: Vars) -> Vars
	decreases k
{
	if 0 < k <= f.statements@.len() { tbl_s(f.statements@[k - 1], tbl_f(f, k - 1, t)) } else { t }
}
pub open spec fn ok_f(rf: FunctionBody, f: FunctionBody, t: Vars) -> bool {
	&&& rf.return_value_identifier == f.return_value_identifier
	&&& rf.statements@.len() == f.statements@.len()
	&&& forall|i: int| 0 <= i < f.statements@.len() ==> ok_s(#[trigger] rf.statements@[i], f.statements@[i], tbl_f(f, i, t))
	&&& ok_oe(rf.return_value, f.return_value, tbl_f(f, f.statements@.len() as int, t))
}

// ---- declarations
// parameters and constants: immutable
pub open spec fn tbl_param(p: Parameter, t: Vars) -> Vars {
	match p.name { Ok(name) => declare(t, name, fixed_mutable(p.value_type)), Err(_) => t }
}
pub open spec fn tbl_params(ps: Seq<Parameter>, k: int, t: Vars) -> Vars
	decreases k
{
	if 0 < k <= ps.len() { tbl_param(ps[k - 1], tbl_params(ps, k - 1, t)) } else { t }
}
// structure members are not variables; whether `s.m = ..` is allowed is decided by `s`.  Their names are entered as mutable
pub open spec fn tbl_member(m: Member, t: Vars) -> Vars {
	match m.name { Ok(name) => declare(t, name, true), Err(_) => t }
}
pub open spec fn tbl_members(ms: Seq<Member>, k: int, t: Vars) -> Vars
	decreases k
{
	if 0 < k <= ms.len() { tbl_member(ms[k - 1], tbl_members(ms, k - 1, t)) } else { t }
}
pub open spec fn tbl_d(d: Declaration, t: Vars) -> Vars {
	match d {
		Declaration::Constant { name, value_type, .. } => declare(t, name, fixed_mutable(value_type)),
		Declaration::Function { parameters, body, .. } => {
			let t1 = tbl_params(parameters@, parameters@.len() as int, t);
			match body { Ok(f) => tbl_f(f, f.statements@.len() as int, t1), Err(_) => t1 }
		},
		Declaration::FunctionHead { parameters, .. } => tbl_params(parameters@, parameters@.len() as int, t),
		Declaration::Structure { members, .. } => tbl_members(members@, members@.len() as int, t),
		_ => t,
	}
}
pub open spec fn ok_d(r: Declaration, d: Declaration, t: Vars) -> bool {
	match d {
		// the function body is analysed under the table that holds the parameters
		Declaration::Function { name, parameters, body, return_type, flags, location_of_declaration, location_of_return_type } => {
			&&& r is Function
			&&& r->Function_name == name && r->Function_return_type == return_type && r->Function_flags == flags
			&&& r->Function_location_of_declaration == location_of_declaration && r->Function_location_of_return_type == location_of_return_type
			&&& r->Function_parameters@ == parameters@
			&&& match body {
				Ok(f) => r->Function_body is Ok && ok_f(r->Function_body->Ok_0, f, tbl_params(parameters@, parameters@.len() as int, t)),
				Err(_) => r->Function_body == body,
			}
		},
		Declaration::FunctionHead { name, parameters, return_type, flags, location_of_declaration, location_of_return_type } => {
			&&& r is FunctionHead
			&&& r->FunctionHead_name == name && r->FunctionHead_return_type == return_type && r->FunctionHead_flags == flags
			&&& r->FunctionHead_location_of_declaration == location_of_declaration
			&&& r->FunctionHead_location_of_return_type == location_of_return_type
			&&& r->FunctionHead_parameters@ == parameters@
		},
		Declaration::Structure { name, members, structural_type, flags, depth, location_of_declaration } => {
			&&& r is Structure
			&&& r->Structure_name == name && r->Structure_structural_type == structural_type && r->Structure_flags == flags
			&&& r->Structure_depth == depth && r->Structure_location_of_declaration == location_of_declaration
			&&& r->Structure_members@ == members@
		},
		// constants (their value is a constant expression: no mutation, no address; checked by the constness pass), imports, poison
		_ => r == d,
	}
}

// ---- lemmas used by the proofs of the walk
// analysing a reference keeps the kind of every step, hence whether it passes through a pointer
pub proof fn lemma_ptr_preserved(rr: Reference, r: Reference, t: Vars)
	requires ok_r(rr, r, t),
	ensures passes_through_pointer(rr.steps@) == passes_through_pointer(r.steps@), rr.base == r.base,
{
	assert forall|i: int| 0 <= i < r.steps@.len() implies through_pointer(#[trigger] rr.steps@[i]) == through_pointer(r.steps@[i]) by {
		assert(ok_step(rr.steps@[i], r.steps@[i], t));
	}
	if passes_through_pointer(r.steps@) {
		let i = choose|i: int| 0 <= i < r.steps@.len() && through_pointer(#[trigger] r.steps@[i]);
		assert(through_pointer(rr.steps@[i]));
	}
	if passes_through_pointer(rr.steps@) {
		let i = choose|i: int| 0 <= i < rr.steps@.len() && through_pointer(#[trigger] rr.steps@[i]);
		assert(through_pointer(r.steps@[i]));
	}
}

// ---- what the oracle says, spelled out (sanity of the spec against the property text)
// `x = v` / `x[i] = v` / `x.m = v` where x is a by-value or view parameter of known type: rejected with E530, pointing at the use and at the parameter
proof fn lemma_assignment_to_parameter_rejected(p: Parameter, t: Vars, s: Statement, r: Statement)
	requires p.name is Ok, p.value_type is Ok, s is Assignment, s->Assignment_reference.base is Ok,
		s->Assignment_reference.base->Ok_0.resolution_id == p.name->Ok_0.resolution_id,
		!(passes_through_pointer(s->Assignment_reference.steps@)),
		ok_s(r, s, tbl_param(p, t)),
	ensures r == Statement::Poison(Poison::Error(Error::NotMutable {
		location: s->Assignment_reference.base->Ok_0.location, location_of_declaration: p.name->Ok_0.location })),
{
}
// a pointer parameter can be written through (`x = 10` with `x: &i32` has an Autoderef step): accepted
proof fn lemma_write_through_pointer_parameter_accepted(p: Parameter, t: Vars, s: Statement, r: Statement, i: int)
	requires p.name is Ok, p.value_type is Ok, s is Assignment, s->Assignment_reference.base is Ok,
		s->Assignment_reference.base->Ok_0.resolution_id == p.name->Ok_0.resolution_id,
		0 <= i < s->Assignment_reference.steps@.len(), s->Assignment_reference.steps@[i] is Autoderef,
		ok_s(r, s, tbl_param(p, t)),
	ensures r is Assignment,
{
	assert(through_pointer(s->Assignment_reference.steps@[i]));
}
// constants: assignment and address-taking rejected
proof fn lemma_constant_cannot_be_mutated(d: Declaration, t: Vars, s: Statement, r: Statement, e: Expression, re: Expression)
	requires d is Constant, d->Constant_value_type is Ok,
		s is Assignment, s->Assignment_reference.base == Ok::<Identifier, Poison>(d->Constant_name), s->Assignment_reference.steps@.len() == 0,
		e is Deref, e->Deref_reference.base == Ok::<Identifier, Poison>(d->Constant_name), e->Deref_reference.steps@.len() == 0, e->Deref_reference.address_depth == 1,
		ok_s(r, s, tbl_d(d, t)), ok_e(re, e, tbl_d(d, t)),
	ensures r is Poison && r->Poison_0 is Error && r->Poison_0->Error_0 is NotMutable,
		re is Poison && re->Poison_0 is Error && re->Poison_0->Error_0 is NotMutable,
{
}
// `var x: i32; x = 1; f(&x)`: accepted; `var v: []i32 = a; v[0] = 1`: rejected (a view gives immutable access only)
proof fn lemma_var_mutable_unless_view(s0: Statement, t: Vars, s: Statement, r: Statement)
	requires s0 is Declaration, s is Assignment, s->Assignment_reference.base == Ok::<Identifier, Poison>(s0->Declaration_name),
		!(passes_through_pointer(s->Assignment_reference.steps@)),
		ok_s(r, s, tbl_s(s0, t)),
	ensures
		(s0->Declaration_value_type is Some && s0->Declaration_value_type->0 is Ok && s0->Declaration_value_type->0->Ok_0 is Slice) ==> r is Poison,
		(s0->Declaration_value_type is Some && s0->Declaration_value_type->0 is Ok && s0->Declaration_value_type->0->Ok_0 is Int32) ==> r is Assignment,
		s0->Declaration_value_type is None ==> r is Assignment,
{
}
// reading never raises E530
proof fn lemma_reads_never_rejected(e: Expression, re: Expression, t: Vars)
	requires ok_e(re, e, t), e is Deref || e is LengthOfArray,
		e is Deref ==> e->Deref_reference.address_depth == 0,
	ensures !(re is Poison && re->Poison_0 is Error),
{
}
