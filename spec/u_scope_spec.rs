// ---------------------------------------------------------------------------------------------
// U-SCOPE ghost specification: name resolution of top-level declarations (C11).
//
//   A module has three top-level namespaces: functions (Analyzer::function_list), constants and structures.  Constants and
//   structures share ONE list (Analyzer::containers, in order of predeclaration) and are told apart by Container::is_structure.
//     ns(cs, s)        the namespace s of a container list: the identifiers of the containers whose is_structure == s, in order
//     lookup(ids, n)   what a name resolves to in a namespace: its FIRST identifier named n (None: undefined)
//   The contracts say: a type name is lookup(ns(containers, true), name), a duplicate constant / structure is detected with
//   lookup(ns(containers, false / true), name), and nothing else of the list matters.  So a constant can never capture a type
//   name, a constant and a structure may share a name, and (theorems below) neither the position of the constants in the list
//   nor - names being unique, which is what E421/E423/E425 enforce - the order of the declarations changes what a name means.
// ---------------------------------------------------------------------------------------------

// trusted glue: the From/Into model of vstd for the VERIFIED `impl From<Error> for Poison` (its contract proves r == Poison::Error(error))
impl vstd::std_specs::convert::FromSpecImpl<Error> for Poison {
	open spec fn obeys_from_spec() -> bool { true }
	open spec fn from_spec(v: Error) -> Self { Poison::Error(v) }
}

// the identifier a declaration gets / a use gets
pub open spec fn declared_as(id: Identifier, rid: u32) -> Identifier { Identifier { name: id.name, location: id.location, resolution_id: rid, is_authoritative: true } }
pub open spec fn resolved_to(id: Identifier, rid: u32) -> Identifier { Identifier { name: id.name, location: id.location, resolution_id: rid, is_authoritative: false } }

// ---- a namespace and what a name means in it --------------------------------------------------------------------------------
pub open spec fn lookup(ids: Seq<Identifier>, name: Seq<char>) -> Option<Identifier>
	decreases ids.len()
{
	if ids.len() == 0 { None } else {
		match lookup(ids.drop_last(), name) {
			Some(x) => Some(x),
			None => if ids.last().name@ == name { Some(ids.last()) } else { None },
		}
	}
}
pub open spec fn ns(cs: Seq<Container>, structure: bool) -> Seq<Identifier>
	decreases cs.len()
{
	if cs.len() == 0 { Seq::empty() } else {
		let rest = ns(cs.drop_last(), structure);
		if cs.last().is_structure == structure { rest.push(cs.last().identifier) } else { rest }
	}
}
// declarative reading of lookup: j is the first position that carries the name
pub open spec fn first_named(ids: Seq<Identifier>, name: Seq<char>, j: int) -> bool {
	0 <= j < ids.len() && ids[j].name@ == name && forall|k: int| 0 <= k < j ==> (#[trigger] ids[k]).name@ != name
}
pub open spec fn unnamed(ids: Seq<Identifier>, name: Seq<char>) -> bool {
	forall|k: int| 0 <= k < ids.len() ==> (#[trigger] ids[k]).name@ != name
}
pub proof fn lemma_lookup_first(ids: Seq<Identifier>, name: Seq<char>, j: int)
	requires first_named(ids, name, j),
	ensures lookup(ids, name) == Some(ids[j]),
	decreases ids.len()
{
	let d = ids.drop_last();
	if j == ids.len() - 1 {
		lemma_lookup_none(d, name);
	} else {
		assert(d[j] == ids[j]);
		assert forall|k: int| 0 <= k < j implies (#[trigger] d[k]).name@ != name by { assert(d[k] == ids[k]); }
		lemma_lookup_first(d, name, j);
	}
}
pub proof fn lemma_lookup_none(ids: Seq<Identifier>, name: Seq<char>)
	requires unnamed(ids, name),
	ensures lookup(ids, name) is None,
	decreases ids.len()
{
	if ids.len() > 0 {
		let d = ids.drop_last();
		assert forall|k: int| 0 <= k < d.len() implies (#[trigger] d[k]).name@ != name by { assert(d[k] == ids[k]); }
		lemma_lookup_none(d, name);
	}
}
// the converse: whatever lookup returns is the first identifier of that name; None means no identifier has it
pub proof fn lemma_lookup_is_first(ids: Seq<Identifier>, name: Seq<char>)
	ensures match lookup(ids, name) {
		Some(x) => exists|j: int| first_named(ids, name, j) && ids[j] == x,
		None => unnamed(ids, name),
	},
	decreases ids.len()
{
	if ids.len() > 0 {
		let d = ids.drop_last();
		lemma_lookup_is_first(d, name);
		match lookup(d, name) {
			Some(x) => {
				let j = choose|j: int| first_named(d, name, j) && d[j] == x;
				assert(ids[j] == d[j]);
				assert forall|k: int| 0 <= k < j implies (#[trigger] ids[k]).name@ != name by { assert(d[k] == ids[k]); }
				assert(first_named(ids, name, j) && ids[j] == x);
			},
			None => {
				assert forall|k: int| 0 <= k < ids.len() - 1 implies (#[trigger] ids[k]).name@ != name by { assert(d[k] == ids[k]); }
				if ids.last().name@ == name { assert(first_named(ids, name, ids.len() - 1)); }
			},
		}
	}
}
// appending a declaration: an earlier declaration of the same name keeps the name (first declaration wins)
pub proof fn lemma_lookup_push(ids: Seq<Identifier>, x: Identifier, name: Seq<char>)
	ensures lookup(ids.push(x), name) == (match lookup(ids, name) { Some(y) => Some(y), None => if x.name@ == name { Some(x) } else { None } }),
{
	assert(ids.push(x).drop_last() =~= ids);
}
pub proof fn lemma_ns_push(cs: Seq<Container>, c: Container, structure: bool)
	ensures ns(cs.push(c), structure) == (if c.is_structure == structure { ns(cs, structure).push(c.identifier) } else { ns(cs, structure) }),
{
	assert(cs.push(c).drop_last() =~= cs);
}
// the container found by scanning the list for "is in namespace s and has this name" is what lookup(ns(..)) denotes
pub open spec fn first_container(cs: Seq<Container>, structure: bool, name: Seq<char>, j: int) -> bool {
	0 <= j < cs.len() && cs[j].is_structure == structure && cs[j].identifier.name@ == name
	&& forall|k: int| 0 <= k < j ==> ((#[trigger] cs[k]).is_structure != structure || cs[k].identifier.name@ != name)
}
pub open spec fn no_container(cs: Seq<Container>, structure: bool, name: Seq<char>) -> bool {
	forall|k: int| 0 <= k < cs.len() ==> ((#[trigger] cs[k]).is_structure != structure || cs[k].identifier.name@ != name)
}
pub proof fn lemma_ns_lookup_none(cs: Seq<Container>, structure: bool, name: Seq<char>)
	requires no_container(cs, structure, name),
	ensures lookup(ns(cs, structure), name) is None,
	decreases cs.len()
{
	if cs.len() > 0 {
		let d = cs.drop_last();
		assert forall|k: int| 0 <= k < d.len() implies ((#[trigger] d[k]).is_structure != structure || d[k].identifier.name@ != name) by { assert(d[k] == cs[k]); }
		lemma_ns_lookup_none(d, structure, name);
		assert(cs =~= d.push(cs.last()));
		lemma_ns_push(d, cs.last(), structure);
		lemma_lookup_push(ns(d, structure), cs.last().identifier, name);
	}
}
pub proof fn lemma_ns_lookup_first(cs: Seq<Container>, structure: bool, name: Seq<char>, j: int)
	requires first_container(cs, structure, name, j),
	ensures lookup(ns(cs, structure), name) == Some(cs[j].identifier),
	decreases cs.len()
{
	let d = cs.drop_last();
	assert(cs =~= d.push(cs.last()));
	lemma_ns_push(d, cs.last(), structure);
	lemma_lookup_push(ns(d, structure), cs.last().identifier, name);
	if j == cs.len() - 1 {
		assert forall|k: int| 0 <= k < d.len() implies ((#[trigger] d[k]).is_structure != structure || d[k].identifier.name@ != name) by { assert(d[k] == cs[k]); }
		lemma_ns_lookup_none(d, structure, name);
	} else {
		assert(d[j] == cs[j]);
		assert forall|k: int| 0 <= k < j implies ((#[trigger] d[k]).is_structure != structure || d[k].identifier.name@ != name) by { assert(d[k] == cs[k]); }
		lemma_ns_lookup_first(d, structure, name, j);
	}
}
// every identifier of a namespace belongs to a container of the list
pub open spec fn has_container(cs: Seq<Container>, rid: u32) -> bool {
	exists|i: int| 0 <= i < cs.len() && (#[trigger] cs[i]).identifier.resolution_id == rid
}
pub proof fn lemma_ns_member(cs: Seq<Container>, structure: bool, j: int)
	requires 0 <= j < ns(cs, structure).len(),
	ensures has_container(cs, ns(cs, structure)[j].resolution_id),
	decreases cs.len()
{
	if cs.len() > 0 {
		let d = cs.drop_last();
		if j < ns(d, structure).len() {
			lemma_ns_member(d, structure, j);
			let i = choose|i: int| 0 <= i < d.len() && (#[trigger] d[i]).identifier.resolution_id == ns(d, structure)[j].resolution_id;
			assert(cs[i] == d[i]);
		} else {
			assert(cs[cs.len() - 1].identifier.resolution_id == ns(cs, structure)[j].resolution_id);
		}
	}
}

// ---- the analyzer state as the contracts see it -------------------------------------------------------------------------------
pub type Stk = Seq<Seq<Identifier>>;
pub open spec fn stkv(a: Analyzer) -> Stk { Seq::new(a.variable_stack@.len(), |i: int| a.variable_stack@[i]@) }
// layer 0 of the variable stack holds the constants (comment in `analyze`)
pub open spec fn layer0(st: Stk) -> Seq<Identifier> { if st.len() == 0 { Seq::empty() } else { st[0] } }
pub open spec fn push_inner(st: Stk, id: Identifier) -> Stk { st.update(st.len() - 1, st[st.len() - 1].push(id)) }
// a name in the local layers (1..): first match, outermost layer first
pub open spec fn local_lookup(st: Stk, from: int, name: Seq<char>) -> Option<Identifier>
	decreases st.len() - from
{
	if from < 0 || from >= st.len() { None } else {
		match lookup(st[from], name) { Some(x) => Some(x), None => local_lookup(st, from + 1, name) }
	}
}
pub proof fn lemma_local_lookup_none(st: Stk, from: int, name: Seq<char>)
	requires 0 <= from, forall|k: int, l: int| from <= k < st.len() && 0 <= l < st[k].len() ==> (#[trigger] st[k][l]).name@ != name,
	ensures local_lookup(st, from, name) is None,
	decreases st.len() - from
{
	if from < st.len() {
		assert(unnamed(st[from], name));
		lemma_lookup_none(st[from], name);
		lemma_local_lookup_none(st, from + 1, name);
	}
}
pub proof fn lemma_local_lookup_first(st: Stk, from: int, i: int, j: int, name: Seq<char>)
	requires 0 <= from <= i < st.len(), first_named(st[i], name, j),
		forall|k: int, l: int| from <= k < i && 0 <= l < st[k].len() ==> (#[trigger] st[k][l]).name@ != name,
	ensures local_lookup(st, from, name) == Some(st[i][j]),
	decreases i - from
{
	if from == i {
		lemma_lookup_first(st[i], name, j);
	} else {
		assert(unnamed(st[from], name));
		lemma_lookup_none(st[from], name);
		lemma_local_lookup_first(st, from + 1, i, j, name);
	}
}
// what slice_find / Option::map / flatten leave of `variable_stack.get(0).map(|layer| layer.iter().find(..)).flatten()`
pub open spec fn found_in(o: Option<&Identifier>, ids: Seq<Identifier>, name: Seq<char>) -> bool {
	match o {
		Some(x) => exists|j: int| first_named(ids, name, j) && *x == ids[j],
		None => unnamed(ids, name),
	}
}

// everything of the analyzer except the dependency sets of the containers: what declares and resolves names
pub open spec fn only_ids_change(c0: Seq<Container>, c1: Seq<Container>) -> bool {
	&&& c1.len() == c0.len()
	&&& forall|i: int| 0 <= i < c0.len() ==> (#[trigger] c1[i]).identifier == c0[i].identifier && c1[i].is_structure == c0[i].is_structure && c1[i].depth == c0[i].depth
}
pub open spec fn same_names(a0: Analyzer, a1: Analyzer) -> bool {
	&&& only_ids_change(a0.containers@, a1.containers@)
	&&& a1.variable_stack == a0.variable_stack
	&&& a1.function_list == a0.function_list
	&&& a1.unresolved_labels == a0.unresolved_labels
	&&& a1.pruned_variables == a0.pruned_variables
	&&& a1.poisoned_variables == a0.poisoned_variables
	&&& a1.in_constexpr_of_constant == a0.in_constexpr_of_constant
	&&& a1.resolution_id == a0.resolution_id
}
// everything except what a declaration of a constant / structure touches
pub open spec fn same_rest(a0: Analyzer, a1: Analyzer) -> bool {
	&&& a1.function_list == a0.function_list
	&&& a1.unresolved_labels == a0.unresolved_labels
	&&& a1.pruned_variables == a0.pruned_variables
	&&& a1.poisoned_variables == a0.poisoned_variables
	&&& a1.in_constexpr_of_constant == a0.in_constexpr_of_constant
}
pub proof fn lemma_same_names_ns(a0: Analyzer, a1: Analyzer, structure: bool)
	requires same_names(a0, a1),
	ensures ns(a1.containers@, structure) == ns(a0.containers@, structure),
{
	lemma_ns_pointwise(a0.containers@, a1.containers@, structure);
}
pub proof fn lemma_ns_pointwise(c0: Seq<Container>, c1: Seq<Container>, structure: bool)
	requires c0.len() == c1.len(), forall|i: int| 0 <= i < c0.len() ==> (#[trigger] c1[i]).identifier == c0[i].identifier && c1[i].is_structure == c0[i].is_structure,
	ensures ns(c1, structure) == ns(c0, structure),
	decreases c0.len()
{
	if c0.len() > 0 {
		assert forall|i: int| 0 <= i < c0.drop_last().len() implies (#[trigger] c1.drop_last()[i]).identifier == c0.drop_last()[i].identifier
			&& c1.drop_last()[i].is_structure == c0.drop_last()[i].is_structure by { assert(c1.drop_last()[i] == c1[i]); }
		lemma_ns_pointwise(c0.drop_last(), c1.drop_last(), structure);
		assert(c1[c1.len() - 1].identifier == c0[c0.len() - 1].identifier);
	}
}

// ---- recording a dependency: found_container_1 (E413 / E415 / E416) ------------------------------------------------------------
// Every container carries the set of the resolution ids it depends on (Container::contained_ids), kept TRANSITIVE: recording
// the edge container -> containee adds t = ids(containee) + {containee} to the container and to everything that depends on the
// container.  The edge closes a cycle exactly when the container is in t; a container that already depends on itself (a cycle
// reported earlier) is poisoned silently.
pub open spec fn ids_of(c: Container) -> Set<u32> { c.contained_ids@ }
pub open spec fn first_id(cs: Seq<Container>, rid: u32, j: int) -> bool {
	0 <= j < cs.len() && cs[j].identifier.resolution_id == rid && forall|k: int| 0 <= k < j ==> (#[trigger] cs[k]).identifier.resolution_id != rid
}
// the dependency set of container i after the edge (container at index ci, id cid) -> (containee with closure t) has been recorded
pub open spec fn ids_after(c0: Seq<Container>, ci: int, cid: u32, t: Set<u32>, i: int) -> Set<u32> {
	if i == ci || ids_of(c0[i]).contains(cid) { ids_of(c0[i]).union(t) } else { ids_of(c0[i]) }
}
pub open spec fn first_constant_in(cs: Seq<Container>, cycle: Set<u32>, j: int) -> bool {
	0 <= j < cs.len() && !cs[j].is_structure && cycle.contains(cs[j].identifier.resolution_id)
	&& forall|k: int| 0 <= k < j ==> ((#[trigger] cs[k]).is_structure || !cycle.contains(cs[k].identifier.resolution_id))
}
pub open spec fn no_constant_in(cs: Seq<Container>, cycle: Set<u32>) -> bool {
	forall|k: int| 0 <= k < cs.len() ==> ((#[trigger] cs[k]).is_structure || !cycle.contains(cs[k].identifier.resolution_id))
}
// E413 for a constant initialiser (no member), E415 for a structure member, E416 when the cycle runs through a constant (the first
// one in declaration order is named)
pub open spec fn cycle_error(e: Error, cs: Seq<Container>, container: Identifier, member: Option<Identifier>, cycle: Set<u32>) -> bool {
	match member {
		None => e == (Error::CyclicalConstant { name: container.name, location: container.location }),
		Some(m) => if no_constant_in(cs, cycle) {
				e == (Error::CyclicalStructure { name_of_structure: container.name, location_of_declaration: container.location, location_of_member: m.location })
			} else {
				exists|j: int| first_constant_in(cs, cycle, j) && e == (Error::CyclicalStructureWithConstant { name_of_structure: container.name,
					name_of_constant: cs[j].identifier.name, location_of_declaration: container.location, location_of_member: m.location,
					location_of_constant: cs[j].identifier.location })
			},
	}
}
pub open spec fn edge_recorded_at(c0: Seq<Container>, c1: Seq<Container>, ci: int, ei: int, container: Identifier, member: Option<Identifier>, containee: Identifier, r: Poisonable<Identifier>) -> bool {
	let cid = container.resolution_id;
	let t = ids_of(c0[ei]).insert(containee.resolution_id);
	if ids_of(c0[ci]).contains(cid) {
		r == Err::<Identifier, Poison>(Poison::Poisoned) && forall|i: int| 0 <= i < c0.len() ==> ids_of(#[trigger] c1[i]) == ids_of(c0[i])
	} else if t.contains(cid) {
		r is Err && r->Err_0 is Error && cycle_error(r->Err_0->Error_0, c0, container, member, ids_of(c0[ci]).union(t))
		&& forall|i: int| 0 <= i < c0.len() ==> ids_of(#[trigger] c1[i]) == (if i == ci { ids_of(c0[i]).union(t) } else { ids_of(c0[i]) })
	} else {
		r == Ok::<Identifier, Poison>(containee) && forall|i: int| 0 <= i < c0.len() ==> ids_of(#[trigger] c1[i]) == ids_after(c0, ci, cid, t, i)
	}
}
pub open spec fn edge_recorded(a0: Analyzer, container: Identifier, member: Option<Identifier>, containee: Identifier, r: Poisonable<Identifier>, a1: Analyzer) -> bool {
	exists|ci: int, ei: int| #![trigger first_id(a0.containers@, container.resolution_id, ci), first_id(a0.containers@, containee.resolution_id, ei)]
		first_id(a0.containers@, container.resolution_id, ci) && first_id(a0.containers@, containee.resolution_id, ei)
		&& edge_recorded_at(a0.containers@, a1.containers@, ci, ei, container, member, containee, r)
}
pub open spec fn opt_deref(o: Option<&Identifier>) -> Option<Identifier> { match o { Some(x) => Some(*x), None => None } }
// use_containee: inside the initialiser of constant c, using a constant or a structure records the edge c -> containee
pub open spec fn containee_recorded(a0: Analyzer, containee: Identifier, r: Poisonable<Identifier>, a1: Analyzer) -> bool {
	match a0.in_constexpr_of_constant {
		Some(c) => edge_recorded(a0, c, None, containee, r, a1) && same_names(a0, a1),
		None => r == Ok::<Identifier, Poison>(containee) && a1 == a0,
	}
}
pub open spec fn context_is_predeclared(a: Analyzer) -> bool {
	a.in_constexpr_of_constant is Some ==> has_container(a.containers@, a.in_constexpr_of_constant->0.resolution_id)
}
pub open spec fn constants_are_containers(a: Analyzer) -> bool {
	forall|j: int| 0 <= j < layer0(stkv(a)).len() ==> has_container(a.containers@, (#[trigger] layer0(stkv(a))[j]).resolution_id)
}
// while the constants are predeclared (one layer on the stack) the constant layer is the constant namespace of the container list
pub open spec fn constant_layer_mirrors_containers(a: Analyzer) -> bool {
	a.variable_stack@.len() == 1 && a.variable_stack@[0]@ == ns(a.containers@, false)
}
pub proof fn lemma_mirror_gives_containers(a: Analyzer)
	requires a.variable_stack@.len() >= 1, a.variable_stack@[0]@ == ns(a.containers@, false),
	ensures constants_are_containers(a),
{
	assert forall|j: int| 0 <= j < layer0(stkv(a)).len() implies has_container(a.containers@, (#[trigger] layer0(stkv(a))[j]).resolution_id) by {
		lemma_ns_member(a.containers@, false, j);
	}
}

// ---- what a declaration does to the meaning of every name -----------------------------------------------------------------------
// after appending a container for `new` in namespace `structure`: names that meant something keep their meaning (so a rejected
// duplicate never captures the name), the new name means `new` only if it was free, and the other namespace is untouched
pub open spec fn meaning_after(cs0: Seq<Container>, s: bool, n: Seq<char>, structure: bool, new: Identifier) -> Option<Identifier> {
	match lookup(ns(cs0, s), n) {
		Some(y) => Some(y),
		None => if s == structure && new.name@ == n { Some(new) } else { None },
	}
}
pub open spec fn declares(cs0: Seq<Container>, cs1: Seq<Container>, structure: bool, new: Identifier) -> bool {
	forall|s: bool, n: Seq<char>| #[trigger] lookup(ns(cs1, s), n) == meaning_after(cs0, s, n, structure, new)
}
pub proof fn lemma_declares(cs0: Seq<Container>, c: Container)
	ensures declares(cs0, cs0.push(c), c.is_structure, c.identifier),
{
	assert forall|s: bool, n: Seq<char>| #[trigger] lookup(ns(cs0.push(c), s), n) == meaning_after(cs0, s, n, c.is_structure, c.identifier) by {
		lemma_ns_push(cs0, c, s);
		lemma_lookup_push(ns(cs0, s), c.identifier, n);
	}
}
pub open spec fn appended(cs0: Seq<Container>, cs1: Seq<Container>, structure: bool, new: Identifier) -> bool {
	&&& cs1.len() == cs0.len() + 1
	&&& forall|i: int| 0 <= i < cs0.len() ==> #[trigger] cs1[i] == cs0[i]
	&&& cs1[cs0.len() as int].identifier == new
	&&& cs1[cs0.len() as int].is_structure == structure
	&&& cs1[cs0.len() as int].contained_ids@ =~= Set::<u32>::empty()
	&&& cs1[cs0.len() as int].depth is None
}

// ---- predeclare: the relation between a top-level declaration and what predeclaration makes of it ---------------------------
pub open spec fn predeclared(r: Declaration, d: Declaration, a0: Analyzer) -> bool {
	let rid = a0.resolution_id;
	match d {
		Declaration::Constant { name, value, value_type, flags, depth, location_of_declaration, location_of_type } =>
			match lookup(ns(a0.containers@, false), name.name@) {
				Some(p) => r == Declaration::Poison(Poison::Error(Error::DuplicateDeclarationConstant { name: name.name, location: name.location, previous: p.location })),
				None => r == (Declaration::Constant { name: declared_as(name, rid), value, value_type, flags, depth, location_of_declaration, location_of_type }),
			},
		Declaration::Function { name, parameters, body, return_type, flags, location_of_declaration, location_of_return_type } =>
			match lookup(a0.function_list@, name.name@) {
				Some(p) => r == Declaration::Poison(Poison::Error(Error::DuplicateDeclarationFunction { name: name.name, location: name.location, previous: p.location })),
				None => r == (Declaration::Function { name: declared_as(name, rid), parameters, body, return_type, flags, location_of_declaration, location_of_return_type }),
			},
		Declaration::FunctionHead { name, parameters, return_type, flags, location_of_declaration, location_of_return_type } =>
			match lookup(a0.function_list@, name.name@) {
				Some(p) => r == Declaration::Poison(Poison::Error(Error::DuplicateDeclarationFunction { name: name.name, location: name.location, previous: p.location })),
				None => r == (Declaration::FunctionHead { name: declared_as(name, rid), parameters, return_type, flags, location_of_declaration, location_of_return_type }),
			},
		Declaration::Structure { name, members, structural_type, flags, depth, location_of_declaration } =>
			match lookup(ns(a0.containers@, true), name.name@) {
				Some(p) => r == Declaration::Poison(Poison::Error(Error::DuplicateDeclarationStructure { name: name.name, location: name.location, previous: p.location })),
				None => r == (Declaration::Structure { name: declared_as(name, rid), members, structural_type, flags, depth, location_of_declaration }),
			},
		_ => r == d,
	}
}
// what predeclaring d does to the three namespaces (a name is entered even when the declaration is rejected as a duplicate:
// the first declaration keeps the name, see `declares`)
pub open spec fn predeclare_effect(d: Declaration, a0: Analyzer, a1: Analyzer) -> bool {
	let rid = a0.resolution_id;
	match d {
		Declaration::Constant { name, .. } => appended(a0.containers@, a1.containers@, false, declared_as(name, rid))
			&& a1.function_list == a0.function_list && a1.resolution_id == rid + 1 && stkv(a1) =~~= push_inner(stkv(a0), declared_as(name, rid)),
		Declaration::Structure { name, .. } => appended(a0.containers@, a1.containers@, true, declared_as(name, rid))
			&& a1.function_list == a0.function_list && a1.resolution_id == rid + 1 && a1.variable_stack == a0.variable_stack,
		Declaration::Function { name, .. } => a1.function_list@ == a0.function_list@.push(declared_as(name, rid))
			&& a1.containers == a0.containers && a1.resolution_id == rid + 1 && a1.variable_stack == a0.variable_stack,
		Declaration::FunctionHead { name, .. } => a1.function_list@ == a0.function_list@.push(declared_as(name, rid))
			&& a1.containers == a0.containers && a1.resolution_id == rid + 1 && a1.variable_stack == a0.variable_stack,
		_ => a1 == a0,
	}
}
pub open spec fn declares_a_name(d: Declaration) -> bool { d is Constant || d is Structure || d is Function || d is FunctionHead }

// ---- theorem: why "the container is in its own dependency set" means "cycle" ---------------------------------------------------------
// In a run without cycle error the dependency sets are TRANSITIVE (whoever depends on j depends on everything j depends on) and
// IRREFLEXIVE (nobody depends on itself), resolution ids being unique (declare_* hand out fresh ones).  Under that invariant,
// what found_container_1 is proved to do (edge_recorded_at) means: the edge container -> containee is REJECTED exactly when the
// containee is the container itself or already depends on it - i.e. exactly when it would close a cycle - and an ACCEPTED edge
// is present afterwards, forgets no dependency and re-establishes the invariant.
pub open spec fn unique_ids(cs: Seq<Container>) -> bool {
	forall|i: int, j: int| 0 <= i < cs.len() && 0 <= j < cs.len() && (#[trigger] cs[i]).identifier.resolution_id == (#[trigger] cs[j]).identifier.resolution_id ==> i == j
}
pub open spec fn transitive(cs: Seq<Container>) -> bool {
	forall|i: int, j: int| 0 <= i < cs.len() && 0 <= j < cs.len() && ids_of(#[trigger] cs[i]).contains((#[trigger] cs[j]).identifier.resolution_id)
		==> ids_of(cs[j]).subset_of(ids_of(cs[i]))
}
pub open spec fn irreflexive(cs: Seq<Container>) -> bool {
	forall|i: int| 0 <= i < cs.len() ==> !ids_of(#[trigger] cs[i]).contains(cs[i].identifier.resolution_id)
}
pub open spec fn ids_below(cs: Seq<Container>, rid: u32) -> bool {
	forall|i: int| 0 <= i < cs.len() ==> (#[trigger] cs[i]).identifier.resolution_id < rid
}
pub open spec fn container_ids_are_fresh(a: Analyzer) -> bool { unique_ids(a.containers@) && ids_below(a.containers@, a.resolution_id) }
// the invariant of an error-free run (established by the empty container list, kept by every declare_* and every ACCEPTED dependency)
pub open spec fn dependency_invariant(a: Analyzer) -> bool {
	container_ids_are_fresh(a) && transitive(a.containers@) && irreflexive(a.containers@)
}
// the containee is the container itself or already depends on it: recording container -> containee would close a cycle
pub open spec fn closes_a_cycle(cs: Seq<Container>, container: u32, containee: u32) -> bool {
	containee == container || exists|ei: int| first_id(cs, containee, ei) && ids_of(cs[ei]).contains(container)
}
pub proof fn lemma_declaring_keeps_the_dependency_invariant(a0: Analyzer, a1: Analyzer, structure: bool, new: Identifier)
	requires dependency_invariant(a0), appended(a0.containers@, a1.containers@, structure, new), new.resolution_id == a0.resolution_id, a1.resolution_id == a0.resolution_id + 1,
	ensures dependency_invariant(a1),
{
	let c0 = a0.containers@; let c1 = a1.containers@; let n = c0.len() as int;
	assert forall|i: int, j: int| 0 <= i < c1.len() && 0 <= j < c1.len() && (#[trigger] c1[i]).identifier.resolution_id == (#[trigger] c1[j]).identifier.resolution_id implies i == j by {
		if i < n { assert(c1[i] == c0[i]); }
		if j < n { assert(c1[j] == c0[j]); }
	}
	assert forall|i: int| 0 <= i < c1.len() implies (#[trigger] c1[i]).identifier.resolution_id < a1.resolution_id by { if i < n { assert(c1[i] == c0[i]); } }
	assert forall|i: int| 0 <= i < c1.len() implies !ids_of(#[trigger] c1[i]).contains(c1[i].identifier.resolution_id) by { if i < n { assert(c1[i] == c0[i]); } }
	assert forall|i: int, j: int| 0 <= i < c1.len() && 0 <= j < c1.len() && ids_of(#[trigger] c1[i]).contains((#[trigger] c1[j]).identifier.resolution_id)
		implies ids_of(c1[j]).subset_of(ids_of(c1[i])) by {
		if i < n { assert(c1[i] == c0[i]); }
		if j < n { assert(c1[j] == c0[j]); }
	}
}
pub proof fn theorem_a_dependency_is_rejected_iff_it_closes_a_cycle(c0: Seq<Container>, c1: Seq<Container>, ci: int, ei: int,
	container: Identifier, member: Option<Identifier>, containee: Identifier, r: Poisonable<Identifier>)
	requires
		only_ids_change(c0, c1), first_id(c0, container.resolution_id, ci), first_id(c0, containee.resolution_id, ei),
		edge_recorded_at(c0, c1, ci, ei, container, member, containee, r),
		unique_ids(c0), transitive(c0), irreflexive(c0),
	ensures
		r is Err <==> (containee.resolution_id == container.resolution_id || ids_of(c0[ei]).contains(container.resolution_id)),
		r is Err ==> r->Err_0 is Error && (r->Err_0->Error_0 is CyclicalConstant || r->Err_0->Error_0 is CyclicalStructure || r->Err_0->Error_0 is CyclicalStructureWithConstant),
		r is Ok ==> ids_of(c1[ci]).contains(containee.resolution_id),
		r is Ok ==> forall|i: int| 0 <= i < c0.len() ==> ids_of(#[trigger] c0[i]).subset_of(ids_of(c1[i])),
		r is Ok ==> unique_ids(c1) && transitive(c1) && irreflexive(c1),
{
	let cid = container.resolution_id;
	let eid = containee.resolution_id;
	let t = ids_of(c0[ei]).insert(eid);
	assert(!ids_of(c0[ci]).contains(cid));
	if r is Ok {
		assert(!t.contains(cid));
		assert forall|i: int| 0 <= i < c0.len() implies ids_of(#[trigger] c0[i]).subset_of(ids_of(c1[i])) by {
			assert(ids_of(c1[i]) == ids_after(c0, ci, cid, t, i));
		}
		assert(ids_of(c1[ci]) == ids_after(c0, ci, cid, t, ci));
		assert forall|i: int, j: int| 0 <= i < c1.len() && 0 <= j < c1.len() && (#[trigger] c1[i]).identifier.resolution_id == (#[trigger] c1[j]).identifier.resolution_id implies i == j by {
			assert(c1[i].identifier == c0[i].identifier && c1[j].identifier == c0[j].identifier);
		}
		assert forall|i: int| 0 <= i < c1.len() implies !ids_of(#[trigger] c1[i]).contains(c1[i].identifier.resolution_id) by {
			let x = c0[i].identifier.resolution_id;
			assert(c1[i].identifier == c0[i].identifier);
			assert(ids_of(c1[i]) == ids_after(c0, ci, cid, t, i));
			assert(!ids_of(c0[i]).contains(x));
			if i == ci {
			} else if ids_of(c0[i]).contains(cid) {
				// x in t would make the containee depend on the container
				if x == eid { assert(i == ei); }
				if ids_of(c0[ei]).contains(x) { assert(ids_of(c0[i]).subset_of(ids_of(c0[ei]))); }
			}
		}
		assert forall|i: int, j: int| 0 <= i < c1.len() && 0 <= j < c1.len() && ids_of(#[trigger] c1[i]).contains((#[trigger] c1[j]).identifier.resolution_id)
			implies ids_of(c1[j]).subset_of(ids_of(c1[i])) by {
			let x = c0[j].identifier.resolution_id;
			assert(c1[j].identifier == c0[j].identifier);
			assert(ids_of(c1[i]) == ids_after(c0, ci, cid, t, i));
			assert(ids_of(c1[j]) == ids_after(c0, ci, cid, t, j));
			if ids_of(c0[i]).contains(x) {
				assert(ids_of(c0[j]).subset_of(ids_of(c0[i])));
				// if j inherits t then so does i: j == ci means x == cid is in ids(i); cid in ids(j) is in ids(i)
			} else {
				// x came in with t, so i inherited t; j is the containee or one of its dependencies and does not inherit
				if x == eid { assert(j == ei); } else { assert(ids_of(c0[ei]).contains(x)); assert(ids_of(c0[j]).subset_of(ids_of(c0[ei]))); }
				assert(ids_of(c0[j]).subset_of(t));
				assert(!ids_of(c0[j]).contains(cid));
				assert(j != ci);
			}
		}
	}
}
// ---- determine_container_depths: the order in which containers must be typed ------------------------------------------------------
// Abstractly a container is a node (id, depth, set of ids it still waits for).  Round d gives depth d to every node that has no
// depth yet and waits for nothing, then strikes the ids of those nodes from every set.  After as many rounds as there are
// containers, whoever still has no depth is part of (or depends on) a cycle and is poisoned.
pub struct Node { pub id: u32, pub depth: Option<Poisonable<u32>>, pub ids: Set<u32> }
pub open spec fn node(c: Container) -> Node { Node { id: c.identifier.resolution_id, depth: c.depth, ids: c.contained_ids@ } }
pub open spec fn nodes(cs: Seq<Container>) -> Seq<Node> { Seq::new(cs.len(), |i: int| node(cs[i])) }
pub open spec fn ready(n: Node) -> bool { n.depth is None && n.ids.len() == 0 }
// the ids of the nodes that are ready
pub open spec fn resolved_set(s: Seq<Node>) -> Set<u32>
	decreases s.len()
{
	if s.len() == 0 { Set::empty() } else {
		let r = resolved_set(s.drop_last());
		if ready(s.last()) { r.insert(s.last().id) } else { r }
	}
}
pub open spec fn is_resolved(s: Seq<Node>, x: u32) -> bool { exists|i: int| 0 <= i < s.len() && (#[trigger] s[i]).id == x && ready(s[i]) }
pub proof fn lemma_resolved_set(s: Seq<Node>)
	ensures forall|x: u32| #[trigger] resolved_set(s).contains(x) <==> is_resolved(s, x),
	decreases s.len()
{
	if s.len() > 0 {
		let d = s.drop_last();
		lemma_resolved_set(d);
		assert forall|x: u32| #[trigger] resolved_set(s).contains(x) <==> is_resolved(s, x) by {
			if is_resolved(d, x) {
				let i = choose|i: int| 0 <= i < d.len() && (#[trigger] d[i]).id == x && ready(d[i]);
				assert(s[i] == d[i]);
			}
			if is_resolved(s, x) {
				let i = choose|i: int| 0 <= i < s.len() && (#[trigger] s[i]).id == x && ready(s[i]);
				if i < d.len() { assert(d[i] == s[i]); assert(is_resolved(d, x)); }
			}
			if resolved_set(s).contains(x) && !resolved_set(d).contains(x) {
				assert(s[s.len() - 1].id == x && ready(s[s.len() - 1]));
			}
		}
	}
}
pub open spec fn mark(n: Node, d: u32) -> Node { if ready(n) { Node { id: n.id, depth: Some(Ok(d)), ids: n.ids } } else { n } }
pub open spec fn step_node(n: Node, d: u32, res: Set<u32>) -> Node { Node { id: n.id, depth: mark(n, d).depth, ids: n.ids.difference(res) } }
pub open spec fn step(s: Seq<Node>, d: u32) -> Seq<Node> { Seq::new(s.len(), |i: int| step_node(s[i], d, resolved_set(s))) }
pub open spec fn rounds(s: Seq<Node>, k: nat) -> Seq<Node>
	decreases k
{
	if k == 0 { s } else { step(rounds(s, (k - 1) as nat), (k - 1) as u32) }
}
pub open spec fn finish(n: Node) -> Node { if n.depth is None { Node { id: n.id, depth: Some(Err(Poison::Poisoned)), ids: n.ids } } else { n } }
pub open spec fn depths_determined(s0: Seq<Node>, s1: Seq<Node>) -> bool {
	s1.len() == s0.len() && forall|i: int| 0 <= i < s0.len() ==> #[trigger] s1[i] == finish(rounds(s0, s0.len())[i])
}
pub proof fn lemma_rounds_len(s: Seq<Node>, k: nat)
	ensures rounds(s, k).len() == s.len(),
	decreases k
{
	if k > 0 { lemma_rounds_len(s, (k - 1) as nat); }
}
// a round in which nobody is ready changes nothing, and neither does any later round
pub proof fn lemma_idle_round(s: Seq<Node>, d: u32)
	requires resolved_set(s) =~= Set::<u32>::empty(),
	ensures step(s, d) =~= s,
{
	assert forall|i: int| 0 <= i < s.len() implies step(s, d)[i] == s[i] by {
		lemma_resolved_set(s);
		if ready(s[i]) { assert(is_resolved(s, s[i].id)); assert(resolved_set(s).contains(s[i].id)); }
		assert(s[i].ids.difference(resolved_set(s)) =~= s[i].ids);
		assert(step(s, d)[i] == step_node(s[i], d, resolved_set(s)));
	}
}
pub proof fn lemma_idle_forever(s: Seq<Node>, d: nat, k: nat)
	requires d <= k, resolved_set(rounds(s, d)) =~= Set::<u32>::empty(),
	ensures rounds(s, k) == rounds(s, d),
	decreases k - d
{
	if d < k {
		lemma_idle_forever(s, d, (k - 1) as nat);
		lemma_idle_round(rounds(s, d), (k - 1) as u32);
	}
}
// ---- theorem: depths do not depend on the order of the declarations ----------------------------------------------------------------
// Declaring the same constants and structures in another order lists the containers in another order (permutation p) AND hands
// out other resolution ids (injective renaming rho, applied to the ids of the nodes and to the ids inside the dependency sets).
// The rounds commute with both: the node at position i of the reordered list gets the depth (or the poison) of the node at
// position p[i] of the original list.
pub open spec fn injective(rho: spec_fn(u32) -> u32) -> bool { forall|x: u32, y: u32| #[trigger] rho(x) == #[trigger] rho(y) ==> x == y }
pub open spec fn renamed_set(a: Set<u32>, b: Set<u32>, rho: spec_fn(u32) -> u32) -> bool {
	&&& forall|x: u32| a.contains(x) <==> b.contains(#[trigger] rho(x))
	&&& forall|y: u32| #[trigger] b.contains(y) ==> exists|x: u32| a.contains(x) && #[trigger] rho(x) == y
}
pub open spec fn same_graph(s: Seq<Node>, t: Seq<Node>, p: Seq<int>, rho: spec_fn(u32) -> u32) -> bool {
	&&& t.len() == s.len() && p.len() == s.len()
	&&& forall|i: int| 0 <= i < t.len() ==> 0 <= #[trigger] p[i] < s.len() && t[i].id == rho(s[p[i]].id) && t[i].depth == s[p[i]].depth
			&& renamed_set(s[p[i]].ids, t[i].ids, rho)
	&&& forall|j: int| 0 <= j < s.len() ==> #[trigger] hit(p, j)
}
pub open spec fn hit(p: Seq<int>, j: int) -> bool { exists|i: int| 0 <= i < p.len() && #[trigger] p[i] == j }
pub proof fn lemma_renamed_ready(a: Set<u32>, b: Set<u32>, rho: spec_fn(u32) -> u32)
	requires renamed_set(a, b, rho),
	ensures a.len() == 0 <==> b.len() == 0,
{
	if a.len() == 0 {
		a.lemma_len0_is_empty();
		assert forall|y: u32| !b.contains(y) by { if b.contains(y) { let x = choose|x: u32| a.contains(x) && #[trigger] rho(x) == y; } }
		assert(b =~= Set::<u32>::empty());
	}
	if b.len() == 0 {
		b.lemma_len0_is_empty();
		assert forall|x: u32| !a.contains(x) by { if a.contains(x) { assert(b.contains(rho(x))); } }
		assert(a =~= Set::<u32>::empty());
	}
}
pub proof fn lemma_same_graph_step(s: Seq<Node>, t: Seq<Node>, p: Seq<int>, rho: spec_fn(u32) -> u32, d: u32)
	requires injective(rho), same_graph(s, t, p, rho),
	ensures same_graph(step(s, d), step(t, d), p, rho),
{
	let rs = resolved_set(s); let rt = resolved_set(t);
	lemma_resolved_set(s);
	lemma_resolved_set(t);
	assert forall|i: int| 0 <= i < t.len() implies (ready(#[trigger] t[i]) <==> ready(s[p[i]])) by {
		lemma_renamed_ready(s[p[i]].ids, t[i].ids, rho);
	}
	// the ready nodes of the reordered list are the renamed ready nodes of the original list
	assert forall|x: u32| rs.contains(x) <==> rt.contains(#[trigger] rho(x)) by {
		if rs.contains(x) {
			assert(is_resolved(s, x));
			let j = choose|j: int| 0 <= j < s.len() && (#[trigger] s[j]).id == x && ready(s[j]);
			assert(hit(p, j));
			let i = choose|i: int| 0 <= i < p.len() && #[trigger] p[i] == j;
			assert(t[i].id == rho(x) && ready(t[i]));
			assert(is_resolved(t, rho(x)));
		}
		if rt.contains(rho(x)) {
			assert(is_resolved(t, rho(x)));
			let i = choose|i: int| 0 <= i < t.len() && (#[trigger] t[i]).id == rho(x) && ready(t[i]);
			assert(rho(s[p[i]].id) == rho(x));
			assert(s[p[i]].id == x && ready(s[p[i]]));
			assert(is_resolved(s, x));
		}
	}
	assert forall|y: u32| #[trigger] rt.contains(y) implies exists|x: u32| rs.contains(x) && #[trigger] rho(x) == y by {
		assert(is_resolved(t, y));
		let i = choose|i: int| 0 <= i < t.len() && (#[trigger] t[i]).id == y && ready(t[i]);
		let x = s[p[i]].id;
		assert(rho(x) == y);
		assert(is_resolved(s, x));
	}
	let s1 = step(s, d); let t1 = step(t, d);
	assert forall|i: int| 0 <= i < t1.len() implies 0 <= #[trigger] p[i] < s1.len() && t1[i].id == rho(s1[p[i]].id) && t1[i].depth == s1[p[i]].depth
		&& renamed_set(s1[p[i]].ids, t1[i].ids, rho) by {
		let a = s[p[i]].ids; let b = t[i].ids;
		assert(renamed_set(a, b, rho));
		assert(s1[p[i]].ids == a.difference(rs) && t1[i].ids == b.difference(rt));
		assert forall|x: u32| a.difference(rs).contains(x) <==> b.difference(rt).contains(#[trigger] rho(x)) by {}
		assert forall|y: u32| #[trigger] b.difference(rt).contains(y) implies exists|x: u32| a.difference(rs).contains(x) && #[trigger] rho(x) == y by {
			let x = choose|x: u32| a.contains(x) && #[trigger] rho(x) == y;
			assert(!rs.contains(x));
		}
	}
	assert forall|j: int| 0 <= j < s1.len() implies #[trigger] hit(p, j) by { assert(0 <= j < s.len()); }
}
pub proof fn theorem_depths_do_not_depend_on_declaration_order(s: Seq<Node>, t: Seq<Node>, p: Seq<int>, rho: spec_fn(u32) -> u32, k: nat)
	requires injective(rho), same_graph(s, t, p, rho),
	ensures same_graph(rounds(s, k), rounds(t, k), p, rho),
		forall|i: int| 0 <= i < t.len() ==> finish(#[trigger] rounds(t, k)[i]).depth == finish(rounds(s, k)[p[i]]).depth,
	decreases k
{
	lemma_rounds_len(s, k);
	lemma_rounds_len(t, k);
	if k > 0 {
		theorem_depths_do_not_depend_on_declaration_order(s, t, p, rho, (k - 1) as nat);
		lemma_same_graph_step(rounds(s, (k - 1) as nat), rounds(t, (k - 1) as nat), p, rho, (k - 1) as u32);
	}
	assert forall|i: int| 0 <= i < t.len() implies finish(#[trigger] rounds(t, k)[i]).depth == finish(rounds(s, k)[p[i]]).depth by {
		assert(rounds(t, k)[i].depth == rounds(s, k)[p[i]].depth);
	}
}
// ---- theorems: what the contracts mean for the order of declarations ------------------------------------------------------------
// (1) where the constants stand in the container list is irrelevant to type names (and vice versa): putting a container of the
//     other namespace anywhere into the list changes nothing
pub proof fn theorem_other_namespace_is_invisible(cs: Seq<Container>, i: int, c: Container, structure: bool)
	requires 0 <= i <= cs.len(), c.is_structure != structure,
	ensures ns(cs.insert(i, c), structure) == ns(cs, structure),
	decreases cs.len() - i
{
	let t = cs.insert(i, c);
	if i == cs.len() {
		assert(t =~= cs.push(c));
		lemma_ns_push(cs, c, structure);
	} else {
		assert(t.drop_last() =~= cs.drop_last().insert(i, c));
		assert(t.last() == cs.last());
		theorem_other_namespace_is_invisible(cs.drop_last(), i, c, structure);
	}
}
// (2) with unique names (what E421 / E423 / E425 enforce) a name means the same whatever the order of the declarations:
//     two namespaces with the same identifiers, in any order and multiplicity, resolve every name alike
pub open spec fn unique_names(ids: Seq<Identifier>) -> bool {
	forall|i: int, j: int| 0 <= i < ids.len() && 0 <= j < ids.len() && (#[trigger] ids[i]).name@ == (#[trigger] ids[j]).name@ ==> ids[i] == ids[j]
}
pub proof fn theorem_resolution_is_by_name_not_by_position(a: Seq<Identifier>, b: Seq<Identifier>, name: Seq<char>)
	requires unique_names(a),
		forall|i: int| 0 <= i < a.len() ==> b.contains(#[trigger] a[i]),
		forall|i: int| 0 <= i < b.len() ==> a.contains(#[trigger] b[i]),
	ensures lookup(a, name) == lookup(b, name),
{
	lemma_lookup_is_first(a, name);
	lemma_lookup_is_first(b, name);
	match lookup(a, name) {
		Some(x) => {
			let j = choose|j: int| first_named(a, name, j) && a[j] == x;
			assert(b.contains(a[j]));
			let m = choose|m: int| 0 <= m < b.len() && b[m] == a[j];
			assert(b[m].name@ == name);
			let y = lookup(b, name)->0;
			let q = choose|q: int| first_named(b, name, q) && b[q] == y;
			assert(a.contains(b[q]));
			let p = choose|p: int| 0 <= p < a.len() && a[p] == b[q];
			assert(a[p].name@ == a[j].name@);
		},
		None => {
			if lookup(b, name) is Some {
				let y = lookup(b, name)->0;
				let q = choose|q: int| first_named(b, name, q) && b[q] == y;
				assert(a.contains(b[q]));
				let p = choose|p: int| 0 <= p < a.len() && a[p] == b[q];
				assert(a[p].name@ == name);
			}
		},
	}
}
