// ---------------------------------------------------------------------------------------------
// U-TYPREF ghost specification (C07): the type of a place `base steps..` in the typer.
// The type of a place is the DECLARED (recorded) type of its base taken apart step by step - the element type of an
// array form for an index step, the recorded type of the member for a member step, always looking through pointers
// and views (strip) - and never anything else.  On top of spec/u_sym_spec.rs (get_spec) and the U-VT functions
// (strip, has_elem, elem, wf).
// ---------------------------------------------------------------------------------------------
pub type Structs = Map<u32, Structure>;

// ---- member lookup by name (Typer::analyze_member_access) --------------------------------------------------------------
// scanning the declared members in order from index i: the first member of that NAME; a member whose own name is poisoned
// (an earlier error) stops the scan silently
pub open spec fn member_scan(ms: Seq<Member>, name: Seq<char>, i: int) -> Option<Result<int, Poison>>
	decreases ms.len() - i
{
	if i < 0 || i >= ms.len() { None }
	else if ms[i].name is Err { Some(Err(Poison::Poisoned)) }
	else if ms[i].name->Ok_0.name@ == name { Some(Ok(i)) }
	else { member_scan(ms, name, i + 1) }
}
pub open spec fn undefined_member(s: Structure, base: Identifier, access: Identifier) -> Error {
	Error::UndefinedMember { name_of_member: access.name, name_of_structure: base.name, location: access.location, location_of_declaration: s.identifier.location }
}
#[verifier::opaque]
pub open spec fn member_access_result(structs: Structs, base: Identifier, access: Identifier) -> Result<usize, Poison> {
	let s = structs[base.resolution_id];
	match member_scan(s.members@, access.name@, 0) {
		Some(Ok(i)) => Ok(i as usize),
		Some(Err(p)) => Err(p),
		None => Err(Poison::Error(undefined_member(s, base, access))),
	}
}
// the member found lends its resolution id to the access (scoping could not know the structure)
#[verifier::opaque]
pub open spec fn member_access_name(structs: Structs, base: Identifier, access: Identifier) -> Identifier {
	let s = structs[base.resolution_id];
	match member_scan(s.members@, access.name@, 0) {
		Some(Ok(i)) => Identifier { resolution_id: s.members@[i].name->Ok_0.resolution_id, ..access },
		_ => access,
	}
}

// ---- the type of a place -----------------------------------------------------------------------------------------------
pub enum Place {
	Typed(ValueType),          // looking through pointers/views: the fully dereferenced type reached so far
	Unknown,                   // not enough is known yet (None)
	Silent(Poison),            // Some(Err(p)): an earlier error, nothing new to report
	Broken(Poison),            // a step cannot be taken (E501 not an array, E505 not a structure, E406 no such member): the base of the
	                           // reference is replaced by this poison - the reference carries the error - and the silent poison is answered
}
pub open spec fn structure_of(x: ValueType) -> Option<Identifier> {
	match x { ValueType::Struct { identifier } => Some(identifier), ValueType::Word { identifier, .. } => Some(identifier), _ => None }
}
// one step from the (fully dereferenced) type x
pub open spec fn place_step(x: ValueType, s: ReferenceStep, r: Reference, declared_at: Location, tab: SymTab, structs: Structs) -> Place {
	match s {
		ReferenceStep::Element { .. } =>
			if value_type::has_elem(x) { Place::Typed(value_type::strip(value_type::elem(x))) }
			else { Place::Broken(Poison::Error(Error::NotAnArray { current_type: x, location: r.location, previous: declared_at })) },
		ReferenceStep::Member { member, .. } =>
			if structure_of(x) is Some {
				let sid = structure_of(x)->Some_0;
				match member_access_result(structs, sid, member) {
					Err(p) => Place::Broken(p),
					Ok(_) => match get_spec(tab, member_access_name(structs, sid, member)) {
						Some(Ok(t)) => Place::Typed(value_type::strip(t)),
						Some(Err(p)) => Place::Silent(p),
						None => Place::Silent(Poison::Poisoned),
					},
				}
			}
			else if x is UnresolvedStructOrWord { if x->UnresolvedStructOrWord_identifier is Some { Place::Silent(Poison::Poisoned) } else { Place::Unknown } }
			else { Place::Broken(Poison::Error(Error::NotAStructure { current_type: x, location: r.location, previous: declared_at })) },
		_ => Place::Typed(x),      // the automatic steps do not move: x is always fully dereferenced
	}
}
// after the first k steps
pub open spec fn place_fold(x0: ValueType, steps: Seq<ReferenceStep>, k: int, r: Reference, declared_at: Location, tab: SymTab, structs: Structs) -> Place
	decreases k
{
	if k <= 0 { Place::Typed(x0) } else {
		match place_fold(x0, steps, k - 1, r, declared_at, tab, structs) {
			Place::Typed(x) => place_step(x, steps[k - 1], r, declared_at, tab, structs),
			other => other,
		}
	}
}
// `&` markers in front: one pointer level each, except that the first `&` of a slice pointer is the slice pointer itself;
// an endless array can only be had by view
pub open spec fn addressed(x: ValueType, depth: nat) -> ValueType
	decreases depth
{
	if depth == 0 { x }
	else if depth == 1 && x is SlicePointer { x }
	else { ValueType::Pointer { deref_type: Box::new(addressed(x, (depth - 1) as nat)) } }
}
pub open spec fn place_type_finish(x: ValueType, depth: u8) -> ValueType {
	let y = addressed(x, depth as nat);
	if y is EndlessArray { ValueType::View { deref_type: Box::new(y) } } else { y }
}
// what get_type_of_reference must answer
pub open spec fn type_of_place(r: Reference, tab: SymTab, structs: Structs) -> Option<Poisonable<ValueType>> {
	if r.base is Err { Some(Err(Poison::Poisoned)) }
	else if !tab.contains_key(r.base->Ok_0.resolution_id) { None }
	else if tab[r.base->Ok_0.resolution_id].value_type is Err { Some(Err(Poison::Poisoned)) }
	else {
		let sym = tab[r.base->Ok_0.resolution_id];
		match place_fold(value_type::strip(sym.value_type->Ok_0), r.steps@, r.steps@.len() as int, r, sym.identifier.location, tab, structs) {
			Place::Typed(x) => Some(Ok(place_type_finish(x, r.address_depth))),
			Place::Unknown => None,
			Place::Silent(p) => Some(Err(p)),
			Place::Broken(_) => Some(Err(Poison::Poisoned)),
		}
	}
}
// what it leaves in the base of the reference
pub open spec fn base_after(r: Reference, tab: SymTab, structs: Structs) -> Poisonable<Identifier> {
	if r.base is Err || !tab.contains_key(r.base->Ok_0.resolution_id) { r.base }
	else if tab[r.base->Ok_0.resolution_id].value_type is Err { Err(Poison::Poisoned) }
	else {
		let sym = tab[r.base->Ok_0.resolution_id];
		match place_fold(value_type::strip(sym.value_type->Ok_0), r.steps@, r.steps@.len() as int, r, sym.identifier.location, tab, structs) {
			Place::Broken(p) => Err(p),
			_ => r.base,
		}
	}
}
// a member step that has been passed carries the resolution id and the index of the member it names
#[verifier::opaque]
pub open spec fn step_resolved(s0: ReferenceStep, x: ValueType, structs: Structs) -> ReferenceStep {
	match s0 {
		ReferenceStep::Member { member, offset } =>
			if structure_of(x) is Some && member_access_result(structs, structure_of(x)->Some_0, member) is Ok {
				ReferenceStep::Member { member: member_access_name(structs, structure_of(x)->Some_0, member), offset: Some(member_access_result(structs, structure_of(x)->Some_0, member)->Ok_0) }
			} else { s0 },
		_ => s0,
	}
}
// (opaque: the verifier sees one atom per step; revealed where a step is passed)
#[verifier::opaque]
pub open spec fn resolved_at(out_k: ReferenceStep, r: Reference, k: int, tab: SymTab, structs: Structs) -> bool {
	let sym = tab[r.base->Ok_0.resolution_id];
	out_k == step_resolved(r.steps@[k], place_fold(value_type::strip(sym.value_type->Ok_0), r.steps@, k, r, sym.identifier.location, tab, structs)->Typed_0, structs)
}
pub open spec fn steps_resolved(r: Reference, out: Seq<ReferenceStep>, tab: SymTab, structs: Structs) -> bool {
	&&& out.len() == r.steps@.len()
	&&& forall|k: int| 0 <= k < out.len() ==> resolved_at(#[trigger] out[k], r, k, tab, structs)
}
// caller obligation (unreachable!() of analyze_member_access): a structure type that a place passes through has been declared
#[verifier::opaque]
pub open spec fn structures_on_the_way_known(x0: ValueType, steps: Seq<ReferenceStep>, r: Reference, declared_at: Location, tab: SymTab, structs: Structs) -> bool {
	forall|k: int| 0 <= k < steps.len() && (#[trigger] steps[k]) is Member ==> match place_fold(x0, steps, k, r, declared_at, tab, structs) {
		Place::Typed(x) => structure_of(x) is Some ==> structs.contains_key(structure_of(x)->Some_0.resolution_id),
		_ => true,
	}
}
pub open spec fn gtr_pre(r: Reference, tab: SymTab, structs: Structs) -> bool {
	&&& tab_wf(tab)
	&&& r.base is Ok && tab.contains_key(r.base->Ok_0.resolution_id) && tab[r.base->Ok_0.resolution_id].value_type is Ok ==>
		structures_on_the_way_known(value_type::strip(tab[r.base->Ok_0.resolution_id].value_type->Ok_0), r.steps@, r, tab[r.base->Ok_0.resolution_id].identifier.location, tab, structs)
}

// ---- lemmas: looking through pointers and views keeps types well formed ----------------------------------------------
pub proof fn lemma_strip_wf(t: ValueType)
	requires value_type::wf(t) || value_type::wf_inner(t),
	ensures value_type::wf(value_type::strip(t)),
	decreases t
{
	if value_type::is_ptrlike(t) { lemma_strip_wf(value_type::deref(t)); }
}
pub proof fn lemma_elem_strip_wf(t: ValueType)
	requires value_type::wf(t), value_type::has_elem(t),
	ensures value_type::wf(value_type::strip(value_type::elem(t))),
{
	lemma_strip_wf(value_type::elem(t));
}
// THEOREM: a place type that is answered is built from the declared type alone: every step either takes the element type of
// an array form or the recorded type of a member; no step invents a type
pub proof fn theorem_place_steps_only_take_apart(x: ValueType, s: ReferenceStep, r: Reference, d: Location, tab: SymTab, structs: Structs)
	ensures match place_step(x, s, r, d, tab, structs) {
		Place::Typed(y) => (s is Element && value_type::has_elem(x) && y == value_type::strip(value_type::elem(x)))
			|| (s is Member && structure_of(x) is Some && exists|id: Identifier| get_spec(tab, id) == Some(Ok::<ValueType, Poison>(#[trigger] recorded_type(tab, id))) && y == value_type::strip(recorded_type(tab, id)))
			|| (!(s is Element) && !(s is Member) && y == x),
		_ => true,
	},
{
	if s is Member && structure_of(x) is Some {
		let id = member_access_name(structs, structure_of(x)->Some_0, s->Member_member);
		if get_spec(tab, id) is Some && get_spec(tab, id)->Some_0 is Ok { assert(get_spec(tab, id) == Some(Ok::<ValueType, Poison>(recorded_type(tab, id)))); }
	}
}
// once a step has no typed answer, the later steps are not looked at
pub proof fn lemma_place_stuck(x0: ValueType, steps: Seq<ReferenceStep>, k: int, n: int, r: Reference, d: Location, tab: SymTab, structs: Structs)
	requires 0 <= k <= n, !(place_fold(x0, steps, k, r, d, tab, structs) is Typed),
	ensures place_fold(x0, steps, n, r, d, tab, structs) == place_fold(x0, steps, k, r, d, tab, structs),
	decreases n - k
{
	if n > k { lemma_place_stuck(x0, steps, k, n - 1, r, d, tab, structs); }
}
pub proof fn lemma_place_stops(x0: ValueType, steps: Seq<ReferenceStep>, r: Reference, d: Location, tab: SymTab, structs: Structs)
	ensures forall|k: int| 0 <= k < steps.len() ==> match #[trigger] place_fold(x0, steps, k, r, d, tab, structs) {
		Place::Typed(x) => !(place_step(x, steps[k], r, d, tab, structs) is Typed)
			==> place_fold(x0, steps, steps.len() as int, r, d, tab, structs) == place_step(x, steps[k], r, d, tab, structs),
		_ => true,
	},
{
	assert forall|k: int| 0 <= k < steps.len() implies match #[trigger] place_fold(x0, steps, k, r, d, tab, structs) {
		Place::Typed(x) => !(place_step(x, steps[k], r, d, tab, structs) is Typed)
			==> place_fold(x0, steps, steps.len() as int, r, d, tab, structs) == place_step(x, steps[k], r, d, tab, structs),
		_ => true,
	} by {
		if place_fold(x0, steps, k, r, d, tab, structs) is Typed {
			let x = place_fold(x0, steps, k, r, d, tab, structs)->Typed_0;
			assert(place_fold(x0, steps, k + 1, r, d, tab, structs) == place_step(x, steps[k], r, d, tab, structs));
			if !(place_step(x, steps[k], r, d, tab, structs) is Typed) { lemma_place_stuck(x0, steps, k + 1, steps.len() as int, r, d, tab, structs); }
		}
	}
}
pub proof fn lemma_place_stops_at(x0: ValueType, steps: Seq<ReferenceStep>, k: int, x: ValueType, r: Reference, d: Location, tab: SymTab, structs: Structs)
	requires 0 <= k < steps.len(), place_fold(x0, steps, k, r, d, tab, structs) == Place::Typed(x),
	ensures place_fold(x0, steps, k + 1, r, d, tab, structs) == place_step(x, steps[k], r, d, tab, structs),
		!(place_step(x, steps[k], r, d, tab, structs) is Typed) ==> place_fold(x0, steps, steps.len() as int, r, d, tab, structs) == place_step(x, steps[k], r, d, tab, structs),
{
	if !(place_step(x, steps[k], r, d, tab, structs) is Typed) { lemma_place_stuck(x0, steps, k + 1, steps.len() as int, r, d, tab, structs); }
}
