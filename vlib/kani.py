"""Kani back end for loop-free leaf functions (complete proofs over full-width symbolic inputs)."""
import os, re, subprocess, time, shutil
from . import rsparse
from .engine import VERIF, REPO, WORK, UnitResult, unit_lock
from .rsparse import LostAnchor

UNITS = {
    'U-DIG': {
        'items': [('src/delta/parser/parse_node.rs', ['const MAX_NUM_NODES', 'struct U24', 'impl U24', 'impl From<U24> for u32', 'impl From<U24> for usize'])],
        'harness': 'kani/u_dig_harness.rs',
        'expect_fail': ['sentinel_must_fail'],
        'pre': lambda t: t.replace('struct U24([u8; 3])', 'struct U24(pub [u8; 3])'),
    },
}


def verify_unit(name, tier='quick', seed=0):
    with unit_lock(name):
        return _verify_unit(name, tier, seed)


def _verify_unit(name, tier='quick', seed=0):
    r = UnitResult(name)
    r.backend = 'kani 0.68 / cbmc 6.11'
    t0 = time.time()
    spec = UNITS[name]
    d = os.path.join(WORK, 'kani_' + name.lower().replace('-', '_'))
    os.makedirs(os.path.join(d, 'src'), exist_ok=True)
    parts = ['#![allow(dead_code, unused)]\n']
    try:
        for rel, items in spec['items']:
            src = rsparse.Source(os.path.join(REPO, rel))
            for it in items:
                item = src.find(it)
                text = item.text
                text = re.sub(r'#\[derive\([^\]]*\)\]', '#[derive(Clone, Copy)]', text) if 'struct' in it else text
                parts.append('//@item %s :: %s (lines %d-%d)\n%s\n' % (rel, it, item.lines[0], item.lines[1], spec['pre'](text)))
                r.fns.append({'key': it, 'file': rel, 'lines': list(item.lines), 'contract': True})
                r.items.append('%s :: %s (lines %d-%d)' % (rel, it, item.lines[0], item.lines[1]))
    except (LostAnchor, OSError) as e:
        r.status, r.reason = 'undecided', 'lost-anchor: %s' % e
        return r
    parts.append(open(os.path.join(VERIF, spec['harness'])).read())
    open(os.path.join(d, 'src', 'main.rs'), 'w').write('\n'.join(parts))
    open(os.path.join(d, 'Cargo.toml'), 'w').write('[package]\nname = "kani_unit"\nversion = "0.0.0"\nedition = "2021"\n\n[workspace]\n')
    env = dict(os.environ, CARGO_NET_OFFLINE='true')
    cmd = ['cargo', 'kani']
    r.cmd = 'cd %s && CARGO_NET_OFFLINE=true cargo kani' % d
    r.gen_path = os.path.join(d, 'src', 'main.rs')
    try:
        p = subprocess.run(cmd, cwd=d, env=env, capture_output=True, text=True, timeout=900)
        out = p.stdout + p.stderr
    except subprocess.TimeoutExpired:
        r.status, r.reason = 'undecided', 'kani timeout'
        return r
    # per harness verdicts
    verdict = {}
    cur = None
    for l in out.split('\n'):
        m = re.match(r'Checking harness (\S+)\.\.\.', l)
        if m:
            cur = m.group(1)
        m = re.match(r'VERIFICATION:- (SUCCESSFUL|FAILED)', l)
        if m and cur:
            verdict[cur] = m.group(1)
    checks = len(re.findall(r'Status: (SUCCESS|FAILURE)', out))
    if not verdict:
        r.status, r.reason = 'undecided', 'kani produced no verdict: ' + out[-400:]
        return r
    exp_fail = set(spec['expect_fail'])
    r.sentinels = (len(exp_fail), sum(1 for h in exp_fail if verdict.get(h) == 'FAILED'))
    r.assumptions = ['kani::assume in harnesses = the contracts\' requires clauses']
    r.labels = ['C15.nodes.u24_new_value', 'C15.nodes.u32_from_u24', 'C15.nodes.usize_from_u24']
    for h, v in verdict.items():
        if h in exp_fail:
            continue
        if v == 'SUCCESSFUL':
            r.verified += 1
        else:
            r.errors += 1
            r.failures.append({'fn': 'impl U24 / From<U24>', 'where': 'src/delta/parser/parse_node.rs', 'origin': 'repo', 'obligation': 'C15.nodes.kani.' + h,
                               'label': 'C15.nodes.kani.' + h, 'kind': 'kani_harness_failed', 'message': 'Kani harness %s FAILED' % h, 'line': 0,
                               'text': h, 'sentinel': None, 'spans': [], 'rendered': out[-3000:]})
    r.breakdown = [{'function': h, 'mode': 'kani', 'ms': 0, 'rlimit': None, 'success': v == 'SUCCESSFUL'} for h, v in verdict.items()]
    r.notes.append('CBMC checks reported: %d; loop-free harnesses over full-width symbolic inputs: complete' % checks)
    if r.sentinels[1] != r.sentinels[0]:
        r.status, r.reason = 'undecided', 'VACUOUS: the must-fail Kani harness did not fail'
    elif r.errors:
        r.status = 'failed'
    r.wall = time.time() - t0
    return r
