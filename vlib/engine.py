"""Build + verify one unit; decide per property; write evidence / replay files."""
import importlib
import json
import os
import re
import time
import hashlib
import traceback
import concurrent.futures as cf

from . import verus
from .unit import Unit, Unsupported
from .rsparse import LostAnchor

VERIF = os.path.dirname(os.path.dirname(os.path.abspath(__file__)))
REPO = os.environ.get('VERIF_REPO', '/repo')
# runs against a scratch copy of the repository (VERIF_REPO=..., used to try changes) get their own work directory, so
# that they never touch the files of a concurrent run against /repo
if os.path.realpath(REPO) == '/repo':
    WORK_REL = '.work'
else:
    WORK_REL = os.path.join('.work', 'scratch_' + hashlib.sha1(os.path.realpath(REPO).encode()).hexdigest()[:10])
WORK = os.path.join(VERIF, WORK_REL)


class unit_lock:
    """exclusive lock per unit and work directory: two checks that share a unit (e.g. C15 and C17 both use U-PARSE and the
    Kani crate U-DIG) may run at the same time; they take turns on the unit's generated files and build directories"""
    def __init__(self, name):
        self.name = name

    def __enter__(self):
        import fcntl
        d = os.path.join(WORK, 'locks')
        os.makedirs(d, exist_ok=True)
        self.f = open(os.path.join(d, re.sub(r'[^A-Za-z0-9_.-]', '_', self.name) + '.lock'), 'w')
        fcntl.flock(self.f, fcntl.LOCK_EX)
        return self

    def __exit__(self, *a):
        import fcntl
        fcntl.flock(self.f, fcntl.LOCK_UN)
        self.f.close()
ASSUME_PAT = re.compile(r'\b(assume\s*\(|admit\s*\(|external_body|assume_specification|exec_allows_no_decreases_clause|'
                        r'verifier::external\b|external_fn_specification|external_type_specification|verifier::truncate|'
                        r'uninterp\s+spec\s+fn|axiom\s+fn|broadcast\s+axiom)')


def load_json(p, default=None):
    try:
        return json.load(open(p))
    except Exception:
        return default


class UnitResult:
    def __init__(self, name):
        self.name = name
        self.status = 'ok'  # ok | failed | undecided
        self.reason = ''
        self.failures = []
        self.tool_errors = []
        self.rlimit = []
        self.fns = []
        self.verified = 0
        self.errors = 0
        self.wall = 0.0
        self.smt_ms = 0
        self.cmd = ''
        self.rules = {}
        self.dropped = {}
        self.assumptions = []
        self.breakdown = []
        self.sentinels = (0, 0)
        self.gen_path = ''
        self.items = []
        self.opaque = []
        self.notes = []
        self.clauses = 0
        self.labels = []
        self.relaxed = []

    def to_json(self):
        return self.__dict__


def build_unit(name, sentinel=False, disabled_hints=(), extra_consts=()):
    mod = importlib.import_module('units.' + name.lower().replace('-', '_'))
    u = Unit(name, REPO, VERIF, sentinel=sentinel)
    u.work_rel = WORK_REL
    u.work = WORK
    os.makedirs(WORK, exist_ok=True)
    u.disabled_hints = set(disabled_hints)
    mod.build(u)
    # constants that changed code refers to and the unit description does not list: sliced from the unit's own source files
    for cname in extra_consts:
        if cname.startswith('method:'):
            # a method that changed code calls and the unit description does not list: sliced from an inherent impl of the
            # unit's own source files, without contract (callers see only its signature)
            mname = cname[len('method:'):]
            done = False
            for rel, src in list(u.sources.items()):
                for it in src.items:
                    if it.kind == 'impl' and ' for ' not in it.header and any(ch.kind == 'fn' and ch.name == mname for ch in it.children):
                        hdr = re.sub(r'\s+', ' ', it.header).strip()
                        if hdr.endswith('{'):
                            hdr = hdr[:-1].strip()
                        try:
                            from . import rules as _rules
                            u.emit(rel, hdr, only=[mname], rules=[_rules.r1_r2_map_collect(0, with_decreases=True), _rules.r13_assert_eq],
                                   pre=(lambda t: re.sub(r'(?m)^(\s*(?:pub(?:\([a-z]+\))? )?fn )', r'#[verifier::exec_allows_no_decreases_clause]\n\1', t, count=1)))
                        except Exception:
                            continue
                        u.autosliced_fns = getattr(u, 'autosliced_fns', []) + [mname]
                        u.relaxed.append('method %s (not in the unit description) sliced from %s because the code now calls it - it has no contract, callers see only its signature' % (mname, rel))
                        done = True
                        break
                if done:
                    break
            continue
        kind = 'const' if cname.upper() == cname else 'fn'
        for rel, src in list(u.sources.items()):
            try:
                src.find('%s %s' % (kind, cname))
            except LostAnchor:
                continue
            from . import rules as _rules
            u.emit(rel, '%s %s' % (kind, cname), rules=([_rules.r1_r2_map_collect(0, with_decreases=True), _rules.r13_assert_eq] if kind == 'fn' else ()),
                   pre=(lambda t: re.sub(r'(?m)^((?:pub )?fn )', r'#[verifier::exec_allows_no_decreases_clause]\n\1', t, count=1)) if kind == 'fn'
                   else (lambda t: re.sub(r"(const\s+\w+\s*:\s*)&str\b", r"\1&'static str", t)))    # a constant of type &str: the elided lifetime is 'static; Verus wants it written
            if kind == 'fn':
                u.autosliced_fns = getattr(u, 'autosliced_fns', []) + [cname]
            u.relaxed.append('%s %s (not in the unit description) sliced from %s because the code now refers to it%s' % (
                kind, cname, rel, '' if kind == 'const' else ' - it has no contract, callers see only its signature'))
            break
    return u


def hints_at(text, lines):
    """ids of the ghost-hint regions (//@hint .. //@endhint) that contain any of the given 1-based line numbers"""
    ids = set()
    cur = None
    for i, l in enumerate(text.split('\n'), 1):
        s = l.strip()
        if s.startswith('//@hint '):
            cur = s[len('//@hint '):]
        elif s.startswith('//@endhint'):
            cur = None
        elif cur and i in lines:
            ids.add(cur)
    return ids


def scan_assumptions(text):
    found = []
    for i, l in enumerate(text.split('\n'), 1):
        s = l.strip()
        if s.startswith('//') and not s.startswith('//@'):
            continue
        m = ASSUME_PAT.search(l)
        if m:
            found.append(re.sub(r'\s+', ' ', s)[:200])
    return found


def verify_unit(name, tier='quick', seed=0, threads=8, disabled_hints=(), depth=0, extra_consts=()):
    if depth == 0:
        with unit_lock(name):
            return _verify_unit(name, tier, seed, threads, disabled_hints, 0, extra_consts)
    return _verify_unit(name, tier, seed, threads, disabled_hints, depth, extra_consts)


def _verify_unit(name, tier='quick', seed=0, threads=8, disabled_hints=(), depth=0, extra_consts=()):
    r = UnitResult(name)
    t0 = time.time()
    os.makedirs(WORK, exist_ok=True)
    try:
        u = build_unit(name, sentinel=False, disabled_hints=disabled_hints, extra_consts=extra_consts)
        text = u.text()
        us = build_unit(name, sentinel=True, disabled_hints=disabled_hints, extra_consts=extra_consts)
        stext = us.text()
    except LostAnchor as e:
        r.status, r.reason = 'undecided', 'lost-anchor: %s' % e
        r.wall = time.time() - t0
        return r
    except Unsupported as e:
        r.status, r.reason = 'undecided', 'unsupported: %s' % e
        r.wall = time.time() - t0
        return r
    except Exception as e:
        r.status, r.reason = 'undecided', 'generator-error: %s\n%s' % (e, traceback.format_exc()[-1500:])
        r.wall = time.time() - t0
        return r
    path = os.path.join(WORK, name.lower().replace('-', '_') + '.rs')
    spath = os.path.join(WORK, name.lower().replace('-', '_') + '_sentinel.rs')
    open(path, 'w').write(text)
    open(spath, 'w').write(stext)
    r.gen_path = path
    r.rules = dict(u.rules)
    r.dropped = dict(u.dropped)
    r.fns = [{'key': k, 'file': f, 'lines': [a, b], 'contract': c} for (k, f, a, b, c) in u.fns]
    r.items = u.item_log
    r.relaxed = list(u.relaxed)
    r.autosliced_fns = list(getattr(u, 'autosliced_fns', []))
    r.fn_idents = dict(getattr(u, 'fn_idents', {}))
    r.fn_closures = dict(getattr(u, 'fn_closures', {}))
    r.fn_lines = dict(getattr(u, 'fn_lines', {}))
    r.fn_renames = dict(getattr(u, 'fn_renames', {}))
    r.opaque = u.opaque
    r.notes = u.notes
    r.assumptions = scan_assumptions(text)
    r.labels = sorted(set(re.findall(r'/\*@L:([^*]+)\*/', text)))
    r.clauses = sum(1 for l in text.split('\n') if l.strip() and _in_clause_line(l))
    gm = verus.GenMap(text)
    umod = importlib.import_module('units.' + name.lower().replace('-', '_'))
    rlimit = getattr(umod, 'RLIMIT', None)
    multi = getattr(umod, 'MULTIPLE_ERRORS', 4)
    extra = list(u.verus_args)
    with cf.ThreadPoolExecutor(2) as ex:
        fut_main = ex.submit(verus.run, path, rlimit, threads, multi, seed if tier == 'thorough' and seed else None, extra)
        fut_sent = ex.submit(verus.run, spath, rlimit, max(2, threads // 2), 1, None, extra) if us.sentinels else None
        vr = fut_main.result()
        sr = fut_sent.result() if fut_sent else None
    r.cmd = vr['cmd']
    res = vr['json']
    fails, tool, rl = verus.classify(vr, gm)
    if rl and not tool:
        # retry once with 4x rlimit
        vr2 = verus.run(path, (rlimit or 10) * 4, threads, multi, None, extra)
        f2, t2, rl2 = verus.classify(vr2, gm)
        if not t2:
            vr, res, fails, tool, rl = vr2, vr2['json'], f2, t2, rl2
            r.cmd = vr['cmd']
            r.notes.append('rlimit retry x4 used')
    r.failures, r.tool_errors, r.rlimit = fails, tool, rl
    if res and 'verification-results' in res:
        r.verified = res['verification-results'].get('verified', 0)
        r.errors = res['verification-results'].get('errors', 0)
        r.breakdown = verus.fn_breakdown(res)
        try:
            r.smt_ms = res['times-ms']['smt']['total']
        except Exception:
            pass
    if tool and depth < 3:
        # a ghost hint that no longer type-checks in changed code is dropped and the unit re-verified (relaxed anchor):
        # hints are ghost, dropping one can only make the proof harder
        bad = hints_at(text, set(t['line'] for t in tool if t['line']))
        if bad and all(t['line'] and hints_at(text, {t['line']}) for t in tool):
            return _verify_unit(name, tier, seed, threads, tuple(set(disabled_hints) | bad), depth + 1, extra_consts)
        missing = set()
        for t in tool:
            m = re.match(r'cannot find (?:value|function) `([A-Za-z_][A-Za-z0-9_]*)` in this scope', t['message'])
            if m:
                missing.add(m.group(1))
            m = re.match(r'no method named `([A-Za-z_][A-Za-z0-9_]*)` found', t['message'])
            if m:
                missing.add('method:' + m.group(1))
        if missing and not (missing <= set(extra_consts)):
            return _verify_unit(name, tier, seed, threads, disabled_hints, depth + 1, tuple(set(extra_consts) | missing))
    if tool or res is None or vr['rc'] not in (0, 1) or (res and res['verification-results'].get('encountered-vir-error')):
        r.status = 'undecided'
        r.reason = 'verus rejected the generated file or crashed: ' + '; '.join(
            '%s [line %s: %s]' % (t['message'][:200], t['line'], (t['text'] or '')[:120]) for t in tool[:4]) + \
            (' | ' + ' '.join(vr['stderr_other'][:3]) if not tool else '')
    elif rl:
        r.status = 'undecided'
        r.reason = 'resource limit: ' + '; '.join('%s (%s)' % (x['fn'], x['message'][:80]) for x in rl[:4])
    elif fails:
        r.status = 'failed'
    elif not (res and res['verification-results'].get('success')):
        r.status = 'undecided'
        r.reason = 'verus reported no success but no diagnostics were parsed'
    # ---- sentinel (vacuity) run
    if sr is not None:
        sgm = verus.GenMap(stext)
        sf, stool, srl = verus.classify(sr, sgm)
        hit = set(x['sentinel'] for x in sf if x['sentinel'])
        exp = set(us.sentinels)
        r.sentinels = (len(exp), len(hit & exp))
        missing = sorted(exp - hit)
        if stool:
            if r.status == 'ok':
                r.status = 'undecided'
                r.reason = 'sentinel run rejected: ' + stool[0]['message'][:200]
        elif missing and r.status == 'ok':
            r.status = 'undecided'
            r.reason = 'VACUOUS contract (must-fail sentinel did not fail): ' + ', '.join(missing[:5])
    r.wall = time.time() - t0
    return r


def _in_clause_line(l):
    return '/*@L:' in l
