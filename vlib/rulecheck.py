"""Rule-validation harness (thorough tier): plain Rust, compiled with the repository's toolchain.
 * every rewrite rule that has a generic shape is applied BY THE REAL RULE FUNCTION to a template snippet; original and
   rewritten snippet are emitted as two functions and executed side by side on enumerated inputs (stateful closures included);
 * the verified helper shims (slice_find, slice_any, slice_count, slice_eq, usize_min/max, PeekIter) are taken from prelude/*.rs
   with the Verus clauses stripped mechanically and compared with the std functions they replace;
 * the finite-domain assumed specs (u8::is_ascii / is_ascii_graphic, char::from_u32, strum from_repr, the enumset bit model)
   are checked exhaustively against the real libraries.
Returns a dict for the evidence; never decides a property."""
import os, re, subprocess, collections
from .engine import VERIF, REPO, WORK
from . import rules, rules_lexer


class FakeUnit:
    def __init__(self):
        self.rules = collections.Counter()


def _unname_result(l):
    """`-> (r: T)` -> `-> T` with balanced parentheses"""
    m = re.search(r'-> \((\w+): ', l)
    if not m:
        return l
    k = m.end()
    depth = 1
    e = k
    while e < len(l) and depth > 0:
        if l[e] == '(':
            depth += 1
        elif l[e] == ')':
            depth -= 1
        e += 1
    return l[:m.start()] + '-> ' + l[k:e - 1] + l[e:]


def strip_verus(text):
    """remove requires/ensures/invariant/decreases clauses, spec fns, proof blocks, ghost lets/params and asserts from a
    simple helper.  Convention of prelude/*.rs relied upon: a clause block ends at the first following line that STARTS
    with `{`; a spec fn ends at the first following line that is exactly `}`."""
    out = []
    skip = False
    skip_spec = False
    for l in text.split('\n'):
        s = l.strip()
        if s.startswith('//'):
            continue
        if skip_spec:
            if l.rstrip() == '}':
                skip_spec = False
            continue
        if skip:
            if s.startswith('{'):
                skip = False
                out.append(l)
            continue
        if re.match(r'^pub (open|closed) spec fn', s):
            if not s.endswith('}'):
                skip_spec = True
            continue
        if re.match(r'^(requires|ensures|invariant|decreases)\b', s):
            skip = True
            continue
        if s.startswith('assert(') or s.startswith('let ghost') or s.startswith('proof {'):
            continue
        l = re.sub(r', Ghost\(\w+\): Ghost<spec_fn\(\w+\) -> bool>', '', l)
        # one-line fn with inline ensures:  fn f(..) -> (r: T) ensures .. { body }
        m = re.match(r'^(.*?)\s*(?:requires|ensures) [^{]*(\{.*)$', l) if re.search(r'\)\s*(requires|ensures) ', l) else None
        if m:
            l = m.group(1) + ' ' + m.group(2)
        out.append(_unname_result(l))
    return '\n'.join(out)


TEMPLATES = {
    'R1': ('fn FN(v: Vec<i32>, st: &mut i32) -> Vec<i32> { let r: Vec<i32> = v.into_iter().map(|x| { *st += x; *st * 2 }).collect(); r }', rules.r1_r2_map_collect(1)),
    'R2': ('fn FN(v: Vec<i32>, st: &mut i32) -> Vec<i32> { let r: Vec<i32> = v.into_iter().rev().map(|x| { *st += x; *st * 2 }).collect(); r }', rules.r1_r2_map_collect(1)),
    'R3': ('fn FN(o: Option<i32>, st: &mut i32) -> Option<i32> { let r = o.map(|x| { *st += x; *st + 1 }); r }', rules.r3_option_map(['o'])),
    'R4': ('fn FN(a: i32, b: i32) -> (i32, i32) {\n\tlet mut n = 0; let mut last = 0;\n\tlet mut push = |node| { last = node; n += 1; };\n\tpush(a);\n\tif b > 3 { push(b * 2); }\n\t(n, last)\n}', rules.r4_inline_closure('push')),
    'R13': ('fn FN(a: i32, b: i32) -> i32 { assert_eq!(a + 0, a, "msg {}", b); assert_ne!(a, a + 1); a + b }', rules.r13_assert_eq),
    'R17': ('fn FN(v: Vec<i32>) -> Vec<usize> { let mut out = Vec::new(); for (i, x) in v.iter().enumerate() { if *x > 2 { out.push(i); } } out }', rules.r17_for_enumerate),
    'R21': ('fn FN(a: usize, b: usize) -> usize { std::cmp::max(a / 2, 7) + std::cmp::min(b, 100) }', rules.r21_cmp_minmax),
    'R20': ('struct P(i32); struct Q { a: i32, b: i32 } fn FN_inner(P(x): P, Q { a, b }: Q) -> i32 { x * a - b } fn FN(a: i32, b: i32) -> i32 { FN_inner(P(a), Q { a: b, b: a }) }', rules.r20_param_patterns),
}


def gen_main():
    u = FakeUnit()
    parts = ['#![allow(unused, unused_mut, unused_parens, dead_code, non_snake_case)]\n']
    for rel in ('prelude/slice_find.rs', 'prelude/slice_any.rs', 'prelude/slice_count.rs', 'prelude/usize_minmax.rs', 'prelude/peek_iter.rs'):
        p = os.path.join(VERIF, rel)
        if os.path.exists(p):
            parts.append('// ---- %s (Verus clauses stripped)\n%s\n' % (rel, strip_verus(open(p).read())))
    calls = []
    for name, (tmpl, rule) in TEMPLATES.items():
        orig = tmpl.replace('FN', 'orig_' + name)
        key = 'fn orig_' + name
        if name == 'R20':
            # rule works per function: apply to the inner fn only
            m = re.search(r'fn orig_R20_inner\(.*?\) -> i32 \{.*?\} ', orig)
            new_inner = rule(u, key, m.group(0).strip())
            rew = orig.replace(m.group(0).strip(), new_inner)
        else:
            rew = rule(u, key, orig)
        rew = rew.replace('orig_' + name, 'rew_' + name).replace('struct P(i32); struct Q { a: i32, b: i32 } ', '')
        parts.append('// ---- rule %s\n%s\n%s\n' % (name, orig, rew))
    parts.append(open(os.path.join(VERIF, 'rule_harness', 'main_tail.rs')).read())
    return '\n'.join(parts), dict(u.rules)


def run():
    d = os.path.join(WORK, 'rule_harness')
    os.makedirs(os.path.join(d, 'src'), exist_ok=True)
    try:
        main, applied = gen_main()
    except Exception as e:
        return {'status': 'generator-error', 'detail': str(e)[:500]}
    open(os.path.join(d, 'src', 'main.rs'), 'w').write(main)
    open(os.path.join(d, 'Cargo.toml'), 'w').write(
        '[package]\nname = "rule_harness"\nversion = "0.0.0"\nedition = "2021"\n\n[dependencies]\npenne = { path = "%s" }\nenumset = "1.0"\n\n[workspace]\n' % REPO)
    env = dict(os.environ, CARGO_NET_OFFLINE='true', CARGO_TARGET_DIR=os.path.join(WORK, 'replay_target'))
    p = subprocess.run(['cargo', 'run', '--offline', '-q'], cwd=d, env=env, capture_output=True, text=True, timeout=1800)
    lines = [l for l in p.stdout.split('\n') if l.startswith('RULECHECK ')]
    res = {'status': 'ok' if p.returncode == 0 and lines else 'failed', 'rules_applied_to_templates': applied, 'results': [l[10:] for l in lines]}
    if p.returncode != 0:
        res['detail'] = (p.stderr or p.stdout)[-1500:]
    return res
