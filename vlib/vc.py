"""Parser for contract files (/verif/contracts/*.vc).

Format (line oriented):

    === fn <item path>                 e.g.  === fn impl Analyzer :: fn use_label     or   === fn fn align
    ret r                              name of the result (turns `-> T` into `-> (r: T)`)
    requires
        [C15.lexd.src_len] source@.len() <= 0x8000_0000,
        other_clause,
    ensures
        ...
    decreases self, 2int
    --- loop <ordinal> | <normalized loop header text>
    invariant
        ...
    invariant_except_break
        ...
    ensures
        ...
    decreases x
    --- before <nth> | <stripped line text>      raw ghost text inserted before that line of the fn
    <raw lines>
    --- after <nth> | <stripped line text>       raw ghost text inserted after that line
    <raw lines>
    --- closure <nth> | <head as in /repo> => <typed head>     e.g.  --- closure 0 | |t| => |t: T| -> (b: bool)
    ensures ...                                   (closure contract; the body text is kept verbatim, braces added)
    --- body_prefix                               raw ghost text inserted right after the body's `{`
    <raw lines>
    --- attr                                      attribute lines put in front of the fn
    #[verifier::...]

Clause lines may start with `[LABEL]`, the obligation name that a VIOLATION reports.  Lines starting
with `##` are comments.  Everything inserted is ghost (Verus checks this) or a Verus attribute.
"""
import re

SECTIONS = ('requires', 'ensures', 'decreases', 'invariant', 'invariant_except_break', 'recommends', 'returns',
            'no_unwind', 'opens_invariants')


class FnContract:
    def __init__(self, key, file_line):
        self.key = key
        self.file_line = file_line
        self.ret = None
        self.clauses = []  # list of (section, [lines])   in order
        self.loops = []  # LoopContract
        self.inserts = []  # (where, nth, anchor, [lines])
        self.body_prefix = []
        self.attrs = []
        self.closures = []  # ClosureContract
        self.used = False


class ClosureContract:
    def __init__(self, nth, header, new_header):
        self.nth = nth
        self.header = header  # literal text of the closure head as found in /repo, e.g. `|t|`
        self.new_header = new_header  # typed head, e.g. `|t: ValueType<I>| -> (b: bool)`
        self.clauses = []


class LoopContract:
    def __init__(self, ordinal, fingerprint):
        self.ordinal = ordinal
        self.fingerprint = fingerprint
        self.clauses = []
        self.bind = None


LABEL = re.compile(r'^(\s*)\[((?:[A-Za-z0-9_.\-<>:]|\[[A-Za-z0-9_.]*\])+)\]\s*(.*)$')


def render_clauses(clauses, indent='\t'):
    """returns text; `[LABEL] expr` becomes `expr /*@L:LABEL*/`; an unlabelled clause start gets /*@U*/"""
    out = []
    for sec, lines in clauses:
        if sec in ('no_unwind',):
            out.append(indent + sec)
            continue
        buf = []
        new_clause = True
        for ln in lines:
            m = LABEL.match(ln)
            body = ln.strip()
            if m:
                ln = '%s%s /*@L:%s*/' % (m.group(1), m.group(3), m.group(2))
            elif new_clause and sec != 'decreases':
                ln = ln + ' /*@U*/'
            buf.append(indent + '\t' + ln.strip())
            new_clause = body.endswith(',')
        if sec == 'decreases' and len(lines) == 0:
            continue
        out.append(indent + sec)
        out.extend(buf)
    return '\n'.join(out)


def parse(path):
    contracts = {}
    cur = None
    tgt = None  # object receiving clause lines: FnContract or LoopContract
    sec = None
    raw = None  # list receiving raw lines
    for no, line in enumerate(open(path), 1):
        line = line.rstrip('\n')
        s = line.strip()
        if s.startswith('##'):
            continue
        if s.startswith('=== fn '):
            key = re.sub(r'\s+', ' ', s[len('=== fn '):].strip())
            if key in contracts:
                raise ValueError('%s:%d duplicate contract %s' % (path, no, key))
            cur = FnContract(key, '%s:%d' % (path, no))
            contracts[key] = cur
            tgt = cur
            sec = None
            raw = None
            continue
        if cur is None:
            if s:
                raise ValueError('%s:%d text outside a contract' % (path, no))
            continue
        if s.startswith('--- loop '):
            m = re.match(r'--- loop (\d+) \| (.*)$', s)
            lc = LoopContract(int(m.group(1)), re.sub(r'\s+', ' ', m.group(2).strip()))
            cur.loops.append(lc)
            tgt = lc
            sec = None
            raw = None
            continue
        m = re.match(r'--- closure (\d+) \| (.*?) => (.*)$', s)
        if m:
            cc = ClosureContract(int(m.group(1)), m.group(2).strip(), m.group(3).strip())
            cur.closures.append(cc)
            tgt = cc
            sec = None
            raw = None
            continue
        m = re.match(r'--- (before|after) (\d+) \| (.*)$', s)
        if m:
            raw = []
            cur.inserts.append((m.group(1), int(m.group(2)), m.group(3).strip(), raw))
            tgt = None
            continue
        if s == '--- body_prefix':
            raw = cur.body_prefix
            tgt = None
            continue
        if s == '--- attr':
            raw = cur.attrs
            tgt = None
            continue
        if raw is not None and tgt is None:
            raw.append(line)
            continue
        if not s:
            continue
        if s.startswith('bind ') and isinstance(tgt, LoopContract):
            tgt.bind = s[5:].strip()
            continue
        if s.startswith('ret ') and tgt is cur:
            cur.ret = s[4:].strip()
            continue
        head = s.split(None, 1)
        if head[0] in SECTIONS:
            sec = head[0]
            lines = []
            tgt.clauses.append((sec, lines))
            if len(head) > 1:
                lines.append(head[1])
            continue
        if sec is None:
            raise ValueError('%s:%d clause outside a section: %s' % (path, no, s))
        tgt.clauses[-1][1].append(s)
    return contracts
