"""Small-scope differential search for header extraction (C17): generated modules with interleaved public and private
declarations; the header must have as many declarations as there are `pub` declarations and as many nodes as the parse
of the reference module that contains only the public declarations with their bodies removed."""
import time
from . import replayrun

KINDS = ['fn_body', 'fn_head', 'const', 'struct', 'extern_fn_body']


def decl(kind, name, pub):
    p = 'pub ' if pub else ''
    if kind == 'fn_body':
        full = '%sfn %s(a: i32) -> i32\n{\n\tvar x = a;\n\t{\n\t\tx = x + 1;\n\t}\n\tif x == 2 goto end;\n\tend:\n\treturn: x\n}\n' % (p, name)
        head = 'pub fn %s(a: i32) -> i32;\n' % name
    elif kind == 'extern_fn_body':
        full = '%sextern fn %s(a: i32) -> i32\n{\n\tvar y = a * a;\n\treturn: y\n}\n' % (p, name)
        head = 'pub extern fn %s(a: i32) -> i32;\n' % name
    elif kind == 'fn_head':
        full = '%sfn %s(a: []u8);\n' % (p, name)
        head = 'pub fn %s(a: []u8);\n' % name
    elif kind == 'const':
        full = '%sconst %s: i32 = 1 + 2;\n' % (p, name.upper())
        head = 'pub const %s: i32 = 1 + 2;\n' % name.upper()
    else:
        full = '%sstruct %s\n{\n\tx: i32,\n\ty: &[]u8,\n}\n' % (p, name.capitalize())
        head = 'pub struct %s\n{\n\tx: i32,\n\ty: &[]u8,\n}\n' % name.capitalize()
    return full, head


def search(deadline, rng):
    tried = 0
    while time.time() < deadline and tried < 600:
        tried += 1
        n = rng.randint(1, 6)
        module = ''
        ref = ''
        npub = 0
        for i in range(n):
            pub = rng.random() < 0.5
            full, head = decl(rng.choice(KINDS), 'd%d' % i, pub)
            module += full
            if pub:
                ref += head
                npub += 1
        r = replayrun.run('delta', module.encode(), timeout=20)
        if r.get('status') in ('panic', 'crash', 'timeout'):
            return {'mode': 'delta', 'input_utf8_lossy': module, 'input_hex': module.encode().hex(), 'observed': r, 'expected': 'no panic'}
        if r.get('status') != 'ok' or r['result'].get('parse_errors') != '0' or r['result'].get('lex_errors') != '0':
            continue
        if npub == 0:
            exp_nodes = 5
        else:
            rr = replayrun.run('delta', ref.encode(), timeout=20)
            if rr.get('status') != 'ok' or rr['result'].get('parse_errors') != '0':
                continue
            exp_nodes = int(rr['result']['nodes'])
        res = r['result']
        if int(res['header_decls']) != npub or int(res['header_nodes']) != exp_nodes or int(res.get('header_malformed', 0)) != 0 or int(res.get('malformed', 0)) != 0:
            return {'mode': 'delta', 'input_utf8_lossy': module, 'input_hex': module.encode().hex(), 'observed': res,
                    'expected': 'header_decls=%d header_nodes=%d (= parse of the public declarations alone, bodies removed)' % (npub, exp_nodes),
                    'expect_result': {'header_decls': npub, 'header_nodes': exp_nodes, 'header_malformed': 0, 'malformed': 0}, 'modules_tried': tried}
    return None
