"""Small-scope differential search for header extraction (C17): generated modules with interleaved public and private
declarations; the header must have as many declarations as there are `pub` declarations and as many nodes as the parse
of the reference module that contains only the public declarations with their bodies removed."""
import time
from . import replayrun

KINDS = ['fn_body', 'fn_head', 'const', 'struct', 'extern_fn_body', 'opaque', 'extern_fn_head', 'word', 'import', 'const_ref', 'const_array', 'const_struct']
NO_BODY = ['fn_head', 'const', 'struct', 'opaque', 'extern_fn_head', 'word', 'import', 'const_ref', 'const_array', 'const_struct']


def decl(kind, name, pub):
    p = 'pub ' if pub else ''
    if kind == 'fn_body':
        full = '%sfn %s(a: i32) -> i32\n{\n\tvar x = a;\n\t{\n\t\tx = x + 1;\n\t}\n\tif x == 2 goto end;\n\tend:\n\treturn: x\n}\n' % (p, name)
        head = 'pub fn %s(a: i32) -> i32;\n' % name
    elif kind == 'extern_fn_body':
        full = '%sextern fn %s(a: i32) -> i32\n{\n\tvar y = a * a;\n\treturn: y\n}\n' % (p, name)
        head = 'pub extern fn %s(a: i32) -> i32;\n' % name
    elif kind == 'import':
        full = '%simport "lib/%s.pn";\n' % (p, name)
        head = 'pub import "lib/%s.pn";\n' % name
    elif kind == 'fn_head':
        full = '%sfn %s(a: []u8);\n' % (p, name)
        head = 'pub fn %s(a: []u8);\n' % name
    elif kind == 'opaque':
        full = '%sstruct %s;\n' % (p, name.capitalize())
        head = 'pub struct %s;\n' % name.capitalize()
    elif kind == 'extern_fn_head':
        full = '%sextern fn %s(a: []u8, n: usize) -> i32;\n' % (p, name)
        head = 'pub extern fn %s(a: []u8, n: usize) -> i32;\n' % name
    elif kind == 'word':
        full = '%sword32 %s\n{\n\ta: u16,\n\tb: u16,\n}\n' % (p, name.capitalize())
        head = 'pub word32 %s\n{\n\ta: u16,\n\tb: u16,\n}\n' % name.capitalize()
    elif kind == 'const_ref':
        # a value that names other identifiers (bare references), whatever they are
        full = '%sconst %s_R: i32 = WIDTH * HEIGHT + other.x - -DEPTH;\n' % (p, name.upper())
        head = 'pub const %s_R: i32 = WIDTH * HEIGHT + other.x - -DEPTH;\n' % name.upper()
    elif kind == 'const_array':
        full = '%sconst %s_A: [4]i32 = [2, 3, 5, LAST];\n' % (p, name.upper())
        head = 'pub const %s_A: [4]i32 = [2, 3, 5, LAST];\n' % name.upper()
    elif kind == 'const_struct':
        full = '%sconst %s_S: Pair = Pair { first: 1, second: [ONE, 2] };\n' % (p, name.upper())
        head = 'pub const %s_S: Pair = Pair { first: 1, second: [ONE, 2] };\n' % name.upper()
    elif kind == 'const':
        full = '%sconst %s: i32 = 1 + 2;\n' % (p, name.upper())
        head = 'pub const %s: i32 = 1 + 2;\n' % name.upper()
    else:
        full = '%sstruct %s\n{\n\tx: i32,\n\ty: &[]u8,\n}\n' % (p, name.capitalize())
        head = 'pub struct %s\n{\n\tx: i32,\n\ty: &[]u8,\n}\n' % name.capitalize()
    return full, head


def expected_header_xml(tree_xml):
    """the property read directly on the XML dump: the header is the tree restricted to the declarations flagged Public,
    in order, with that flag cleared and every <FunctionBody> element removed; everything else identical.
    Top-level elements are the `<...Declaration>` elements (they do not nest); the dump is not always balanced XML inside a
    declaration (`<IdentifierAndExpression .. />` is later closed by `</IdentifierAndExpression>`), so nesting is not counted."""
    import re
    out = []
    keep = False
    in_decl = False
    in_body = False
    for line in tree_xml.split('\n'):
        t = line.strip()
        if not t:
            continue
        m0 = re.match(r'<(?!VariableDeclaration)(\w+Declaration)\b', t)
        if not in_decl and not in_body and m0:
            in_decl = not t.endswith('/>')
            m = re.search(r'flags="([^"]*)"', t)
            flags = m.group(1).split('|') if m and m.group(1) else []
            keep = 'Public' in flags
            if keep:
                out.append(t.replace('flags="%s"' % m.group(1), 'flags="%s"' % '|'.join(f for f in flags if f != 'Public')))
            continue
        if in_decl and not in_body and re.match(r'</(?!VariableDeclaration)\w+Declaration>', t):
            in_decl = False
            if keep:
                out.append(t)
            continue
        if not in_body and t.startswith('<FunctionBody') and not t.endswith('/>'):
            in_body = True
            continue
        if in_body:
            if t.startswith('</FunctionBody>'):
                in_body = False
            continue
        if keep:
            out.append(t)
    return out


def search_xml(deadline, rng, max_tries=400):
    tried = 0
    while time.time() < deadline and tried < max_tries:
        tried += 1
        n = rng.randint(1, 6)
        style = rng.random()
        module = ''
        for i in range(n):
            pub = True if style < 0.3 else (rng.random() < 0.5)
            kind = rng.choice(NO_BODY if style < 0.2 else KINDS)
            module += decl(kind, 'd%d' % i, pub)[0]
        r = replayrun.run('deltaxml', module.encode(), timeout=20)
        if r.get('status') in ('panic', 'crash', 'timeout'):
            return {'mode': 'deltaxml', 'input_utf8_lossy': module, 'input_hex': module.encode().hex(), 'observed': r, 'expected': 'no panic'}
        if r.get('status') != 'ok' or 'tree' not in r['result']:
            continue
        tree = bytes.fromhex(r['result']['tree']).decode('utf-8', 'replace')
        hdr = [l.strip() for l in bytes.fromhex(r['result']['header']).decode('utf-8', 'replace').split('\n') if l.strip()]
        exp = expected_header_xml(tree)
        if hdr != exp:
            k = next((i for i in range(min(len(hdr), len(exp))) if hdr[i] != exp[i]), min(len(hdr), len(exp)))
            return {'mode': 'deltaxml', 'input_utf8_lossy': module, 'input_hex': module.encode().hex(),
                    'observed': {'status': 'ok', 'header_xml_line_%d' % k: hdr[k] if k < len(hdr) else '(missing)'},
                    'expected': 'header XML = tree XML restricted to Public declarations, Public cleared, FunctionBody removed; line %d should be %s' % (k, exp[k] if k < len(exp) else '(nothing)'),
                    'expect_result': {'header': '\n'.join(exp).encode().hex()}, 'modules_tried': tried}
    return None


def search(deadline, rng):
    w = search_xml(time.time() + (deadline - time.time()) * 0.5, rng)
    if w:
        return w
    tried = 0
    while time.time() < deadline and tried < 600:
        tried += 1
        n = rng.randint(1, 6)
        module = ''
        ref = ''
        npub = 0
        for i in range(n):
            pub = rng.random() < 0.5
            full, head = decl(rng.choice(KINDS), 'd%d' % i, pub)
            module += full
            if pub:
                ref += head
                npub += 1
        r = replayrun.run('delta', module.encode(), timeout=20)
        if r.get('status') in ('panic', 'crash', 'timeout'):
            return {'mode': 'delta', 'input_utf8_lossy': module, 'input_hex': module.encode().hex(), 'observed': r, 'expected': 'no panic'}
        if r.get('status') != 'ok' or r['result'].get('parse_errors') != '0' or r['result'].get('lex_errors') != '0':
            continue
        if npub == 0:
            exp_nodes = 5
        else:
            rr = replayrun.run('delta', ref.encode(), timeout=20)
            if rr.get('status') != 'ok' or rr['result'].get('parse_errors') != '0':
                continue
            exp_nodes = int(rr['result']['nodes'])
        res = r['result']
        if int(res['header_decls']) != npub or int(res['header_nodes']) != exp_nodes or int(res.get('header_malformed', 0)) != 0 or int(res.get('malformed', 0)) != 0:
            return {'mode': 'delta', 'input_utf8_lossy': module, 'input_hex': module.encode().hex(), 'observed': res,
                    'expected': 'header_decls=%d header_nodes=%d (= parse of the public declarations alone, bodies removed)' % (npub, exp_nodes),
                    'expect_result': {'header_decls': npub, 'header_nodes': exp_nodes, 'header_malformed': 0, 'malformed': 0}, 'modules_tried': tried}
    return None
