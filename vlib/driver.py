"""Property-level decisions: units -> obligations -> baseline / known findings -> exit code, evidence, replay."""
import json
import os
import re
import sys
import time
import hashlib
import subprocess
import concurrent.futures as cf

from . import engine
from .engine import VERIF, REPO, load_json

from units.registry import PROPS, UNIT_KIND, ALSO_RELEVANT  # noqa: E402

BASELINE = os.path.join(VERIF, 'baseline', 'obligations.json')
KNOWN = os.path.join(VERIF, 'known_findings.json')


def list_props():
    for p, d in sorted(PROPS.items()):
        print(p, ' '.join(d['units']))


def unit_threads(n_units):
    cores = os.cpu_count() or 4
    return max(2, min(8, cores // max(1, n_units)))


def run_units(units, tier, seed):
    res = {}
    th = unit_threads(len(units))
    with cf.ThreadPoolExecutor(max_workers=min(len(units), 6) or 1) as ex:
        futs = {}
        for u in units:
            if UNIT_KIND.get(u, 'verus') == 'kani':
                from . import kani
                futs[ex.submit(kani.verify_unit, u, tier, seed)] = u
            elif UNIT_KIND.get(u) == 'code':
                from . import codecheck
                futs[ex.submit(codecheck.verify_unit, u, tier, seed)] = u
            else:
                futs[ex.submit(engine.verify_unit, u, tier, seed, th)] = u
        for f in cf.as_completed(futs):
            res[futs[f]] = f.result()
    return res


def relevant(pid, failure):
    lab = failure.get('label') or ''
    m = re.match(r'^(C\d+)\.', lab)
    if m:
        return m.group(1) == pid or any(lab.startswith(x) for x in ALSO_RELEVANT.get(pid, []))
    return True


def known_findings():
    d = load_json(KNOWN, {'findings': [], 'fixed': []})
    return d


def match_known(pid, unit, f, kf):
    for k in kf.get('findings', []):
        if k['property'] != pid and pid not in k.get('also', []):
            continue
        if k.get('unit') and k['unit'] != unit:
            continue
        if k['obligation'] != f['obligation'] and not (k['obligation'].endswith('*') and f['obligation'].startswith(k['obligation'][:-1])):
            continue
        if k.get('fn') and k['fn'] != f['fn']:
            continue
        return k
    return None


_kf_cache = {}


def known_still_fails(k):
    """a recorded finding suppresses its obligation only while its stored witness still fails on the real code"""
    rp = k.get('replay')
    if not rp:
        return True
    key = json.dumps(rp, sort_keys=True)
    if key not in _kf_cache:
        try:
            from . import replayrun
            data = rp.get('input')
            if data is None and rp.get('input_gen'):
                g = rp['input_gen']
                data = g['prefix'] + g['open'] * g['n'] + g.get('mid', '') + g.get('close', '') * g['n'] + g['suffix']
            r = replayrun.run(rp['mode'], data, timeout=60)
            fw = rp.get('fails_when', {})
            ok = all(r.get(a) == b for a, b in fw.items() if a != 'result')
            for a, b in fw.get('result', {}).items():
                ok = ok and str((r.get('result') or {}).get(a)) == str(b)
            _kf_cache[key] = ok
        except Exception:
            _kf_cache[key] = True
    return _kf_cache[key]


def write_replay(pid, unit, f, r, witness=None):
    os.makedirs(os.path.join(VERIF, 'replays'), exist_ok=True)
    h = hashlib.sha1((unit + f['obligation'] + f['text']).encode()).hexdigest()[:10]
    safe = re.sub(r'[^A-Za-z0-9_.-]+', '_', f['obligation'])[:80]
    path = os.path.join(VERIF, 'replays', '%s-%s-%s.json' % (pid, safe, h))
    doc = {
        'property': pid, 'unit': unit, 'obligation': f['obligation'], 'function': f['fn'], 'repo_location': f['where'],
        'verifier': 'verus', 'verifier_message': f['message'], 'generated_file': r.gen_path, 'generated_line': f['line'],
        'failing_text': f['text'], 'spans': f.get('spans'), 'verifier_output': f.get('rendered'),
        'checker_cmd': r.cmd,
        'anchors_relaxed': getattr(r, 'relaxed', []),
        'witness': witness,
        'failing_input_found': witness is not None,
        'note': None if witness is not None else 'no-failing-input-found: Verus gives no counterexample; the failed obligation and the verifier output are recorded instead',
        'replay_cmd': './check %s --replay %s' % (pid, os.path.relpath(path, VERIF)),
    }
    json.dump(doc, open(path, 'w'), indent=1)
    return path


def calls_uncontracted_helper(r, f, base_unit=None):
    """name of a function that the failing function now calls and that is new to the unit (sliced automatically because
    the changed code refers to it, hence without a contract): the failed proof is then no evidence of a violation"""
    names = list(getattr(r, 'autosliced_fns', []))
    bfns = set((base_unit or {}).get('functions', []))
    if bfns:
        # functions of the unit's source files that did not exist on the pinned tree (picked up by a name pattern of the unit)
        for x in r.fns:
            if x['key'] not in bfns and not x.get('contract'):
                names.append(x['key'].split(':: fn ')[-1].split('fn ')[-1].split(' ')[0])
    if not names or not getattr(r, 'gen_path', None):
        return None
    try:
        text = open(r.gen_path).read()
    except OSError:
        return None
    for fn in [x for x in (f['fn'], f.get('body_fn')) if x]:
        i = text.find('//@fn %s |' % fn)
        if i < 0:
            continue
        j = text.find('//@endfn', i)
        body = text[i:j if j > 0 else len(text)]
        for n in names:
            if re.search(r'\b%s\s*\(' % re.escape(n), body):
                return n
    return None


def lost_proof_support(r, f, base_unit=None):
    """relaxed-anchor notes of the failing function that WEAKEN its proof (skipped/dropped/moved ghost text); renames do not.
    A closure expression that the baseline text of the function did not have counts too: it has no contract, so Verus
    knows nothing about its result."""
    out = []
    fns = [x for x in (f['fn'], f.get('body_fn')) if x]
    # a change that only permutes the lines of the function (reordered match arms, swapped independent statements): proofs are
    # sensitive to such order (string-literal case splits, Verus' encoding of guarded match arms) although the meaning may be
    # the same; whether the new order is wrong is for a failing input to show
    for fn in fns:
        cur = getattr(r, 'fn_lines', {}).get(fn)
        bh = (base_unit or {}).get('fn_lines', {}).get(fn)
        bs = (base_unit or {}).get('fn_seq', {}).get(fn)
        if cur is not None and bh is not None and bs is not None:
            ren = getattr(r, 'fn_renames', {}).get(fn, {})
            if ren:
                inv = {v: k for k, v in ren.items()}
                cur = [' '.join(inv.get(t, t) for t in l.split(' ')) for l in cur]
            ch = hashlib.sha1('\n'.join(sorted(cur)).encode()).hexdigest()[:16]
            cs = hashlib.sha1('\n'.join(cur).encode()).hexdigest()[:16]
            if ch == bh and cs != bs:
                out.append('the text of the function differs from the pinned tree only in the ORDER of its lines')
    for fn in fns:
        nb = (base_unit or {}).get('fn_closures', {}).get(fn)
        nn = getattr(r, 'fn_closures', {}).get(fn)
        if nb is not None and nn is not None and nn > nb:
            out.append('the function now contains %d closure expression(s), %d on the pinned tree: the new one has no contract' % (nn, nb))
    for x in getattr(r, 'relaxed', []):
        for fn in fns:
            if x.startswith(fn + ':') and any(k in x for k in ('skipped', 'dropped', 'moved to loop', 'header is', 'not found', 'approximately')):
                out.append(x[len(fn) + 1:].strip())
    return out


def run_property(pid, tier, seed):
    t0 = time.time()
    if pid not in PROPS:
        print('UNDECIDED property=%s reason=not-claimed (see MANIFEST.not_applicable)' % pid)
        return 2
    units = PROPS[pid]['units']
    base = load_json(BASELINE, {})
    kf = known_findings()
    from . import bounded as _bounded
    with cf.ThreadPoolExecutor(max_workers=1) as _bex:
        _bf = _bex.submit(_bounded.run, pid, tier, seed)
        results = run_units(units, tier, seed)
        bounded_res = _bf.result()
    if tier == 'thorough':
        from . import thorough
        extra = thorough.run(pid, units, results, seed)
    else:
        extra = {}
    violations, known, undecided = [], [], []
    for u in units:
        r = results[u]
        b = base.get(u, {})
        bfns = set(b.get('functions', []))
        if r.status == 'undecided':
            undecided.append((u, r.reason))
        for f in r.failures:
            if not relevant(pid, f):
                continue
            k = match_known(pid, u, f, kf)
            if k is not None and known_still_fails(k):
                known.append((u, f, k))
                continue
            if f['fn'] in bfns or not b:
                violations.append((u, f))
            else:
                undecided.append((u, 'failure in function not in baseline: %s %s' % (f['fn'], f['obligation'])))
        # count guard: the unit must not silently lose functions / clauses
        if r.status != 'undecided' and b:
            have = set(x['key'] for x in r.fns) | set(x for x in getattr(r, 'ghost_fns', []))
            lost = [x for x in b.get('functions', []) if x not in have and not x.startswith('spec ')]
            if lost:
                undecided.append((u, 'functions lost from unit: ' + ', '.join(lost[:4])))
            lostl = [x for x in b.get('labels', []) if x not in r.labels]
            if lostl:
                undecided.append((u, 'contract clauses lost: ' + ', '.join(lostl[:4])))
    for (u, f, k) in known:
        print('KNOWN-FINDING: property=%s %s [%s] %s' % (pid, k['what'], f['obligation'], k.get('witness', '')))
    code = 0
    vlines = []
    # bounded stand-ins: a mismatch on the real code is a violation with its failing input (unless it is a recorded finding)
    bounded_viol = []
    for b in bounded_res:
        if b.get('failing_input') is None:
            continue
        f = {'obligation': b['obligation'], 'fn': '(bounded stand-in %s)' % b['suite'], 'where': 'see witness', 'line': 0, 'label': b['obligation'],
             'message': 'bounded check on the real code found an input whose verdict contradicts the property: ' + str(b['failing_input'].get('expected'))[:400],
             'text': b['suite']}
        k = match_known(pid, 'bounded', f, kf)
        if k is not None and known_still_fails(k):
            print('KNOWN-FINDING: property=%s %s [%s]' % (pid, k['what'], f['obligation']))
            b['known_finding'] = k['what']
            continue
        bounded_viol.append((b, f))
    for (b, f) in bounded_viol:
        class _R:
            gen_path = None
            cmd = 'replay_runner (bounded stand-in %s)' % b['suite']
            relaxed = []
        path = write_replay(pid, 'bounded', f, _R, b['failing_input'])
        print('obligation=%s (bounded stand-in, bound: %s): %s' % (f['obligation'], b['bound'][:160], f['message'][:400]))
        line = 'VIOLATION property=%s replay=%s' % (pid, path)
        print(line)
        vlines.append(line)
        code = 1
    if violations:
        code = 1
        from . import witness as wit
        seen = set()
        uniq = []
        for (u, f) in sorted(violations, key=lambda x: (0 if x[1].get('label') else 1)):
            if (u, f['obligation']) in seen:
                continue
            seen.add((u, f['obligation']))
            uniq.append((u, f))
        wcache = {}
        reported = []
        for (u, f) in uniq:
            w = None
            try:
                if u not in wcache:
                    wcache[u] = wit.search(pid, u, f, tier, seed)
                w = wcache[u]
            except Exception as e:  # witness search only decorates
                w = None
            lost = lost_proof_support(results[u], f, base.get(u, {}))
            if lost and w is None:
                # the changed text lost ghost support of this very function (a hint or loop/closure contract could not be placed),
                # or differs from the pinned text only in the order of its lines: a failed proof is then expected even if the
                # code is right; without a failing input it is undecided, not an alarm
                undecided.append((u, 'obligation %s of %s fails, but the failed proof is not conclusive (%s) and no failing input was found' % (f['obligation'], f['fn'], '; '.join(lost)[:300])))
                continue
            helper = calls_uncontracted_helper(results[u], f, base.get(u, {}))
            if helper and w is None:
                # modular proof impossible (callee without contract) and no failing input on the real code: undecided, not an alarm
                undecided.append((u, 'obligation %s of %s fails, but the function now calls `%s`, which is new and has no contract, and no failing input was found' % (f['obligation'], f['fn'], helper)))
                continue
            path = write_replay(pid, u, f, results[u], w)
            line = 'VIOLATION property=%s replay=%s' % (pid, path)
            print('obligation=%s function=%s (%s): %s' % (f['obligation'], f['fn'], f['where'], f['message']))
            if w is None:
                line += ' no-failing-input-found'
            print(line)
            vlines.append(line)
            reported.append((u, f))
        violations = reported
    if code == 1 and not vlines:
        code = 0
    if code == 0 and undecided:
        # The verifier could not decide (construct outside the dialect, lost anchor, lost ghost support).  A bounded search on
        # the REAL code may still exhibit a failing input: that is reported as a violation found by the bounded stand-in
        # (labelled as such; the replay file carries the input and the reason the verifier was undecided).
        from . import witness as wit
        done = set()
        for (u, why) in undecided:
            if u in done:
                continue
            done.add(u)
            try:
                w = wit.search(pid, u, {}, tier, seed)
            except Exception:
                w = None
            if w is not None:
                f = {'obligation': '%s.%s.bounded-search-on-real-code' % (pid, u), 'fn': '(unit %s)' % u, 'where': 'see witness', 'line': 0,
                     'message': 'verifier undecided (%s); a bounded search on the real code found a failing input' % why[:300],
                     'text': why[:200], 'label': None}
                path = write_replay(pid, u, f, results[u], w)
                print('obligation=%s function=%s: %s' % (f['obligation'], f['fn'], f['message'][:400]))
                print('VIOLATION property=%s replay=%s' % (pid, path))
                violations.append((u, f))
                code = 1
    if code == 0 and undecided:
        code = 2
        for (u, why) in undecided:
            print('UNDECIDED property=%s unit=%s reason=%s' % (pid, u, why[:1200]))
    extra = dict(extra or {})
    extra['bounded_standins'] = bounded_res
    write_evidence(pid, tier, seed, units, results, known, violations + [('bounded', f) for (_b, f) in bounded_viol], undecided, time.time() - t0, extra)
    if code == 0:
        tot_v = sum(results[u].verified for u in units)
        print('OK property=%s units=%s verified=%d wall=%.1fs' % (pid, ','.join(units), tot_v, time.time() - t0))
    return code


def evidence_dir():
    # runs against a scratch copy (VERIF_REPO=...) must not overwrite the evidence of /repo itself
    if os.path.realpath(REPO) != '/repo':
        return os.path.join(engine.WORK, 'evidence_scratch')
    return os.path.join(VERIF, 'evidence')


def write_evidence(pid, tier, seed, units, results, known, violations, undecided, wall, extra):
    os.makedirs(evidence_dir(), exist_ok=True)
    obligations = 0
    discharged = 0
    trusted = []
    samples = []
    per_unit = {}
    fns_contract = 0
    fns_total = 0
    clauses = 0
    bounded = []
    for u in units:
        r = results[u]
        kf_fns = set(f['fn'] for (uu, f, k) in known if uu == u)
        n_obl = r.verified + r.errors - len(kf_fns)  # functions whose only failures are listed known findings are reported separately
        obligations += n_obl
        discharged += r.verified
        for a in r.assumptions:
            trusted.append('%s: %s' % (u, a))
        fns_total += len(r.fns)
        fns_contract += sum(1 for x in r.fns if x['contract'])
        clauses += len(r.labels)
        slow = sorted(r.breakdown, key=lambda x: -x['ms'])[:5]
        per_unit[u] = {
            'status': r.status, 'reason': r.reason[:500], 'backend': getattr(r, 'backend', 'verus 0.2026.09.13 / z3'),
            'verus_verified': r.verified, 'verus_errors': r.errors,
            'wall_s': round(r.wall, 2), 'smt_ms': r.smt_ms, 'checker_cmd': r.cmd,
            'repo_functions_in_unit': len(r.fns), 'repo_functions_with_explicit_contract': sum(1 for x in r.fns if x['contract']),
            'named_clauses': len(r.labels), 'rules_applied': r.rules, 'dropped_by_extraction': r.dropped,
            'opaque_types': r.opaque, 'items_sliced': r.items, 'sentinels_expected_failed': list(r.sentinels),
            'slowest_queries': slow, 'notes': r.notes, 'anchors_relaxed': getattr(r, 'relaxed', []),
            'functions': [{'fn': x['key'], 'at': '%s:%d-%d' % (x['file'], x['lines'][0], x['lines'][1]), 'contract': x['contract']} for x in r.fns][:400],
            'bounded': getattr(r, 'bounded', []),
        }
        bounded += getattr(r, 'bounded', [])
        for lab in r.labels[:6]:
            if lab.startswith(pid + '.') and len(samples) < 12:
                samples.append({'obligation': lab, 'unit': u, 'status': 'failed' if any(f['label'] == lab for f in r.failures) else 'discharged'})
    ev = {
        'property_id': pid,
        'tier': tier if tier in ('quick', 'thorough') else 'quick',
        'seed': seed,
        'level': 'proof',
        'coverage': {
            'obligations': obligations,
            'discharged': discharged,
            'checker_cmd': ' && '.join(results[u].cmd for u in units if results[u].cmd)[:2000],
            'trusted_base': sorted(set(trusted)) + PROPS[pid].get('trusted', []),
            'samples': samples or [{'note': 'no labelled clause for this property in these units'}],
            'explanation': 'obligations = function/lemma/loop verification conditions reported by the verifier (Verus: verified+errors; Kani: checks); '
                           'each covers all named contract clauses and all implicit safety obligations (overflow, bounds, panics, termination) of that function',
            'repo_functions_in_units': fns_total,
            'repo_functions_with_explicit_contract': fns_contract,
            'named_contract_clauses': clauses,
            'units': per_unit,
            'bounded_standins': bounded + [{k: v for k, v in b.items() if k != 'failing_input' or v is not None} for b in (extra or {}).get('bounded_standins', [])],
            'known_findings_printed': [k['what'] for (_, _, k) in known],
            'known_finding_obligations_not_counted': sorted(set(f['obligation'] for (_, f, _) in known)),
            'undecided': [{'unit': u, 'reason': w[:300]} for (u, w) in undecided],
            'thorough': extra,
        },
        'assumptions': PROPS[pid].get('assumptions', []) + sorted(set(trusted)),
        'wall_s': round(wall, 2),
        'violations': len(violations),
    }
    json.dump(ev, open(os.path.join(evidence_dir(), pid + '.json'), 'w'), indent=1)


def rebaseline(pid=None):
    base = load_json(BASELINE, {})
    units = sorted(set(u for p, d in PROPS.items() for u in d['units'] if pid in (None, p)))
    res = run_units(units, 'quick', 0)
    rc = 0
    for u in units:
        r = res[u]
        print(u, r.status, 'verified', r.verified, 'errors', r.errors, r.reason[:300])
        failing = set(f['fn'] for f in r.failures)
        if r.status == 'undecided':
            rc = 2
            continue
        base[u] = {
            'functions': sorted(x['key'] for x in r.fns),
            'failing_on_pinned_tree': sorted(failing),
            'labels': r.labels,
            'verified': r.verified,
            'sentinels': list(r.sentinels),
            'fn_idents': getattr(r, 'fn_idents', {}),
            'fn_closures': getattr(r, 'fn_closures', {}),
            'fn_lines': {k: hashlib.sha1('\n'.join(sorted(v)).encode()).hexdigest()[:16] for k, v in getattr(r, 'fn_lines', {}).items()},
            'fn_seq': {k: hashlib.sha1('\n'.join(v).encode()).hexdigest()[:16] for k, v in getattr(r, 'fn_lines', {}).items()},
        }
    os.makedirs(os.path.dirname(BASELINE), exist_ok=True)
    json.dump(base, open(BASELINE, 'w'), indent=1, sort_keys=True)
    return rc


def run_unit_verbose(name):
    if UNIT_KIND.get(name) == 'kani':
        from . import kani
        r = kani.verify_unit(name, 'quick', 0)
    elif UNIT_KIND.get(name) == 'code':
        from . import codecheck
        r = codecheck.verify_unit(name, 'quick', 0)
    else:
        r = engine.verify_unit(name, 'quick', 0, 8)
    print(r.status, r.reason[:3000], 'verified', r.verified, 'errors', r.errors, 'wall %.1f' % r.wall, 'sentinels', r.sentinels)
    for f in r.failures:
        print('-', f['fn'].split(':: ')[-1], '|', f['obligation'], '|', f['message'], '| L%d' % f['line'], f['text'][:160].replace('\n', ' '))
    for t in r.tool_errors[:8]:
        print('TOOL', t['message'][:400], t['line'], (t['text'] or '')[:200])
    return 0 if r.status == 'ok' else 1


def replay(pid, path):
    doc = load_json(path if os.path.isabs(path) else os.path.join(VERIF, path))
    if not doc:
        print('cannot read replay file', path)
        return 2
    print('replaying obligation %s of unit %s against /repo working tree' % (doc['obligation'], doc['unit']))
    if doc.get('witness'):
        from . import witness as wit
        ok = wit.replay(doc['witness'])
        print('witness %s: %s' % (json.dumps(doc['witness'])[:300], 'still fails on the real code' if ok else 'no longer fails'))
    if doc['obligation'].endswith('.bounded-search-on-real-code') or doc.get('unit') == 'bounded':
        if doc.get('witness') and ok:
            print('VIOLATION property=%s replay=%s' % (pid, path))
            return 1
        print('the stored input no longer fails on the current tree')
        return 0
    res = run_units([doc['unit']], 'quick', 0)
    r = res[doc['unit']]
    hit = [f for f in r.failures if f['obligation'] == doc['obligation']]
    if hit:
        print('obligation still fails: %s' % hit[0]['message'])
        print(hit[0].get('rendered', ''))
        print('VIOLATION property=%s replay=%s%s' % (pid, path, '' if doc.get('witness') else ' no-failing-input-found'))
        return 1
    print('obligation is discharged on the current tree (unit status: %s)' % r.status)
    return 0
