"""Small-scope differential search for the alpha statement-tree units (C04 label scoping, C06 placement rules):
generated function bodies are run through the REAL stages (replay runner) and compared with a direct reading of the
property statement.  Only used to attach a failing input to a violation that the verifier has already reported."""
import time
from . import replayrun

NAMES = ['a', 'b']


# ------------------------------------------------------------------ C04
def gen_label_body(rng, depth, budget):
    out = []
    n = rng.randint(0 if depth > 1 else 1, max(1, min(4, budget[0])))   # nested blocks may be empty
    for _ in range(n):
        if budget[0] <= 0:
            break
        budget[0] -= 1
        k = rng.random()
        if k < 0.3:
            out.append(('label', rng.choice(NAMES)))
        elif k < 0.55:
            out.append(('goto', rng.choice(NAMES)))
        elif k < 0.66:
            out.append(('ifgoto', rng.choice(NAMES)))
        elif k < 0.7:
            out.append(('ifelsegoto', rng.choice(NAMES), rng.choice(NAMES)))
        elif k < 0.85 and depth < 3:
            out.append(('block', gen_label_body(rng, depth + 1, budget)))
        elif depth < 3 and rng.random() < 0.4:
            # both branches braced: the errors of the two branches (and of whatever follows) must ALL surface, whichever branch has more
            out.append(('ifelseblock', gen_label_body(rng, depth + 1, budget), gen_label_body(rng, depth + 1, budget)))
        elif depth < 3:
            out.append(('ifblock', gen_label_body(rng, depth + 1, budget)))
        else:
            out.append(('assign',))
    return out


def label_src(stmts, ind='\t'):
    s = ''
    for st in stmts:
        if st[0] == 'label':
            s += '%s%s:\n' % (ind, st[1])
        elif st[0] == 'goto':
            s += '%sgoto %s;\n' % (ind, st[1])
        elif st[0] == 'ifgoto':
            s += '%sif v == 1 goto %s;\n' % (ind, st[1])
        elif st[0] == 'ifelsegoto':
            s += '%sif v == 1 goto %s;\n%selse goto %s;\n' % (ind, st[1], ind, st[2])
        elif st[0] == 'assign':
            s += '%sv = 1;\n' % ind
        elif st[0] == 'block':
            s += '%s{\n%s%s}\n' % (ind, label_src(st[1], ind + '\t'), ind)
        elif st[0] == 'ifblock':
            s += '%sif v == 1\n%s{\n%s%s}\n' % (ind, ind, label_src(st[1], ind + '\t'), ind)
        elif st[0] == 'ifelseblock':
            s += '%sif v == 1\n%s{\n%s%s}\n%selse\n%s{\n%s%s}\n' % (ind, ind, label_src(st[1], ind + '\t'), ind, ind, ind, label_src(st[2], ind + '\t'), ind)
    return s


def label_oracle(stmts, outer):
    """(number of gotos that must be E400, number of labels that must be E420)"""
    e400 = e420 = 0
    for i, st in enumerate(stmts):
        later = set(x[1] for x in stmts[i + 1:] if x[0] == 'label')
        if st[0] in ('goto', 'ifgoto', 'ifelsegoto'):
            for target in st[1:]:
                if target not in later and target not in outer:
                    e400 += 1
        elif st[0] == 'label':
            if st[1] in later or st[1] in outer:
                e420 += 1
        elif st[0] in ('block', 'ifblock'):
            a, b = label_oracle(st[1], later | outer)
            e400 += a
            e420 += b
        elif st[0] == 'ifelseblock':
            for branch in st[1:]:
                a, b = label_oracle(branch, later | outer)
                e400 += a
                e420 += b
    return e400, e420


def search_labels(deadline, rng):
    tried = 0
    while time.time() < deadline and tried < 4000:
        tried += 1
        f1 = gen_label_body(rng, 1, [6])
        f2 = gen_label_body(rng, 1, [3]) if rng.random() < 0.4 else None
        src = 'fn main()\n{\n\tvar v: i32 = 0;\n' + label_src(f1) + '}\n'
        e400, e420 = label_oracle(f1, set())
        if f2 is not None:
            src += '\nfn other()\n{\n\tvar v: i32 = 0;\n' + label_src(f2) + '}\n'
            a, b = label_oracle(f2, set())
            e400 += a
            e420 += b
        r = replayrun.run('labels', src, timeout=20)
        if r.get('status') != 'ok':
            if r.get('status') in ('panic', 'crash'):
                return {'mode': 'labels', 'input_utf8_lossy': src, 'input_hex': src.encode().hex(), 'observed': r, 'expected': 'no panic'}
            continue
        res = r['result']
        if res.get('parse_errors') != '0':
            continue
        if int(res['E400']) != e400 or int(res['E420']) != e420:
            return {'mode': 'labels', 'input_utf8_lossy': src, 'input_hex': src.encode().hex(), 'observed': res,
                    'expected': 'E400=%d E420=%d (goto must name a later label of the same or an enclosing block of the same function; '
                                'a label must not share its name with a later label of the same block or of an enclosing block)' % (e400, e420),
                    'expect_result': {'E400': e400, 'E420': e420}, 'programs_tried': tried}
        # ... and the verdict must survive the later stages (analyzers, resolver): rejected with E400 / E420 exactly when the
        # scoper found such a label, and no stage may fall over a statement that the scoper has poisoned
        r2 = replayrun.run('alpha', src, timeout=20)
        if r2.get('status') in ('timeout', 'build-failed', 'unknown'):
            continue
        want = (['400'] if e400 else []) + (['420'] if e420 else [])
        if r2.get('status') != 'ok':
            return {'mode': 'alpha', 'input_utf8_lossy': src, 'input_hex': src.encode().hex(), 'observed': r2,
                    'expected': 'no failure of a later stage; errors %s among the reported ones' % want, 'expect_codes_present': want, 'expect_codes_absent': [c for c in ('400', '420') if c not in want]}
        codes = [c for c in r2['result'].get('errors', '[]').strip('[]').split(',') if c]
        if not want and codes:
            # every jump is forward/outward to a uniquely named label and nothing else is wrong with the body: it must be accepted
            return {'mode': 'alpha', 'input_utf8_lossy': src, 'input_hex': src.encode().hex(), 'observed': r2,
                    'expected': 'accepted: every goto names a later label of its block or of an enclosing block, every label is unique there; got errors %s' % codes,
                    'expect_codes_present': [], 'expect_codes_absent': codes}
        if any(c not in codes for c in want) or any(c in codes for c in ('400', '420') if c not in want):
            return {'mode': 'alpha', 'input_utf8_lossy': src, 'input_hex': src.encode().hex(), 'observed': r2,
                    'expected': 'through the whole pipeline: errors %s reported, %s not reported' % (want, [c for c in ('400', '420') if c not in want]),
                    'expect_codes_present': want, 'expect_codes_absent': [c for c in ('400', '420') if c not in want]}
    return None


# ------------------------------------------------------------------ C06
def gen_stmt(rng, depth):
    k = rng.random()
    if k < 0.22:
        # an assignment that is fine, or one that another pass of the analyzer rejects (E530): the placement rules hold either way
        return ('assign', rng.choice(['v', 'v', 'p', 'K']))
    if k < 0.40:
        return ('loop',)
    if k < 0.55:
        return ('goto',)
    if k < 0.75 and depth < 4:
        return ('block', [gen_stmt(rng, depth + 1) for _ in range(rng.randint(0, 3))])
    if depth < 4:
        then = gen_stmt(rng, depth + 1)
        els = gen_stmt(rng, depth + 1) if rng.random() < 0.5 else None
        if then[0] == 'if':
            els = None   # dangling else: an `else` after a naked inner `if` would bind to the inner one
        return ('if', then, els)
    return ('assign',)


def stmt_src(st, ind):
    if st[0] == 'assign':
        return '%s%s = 2;\n' % (ind, st[1] if len(st) > 1 else 'v')
    if st[0] == 'loop':
        return '%sloop;\n' % ind
    if st[0] == 'goto':
        return '%sgoto end;\n' % ind
    if st[0] == 'block':
        return '%s{\n%s%s}\n' % (ind, ''.join(stmt_src(c, ind + '\t') for c in st[1]), ind)
    if st[0] == 'if':
        s = '%sif v == 1\n%s' % (ind, stmt_src(st[1], ind + '\t'))
        if st[2] is not None:
            s += '%selse\n%s' % (ind, stmt_src(st[2], ind + '\t'))
        return s
    raise ValueError(st)


def syn_oracle(st, nt, ne, ib, acc):
    if (nt or ne) and not (st[0] in ('goto', 'block') or (st[0] == 'if' and ne)):
        acc[0] += 1   # E840
        return
    if st[0] == 'loop':
        if not ib:
            acc[2] += 1   # E801
    elif st[0] == 'if':
        syn_oracle(st[1], True, False, False, acc)
        if st[2] is not None:
            syn_oracle(st[2], False, True, False, acc)
    elif st[0] == 'block':
        n = len(st[1])
        for i, c in enumerate(st[1]):
            if i < n - 1 and c[0] == 'loop':
                acc[1] += 1   # E800
            else:
                syn_oracle(c, False, False, True, acc)


def search_syntax(deadline, rng):
    tried = 0
    while time.time() < deadline and tried < 4000:
        tried += 1
        body = [gen_stmt(rng, 1) for _ in range(rng.randint(1, 4))]
        src = 'const K: i32 = 1;\n\nfn main(p: i32)\n{\n\tvar v = 0;\n' + ''.join(stmt_src(s, '\t') for s in body) + '\tend:\n}\n'
        acc = [0, 0, 0]
        for s in body:
            syn_oracle(s, False, False, False, acc)
        r = replayrun.run('syntax', src, timeout=20)
        if r.get('status') != 'ok':
            if r.get('status') in ('panic', 'crash'):
                return {'mode': 'syntax', 'input_utf8_lossy': src, 'input_hex': src.encode().hex(), 'observed': r, 'expected': 'no panic'}
            continue
        res = r['result']
        if res.get('parse_errors') != '0':
            continue
        if [int(res['E840']), int(res['E800']), int(res['E801'])] != acc:
            return {'mode': 'syntax', 'input_utf8_lossy': src, 'input_hex': src.encode().hex(), 'observed': res,
                    'expected': 'E840=%d E800=%d E801=%d' % tuple(acc), 'expect_result': {'E840': acc[0], 'E800': acc[1], 'E801': acc[2]},
                    'programs_tried': tried}
        # ... and every one of these errors must be REPORTED by the whole pipeline (typer, analyzers, linter, resolver): the
        # resolver collects the errors of all parts of a statement, so the counts by construction are the counts reported
        r2 = replayrun.run('alpha', src, timeout=20)
        if r2.get('status') in ('timeout', 'build-failed', 'unknown'):
            continue
        want = {'840': acc[0], '800': acc[1], '801': acc[2]}
        if r2.get('status') != 'ok':
            return {'mode': 'alpha', 'input_utf8_lossy': src, 'input_hex': src.encode().hex(), 'observed': r2,
                    'expected': 'no failure of a later stage; reported error counts %s' % want, 'expect_code_counts': want}
        codes = [c for c in r2['result'].get('errors', '[]').strip('[]').split(',') if c]
        if any(codes.count(c) != n for c, n in want.items()):
            return {'mode': 'alpha', 'input_utf8_lossy': src, 'input_hex': src.encode().hex(), 'observed': r2,
                    'expected': 'through the whole pipeline: reported error counts %s' % want, 'expect_code_counts': want}
    return None


# ------------------------------------------------------------------ C06: lint L1800
def gen_valid(rng, depth):
    """a statement tree that violates no placement rule (so the whole pipeline up to the linter runs)"""
    k = rng.random()
    if k < 0.3 or depth >= 4:
        return ('assign',)
    if k < 0.4:
        return ('goto',)
    if k < 0.65:
        return ('block', gen_valid_block(rng, depth + 1))
    then = ('goto',) if rng.random() < 0.25 else ('block', gen_valid_block(rng, depth + 1))
    r = rng.random()
    if r < 0.4:
        els = None
    elif r < 0.55:
        els = ('goto',)
    elif r < 0.85:
        els = ('block', gen_valid_block(rng, depth + 1))
    else:
        els = gen_valid(rng, depth + 1)
        if els[0] != 'if':
            els = ('block', [els])
    return ('if', then, els)


def gen_valid_block(rng, depth):
    body = [gen_valid(rng, depth) for _ in range(rng.randint(0, 3))]
    if rng.random() < 0.45:
        body.append(('loop',))     # a loop is legal only as the final statement of a braced block
    return body


def l1800_oracle(st, is_branch):
    """number of braced BRANCH blocks whose first statement is `loop` (the only thing that raises L1800)"""
    n = 0
    if st[0] == 'block':
        if is_branch and st[1] and st[1][0][0] == 'loop':
            n += 1
        for c in st[1]:
            n += l1800_oracle(c, False)
    elif st[0] == 'if':
        n += l1800_oracle(st[1], True)
        if st[2] is not None:
            n += l1800_oracle(st[2], st[2][0] == 'block')
    return n


def search_l1800(deadline, rng):
    tried = 0
    while time.time() < deadline and tried < 3000:
        tried += 1
        body = [gen_valid(rng, 1) for _ in range(rng.randint(1, 4))]
        src = 'fn main()\n{\n\tvar v: i32 = 0;\n' + ''.join(stmt_src(s, '\t') for s in body) + '\tend:\n}\n'
        exp = sum(l1800_oracle(s, False) for s in body)
        r = replayrun.run('alpha', src, timeout=20)
        if r.get('status') != 'ok':
            if r.get('status') in ('panic', 'crash'):
                return {'mode': 'alpha', 'input_utf8_lossy': src, 'input_hex': src.encode().hex(), 'observed': r, 'expected': 'no panic'}
            continue
        res = r['result']
        codes = [c for c in res.get('errors', '[]').strip('[]').split(',') if c]
        lints = [c for c in res.get('lints', '[]').strip('[]').split(',') if c]
        got = sum(1 for c in lints if c == '1800')
        if codes or got != exp:
            return {'mode': 'alpha', 'input_utf8_lossy': src, 'input_hex': src.encode().hex(), 'observed': res,
                    'expected': 'accepted (every loop is final in its block, every branch is a goto, a block or an else-if) with exactly %d lint(s) L1800: '
                                'one per braced branch whose first statement is loop, and nothing else raises it' % exp,
                    'expect_l1800': exp, 'programs_tried': tried}
        # ... and what is handed to the generator keeps the placement: in the RESOLVED tree every loop is still the last statement of a block
        if res.get('misplaced_loops', '0') != '0':
            return {'mode': 'alpha', 'input_utf8_lossy': src, 'input_hex': src.encode().hex(), 'observed': res,
                    'expected': 'the resolved tree of this accepted program has every `loop` as the last statement of a block (the generator relies on it); %s loop(s) are not' % res.get('misplaced_loops'),
                    'expect_result': {'misplaced_loops': '0'}, 'programs_tried': tried}
    return None
