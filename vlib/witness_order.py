"""Bounded stand-in for the order/cycle half of C11 (scoper cycle detection and declaration sorting are not under contract):
random dependency graphs of constants and of structures, declared in random orders.  Expected verdict BY CONSTRUCTION from
the property statement: an acyclic graph is accepted in every order of its declarations, a graph with a cycle is rejected
in every order (with one of the cycle codes E413/E415/E416 among the errors).  Real pipeline through replay mode alpha."""
import itertools
import time
from . import replayrun


def gen_graph(rng, n, cyclic):
    """edges[i] = nodes that i depends on; nodes are all constants or all structures"""
    edges = {i: set() for i in range(n)}
    for i in range(1, n):
        for j in range(i):
            if rng.random() < 0.45:
                edges[i].add(j)
    if cyclic:
        # close one simple cycle of length k (1 = a declaration that depends on itself) over randomly chosen nodes
        k = n if rng.random() < 0.5 else rng.randint(1, n)    # long cycles are the ones an incomplete closure computation misses
        ring = rng.sample(range(n), k)
        for a, b in zip(ring, ring[1:] + ring[:1]):
            edges[a].add(b)
    return edges


def render(kind, edges, order, rng=None):
    parts = []
    for i in order:
        deps = sorted(edges[i])
        if kind == 'const':
            expr = ' + '.join(['%d' % (i + 1)] + ['C%d' % d for d in deps])
            parts.append('const C%d: i32 = %s;\n\n' % (i, expr))
        else:
            members = ''.join('\tm%d: S%d,\n' % (d, d) for d in deps) + '\tv: i32,\n'
            parts.append('struct S%d\n{\n%s}\n\n' % (i, members))
    # functions (one calls the other) stand anywhere among the declarations: their position must not matter either
    main = 'fn main() -> i32\n{\n\treturn: %s + helper()\n}\n\n' % ('C%d' % max(edges) if kind == 'const' else '0')
    helper = 'fn helper() -> i32\n{\n\treturn: 1\n}\n\n'
    if rng is None:
        parts += [main, helper]
    else:
        for f in (main, helper):
            parts.insert(rng.randint(0, len(parts)), f)
    return ''.join(parts)


def lengths_module(rng, cyclic):
    """declarations linked through named array lengths and size-of expressions (list of texts, to be permuted)"""
    if not cyclic:
        decls = ['const LEN: usize = %d;\n\n' % rng.randint(1, 9),
                 'struct S\n{\n\ta: [LEN]i32,\n\tv: i32,\n}\n\n',
                 'const BYTES: usize = |:[LEN]i32|;\n\n',
                 'const SIZE: usize = |:S|;\n\n',
                 'struct T\n{\n\ts: S,\n\tb: [LEN]u8,\n}\n\n']
        pick = set(rng.sample([1, 2, 3, 4], rng.randint(1, 4)))
        if 3 in pick or 4 in pick:
            pick.add(1)     # SIZE and T need S
        return [decls[0]] + [decls[i] for i in sorted(pick)]
    shape = rng.choice(['self', 'struct_const', 'three'])
    if shape == 'self':
        return ['const A: usize = |:[A]u8|;\n\n', 'const LEN: usize = 3;\n\n']
    if shape == 'struct_const':
        return ['const A: usize = |:S|;\n\n', 'struct S\n{\n\ta: [A]i32,\n}\n\n', 'const LEN: usize = 3;\n\n']
    return ['const A: usize = |:S|;\n\n', 'struct S\n{\n\tt: T,\n}\n\n', 'struct T\n{\n\ta: [A]i32,\n}\n\n']


POOL = [
    'const A: i32 = 1;\n\n', 'const B: i32 = A + 1;\n\n', 'const Pixel: i32 = 3;\n\n', 'const LEN: usize = 2;\n\n',
    'struct Pixel\n{\n\tx: i32,\n}\n\n', 'struct Sprite\n{\n\tp: Pixel,\n\tn: i32,\n}\n\n', 'struct Row\n{\n\tcells: [LEN]i32,\n}\n\n',
    'fn f() -> i32\n{\n\treturn: A + B\n}\n\n', 'fn g(s: Sprite) -> i32\n{\n\treturn: s.n\n}\n\n', 'fn h() -> i32\n{\n\treturn: Pixel\n}\n\n',
    'fn k() -> i32\n{\n\tvar p: Pixel = Pixel { x: 1 };\n\treturn: p.x + f()\n}\n\n', 'fn main() -> i32\n{\n\treturn: f()\n}\n\n',
    # duplicates (rejected, in every order)
    'const A: i32 = 5;\n\n', 'fn f() -> i32\n{\n\treturn: 2\n}\n\n', 'struct Pixel\n{\n\ty: i32,\n}\n\n',
    # 15..19: declarations without a body, and declarations whose parameters, members and locals share names with them
    'extern fn ext(x: i32, n: i32) -> i32;\n\n', 'extern fn ext2(p: &Pixel, x: u8);\n\n',
    'fn px(x: i32, n: i32) -> i32\n{\n\tvar p: i32 = x + n;\n\treturn: p\n}\n\n',
    'fn loc() -> i32\n{\n\tvar x: i32 = 1;\n\tvar n: i32 = 2;\n\treturn: x + n\n}\n\n',
    'fn undef() -> i32\n{\n\treturn: x\n}\n\n',
    # 20..23: a word, and structures that hold it by value and behind a pointer
    'word32 Rgba\n{\n\tr: u8,\n\tg: u8,\n\tb: u8,\n\ta: u8,\n}\n\n', 'struct Brush\n{\n\tcolor: &Rgba,\n\twidth: i32,\n}\n\n',
    'struct Pix\n{\n\tc: Rgba,\n\tn: i32,\n}\n\n', 'fn paint(b: &Brush) -> i32\n{\n\treturn: b.width\n}\n\n',
]


def invariance_search(deadline, rng, modules=40, orders=8):
    """metamorphic reading of the property: every permutation of the top-level declarations of a module is accepted or rejected
    alike (no expected verdict is assumed; constants, structures and functions that share names, miss their dependencies
    or are duplicated are all included)"""
    for _ in range(modules):
        # declarations that can interact share a theme (a name, a dependency); one or two themes per module
        themes = [[2, 4, 5, 8, 9, 10, 14], [0, 1, 7, 11, 12, 13], [3, 6, 0, 7], [4, 5, 8, 10, 7, 0, 1], [15, 16, 17, 18, 19, 4], [15, 17, 18, 19, 0], [20, 21, 22, 23, 11], [20, 21, 23]]
        pool = sorted(set(i for t in rng.sample(themes, rng.randint(1, 2)) for i in t))
        decls = [POOL[i] for i in rng.sample(pool, min(len(pool), rng.randint(2, 6)))]
        perms = list(itertools.permutations(decls))
        rng.shuffle(perms)
        seen = {}
        for order in perms[:orders]:
            if time.time() > deadline:
                return None
            src = ''.join(order)
            r = replayrun.run('alpha', src.encode(), timeout=20)
            if r.get('status') in ('timeout', 'build-failed', 'unknown'):
                continue
            verdict = 'accepted' if (r.get('status') == 'ok' and r['result'].get('errors') == '[]') else 'rejected'
            seen.setdefault(verdict, (src, r))
            if len(seen) > 1:
                (s1, r1), (s2, r2) = seen['accepted'], seen['rejected']
                return {'mode': 'alpha', 'input_utf8_lossy': s2, 'input_hex': s2.encode().hex(), 'observed': r2,
                        'expected': 'accepted, like this permutation of the same declarations: ' + s1.replace('\n', ' ')[:600],
                        'expect_same_verdict_as': {'input': s1, 'verdict': 'accepted'},
                        'how': 'replay_runner alpha <file> on two permutations of the same top-level declarations'}
    return None


CYCLE_CODES = ('413', '415', '416')


def verdict_ok(cyclic, r):
    if r.get('status') in ('timeout', 'build-failed', 'unknown'):
        return True    # inconclusive run (machine load, tool failure): never a mismatch
    if r.get('status') != 'ok':
        return False
    codes = [c for c in r['result'].get('errors', '[]').strip('[]').split(',') if c]
    if not cyclic:
        return codes == []
    return any(c in CYCLE_CODES for c in codes)


def search(deadline, rng, graphs=60, orders=6):
    if replayrun.build()[0] is None:
        return None
    for g in range(graphs):
        if g % 4 == 3:
            cyclic = rng.random() < 0.4
            decls = lengths_module(rng, cyclic)
            perms = list(itertools.permutations(decls))
            rng.shuffle(perms)
            for order in perms[:orders]:
                if time.time() > deadline:
                    return None
                src = ''.join(order) + 'fn main()\n{\n}\n'
                r = replayrun.run('alpha', src.encode(), timeout=20)
                if not verdict_ok(cyclic, r):
                    return {'mode': 'alpha', 'input_utf8_lossy': src, 'input_hex': src.encode().hex(), 'observed': r,
                            'expected': ('declarations linked through named lengths / size-of form a cycle: rejected with E413/E415/E416 in every order' if cyclic
                                         else 'declarations linked through named lengths / size-of without a cycle: accepted in every declaration order'),
                            'expect_cycle': cyclic,
                            'how': 'replay_runner alpha <file> (usize constants with a literal value are made available as array lengths, as the compiler does through its generator)'}
            continue
        kind = rng.choice(['const', 'struct'])
        n = rng.choice([1, 2, 3, 4, 4, 5, 5])
        cyclic = rng.random() < 0.5
        edges = gen_graph(rng, n, cyclic)
        perms = list(itertools.permutations(range(n)))
        rng.shuffle(perms)
        for order in perms[:orders]:
            if time.time() > deadline:
                return None
            src = render(kind, edges, order, rng)
            r = replayrun.run('alpha', src.encode(), timeout=20)
            if not verdict_ok(cyclic, r):
                return {'mode': 'alpha', 'input_utf8_lossy': src, 'input_hex': src.encode().hex(), 'observed': r,
                        'expected': ('the dependency graph has a cycle: rejected with E413/E415/E416 in every declaration order' if cyclic
                                     else 'the dependency graph is acyclic: accepted in every declaration order') + ' (order %s)' % (list(order),),
                        'expect_cycle': cyclic,
                        'how': 'replay_runner alpha <file>: error codes of the first-generation pipeline without the LLVM generator'}
    return None
