"""Witness search: DECORATES a violation with a failing input found by running the real code (replay runner).
It never decides anything: a violation is reported whether or not an input is found."""
import glob
import itertools
import os
import random
import time
import concurrent.futures as cf

from . import replayrun
from .engine import REPO

DELTA_UNITS = {'U-LEXD', 'U-PARSE', 'U-HDR', 'U-DIG'}
BUDGET_S = {'quick': 25, 'thorough': 240}

SEEDS_DELTA = [
    b'fn main() { a = b; }',
    b'struct S { a: i32 }',
    b'fn main() { var x = 340282366920938463463374607431768211456; }',
    b'fn main() { var x = 340282366920938463463374607431768211455u128; }',
    b'pub const M: u128 = 0xFFFFFFFFFFFFFFFFFFFFFFFFFFFFFFFF;',
    b'pub pub pub pub pub',
    b'f pub pub pub',
    b'extern extern pub pub extern',
    b'fn f() -> i32 { return: 1 }',
    b'fn f() { if a == 1 goto x; x: }',
    b'pub fn f(a: i32, b: []u8) -> &u8 { var x = [1, 2, 3]; x[0] = f(1, "a" "b"); }',
    b'pub extern fn sq(x: i32) -> i32 { return: x * x }\nfn g() {}\npub const C: i32 = 1;',
    b'fn a() {}\npub fn b() { var x = 1; }\nfn c() {}\npub struct P { x: i32, }\npub const K: i32 = 0b1;',
    b'pub fn a() { loop; }\npub fn b() { { x = 1; } }\npub fn c() {}',
    b'word64 W { a: u32, b: u32, }',
    b"fn f() { var c = '\\xff'; var s = \"\\u{1F600}\\n\"; }",
    b'fn f() { x = cast y as u8 as i32; z = |:[]u8| + |a|; }',
    b'0b' + b'1' * 129,
    b'0x' + b'f' * 33,
    b'\xff\xfe\x00',
    b'fn main() { var x = ' + b'(' * 40 + b'1' + b')' * 40 + b'; }',
]
TOKEN_ALPHABET = [b'pub', b'extern', b'fn', b'f', b'(', b')', b'{', b'}', b';', b':', b',', b'=', b'x', b'1', b'struct', b'const',
                  b'if', b'else', b'goto', b'loop', b'var', b'&', b'[', b']', b'"s"', b'->', b'i32', b'return', b'==', b'+', b'|', b'.', b'as', b'cast']


def _boundary_runs():
    """counting boundaries: long runs of one token (depth counters, u8/u16 counters, buffer limits), bare and inside a
    statement, and inputs at the token-buffer limit with and without an earlier lexing error"""
    for tok in TOKEN_ALPHABET:
        for n in (127, 128, 129, 255, 256, 257, 300, 1000):
            run = b' '.join([tok] * n) if tok.isalnum() else tok * n
            yield b'fn f() { x = ' + run + b' y; }'
            yield b'fn f() { ' + run + b' x = 1; }'
            yield run
    for n in (65535, 65536, 70000):
        yield b';' * n
        yield b'$\n' + b';' * n
        yield b'fn f() { x = 1; }\n$ \n' + b';' * n
        yield b'(' * n


def _corpus():
    out = []
    for f in sorted(glob.glob(os.path.join(REPO, 'tests', 'samples', '**', '*.pn'), recursive=True))[:400]:
        try:
            out.append(open(f, 'rb').read())
        except OSError:
            pass
    for f in sorted(glob.glob(os.path.join(REPO, 'examples', '**', '*.pn'), recursive=True))[:60] + \
            sorted(glob.glob(os.path.join(REPO, 'vendor', '**', '*.pn'), recursive=True))[:20] + \
            sorted(glob.glob(os.path.join(REPO, 'core', '**', '*.pn'), recursive=True))[:20]:
        try:
            out.append(open(f, 'rb').read())
        except OSError:
            pass
    return out


def _token_soup(max_len, rng, limit):
    n = 0
    for k in range(1, max_len + 1):
        if len(TOKEN_ALPHABET) ** k <= limit // 2:
            for combo in itertools.product(TOKEN_ALPHABET, repeat=k):
                yield b' '.join(combo)
                n += 1
        else:
            for _ in range(limit // max_len):
                yield b' '.join(rng.choice(TOKEN_ALPHABET) for _ in range(k))
                n += 1


EXPR_ALPHABET = [b'x', b'1', b'|', b'|:', b'(', b')', b'[', b']', b'&', b'+', b'==', b'.', b'as', b'cast', b'i32', b'"s"', b',', b'!', b'-', b';', b'{', b'}', b':']


def _statement_soup(tier, rng):
    """short token sequences where an expression, a statement or a constant value is expected (and at the end of the file):
    all of length <= 2 (thorough: <= 3), a random sample of length 3 (thorough: 4)"""
    contexts = [(b'fn f(x: []u8) { var n = ', b'; }'), (b'fn f(x: []u8) { ', b' }'), (b'const N: usize = ', b';'), (b'fn f(x: []u8) { var n = ', b''),
                (b'fn f(x: []u8) { if x == 1 ', b''), (b'fn f(x: []u8) { if ', b' }'), (b'fn f(x: []u8) { if x == 1 { } else ', b'')]
    full = 2 if tier == 'quick' else 3
    for k in range(1, full + 1):
        for combo in itertools.product(EXPR_ALPHABET, repeat=k):
            for pre, post in contexts:
                yield pre + b' '.join(combo) + post
    for _ in range(1500 if tier == 'quick' else 20000):
        pre, post = rng.choice(contexts)
        yield pre + b' '.join(rng.choice(EXPR_ALPHABET) for _ in range(full + 1)) + post


def _run_many(mode, inputs, deadline, bad):
    """returns first (input, result) for which bad(result) holds"""
    def one(data):
        if time.time() > deadline:
            return None
        r = replayrun.run(mode, data, timeout=20)
        return (data, r) if bad(r) else None
    with cf.ThreadPoolExecutor(12) as ex:
        futs = []
        for data in inputs:
            if time.time() > deadline:
                break
            futs.append(ex.submit(one, data))
            if len(futs) >= 48:
                for f in futs:
                    x = f.result()
                    if x:
                        return x
                futs = []
        for f in futs:
            x = f.result()
            if x:
                return x
    return None


def _crashes(r):
    return r.get('status') in ('panic', 'crash', 'timeout')


def search(pid, unit, failure, tier='quick', seed=0, deadline=None):
    exe, err = replayrun.build()
    if exe is None:
        return None
    deadline = deadline or (time.time() + BUDGET_S.get(tier, 25))
    rng = random.Random(seed or 1)
    if unit == 'U-LEXD' and pid in ('C14', 'C09'):
        from . import witness_lexd
        w = witness_lexd.search(min(deadline, time.time() + 10), rng)
        if w:
            return w
    if unit in DELTA_UNITS:
        if pid == 'C17':
            from . import witness_header
            w = witness_header.search(time.time() + BUDGET_S.get(tier, 25) * 0.6, rng)
            if w:
                return w
        inputs = itertools.chain(SEEDS_DELTA, _statement_soup(tier, rng), _boundary_runs(), _corpus(), _token_soup(4 if tier == 'quick' else 6, rng, 4000 if tier == 'quick' else 60000))
        hit = _run_many('delta', inputs, deadline, _crashes)
        if hit:
            data, r = hit
            return {'mode': 'delta', 'input_utf8_lossy': data.decode('utf-8', 'replace')[:2000], 'input_hex': data.hex()[:8000],
                    'observed': r, 'expected': 'the second-generation front end neither panics nor crashes on any byte string',
                    'how': 'replay_runner delta <file> (scratch crate with a path dependency on the repository working tree)'}
        return None
    if unit == 'U-LABEL':
        from . import witness_alpha
        return witness_alpha.search_labels(deadline, rng)
    if pid == 'C11' and unit == 'U-ALIGN':
        from . import witness_layout
        return witness_layout.search(deadline, rng)
    if pid == 'C08' and unit in ('U-MUT', 'U-MUTW', 'U-FCALL'):
        from . import witness_mut, witness_types
        return witness_mut.search(deadline, rng) or witness_types.search(deadline, rng, only='with the & missing')
    if pid == 'C07' and unit in ('U-RES', 'U-FCALL', 'U-VT'):
        from . import witness_types
        return witness_types.search(deadline, rng)
    if unit == 'U-LEXA':
        from . import witness_lexa
        return witness_lexa.search(deadline, rng)
    if unit == 'U-LINT' and pid == 'C06':
        from . import witness_alpha
        return witness_alpha.search_l1800(deadline, rng)
    if unit in ('U-SYN',):
        from . import witness_alpha
        return witness_alpha.search_syntax(deadline, rng)
    return None


def replay(w):
    """re-run a stored witness; True if it still fails"""
    try:
        if w.get('input_gen'):
            g = w['input_gen']
            data = (g['prefix'] + g['open'] * g['n'] + g.get('mid', '') + g.get('close', '') * g['n'] + g['suffix']).encode()
        else:
            data = bytes.fromhex(w['input_hex']) if w.get('input_hex') else w.get('input_utf8_lossy', '').encode()
        r = replayrun.run(w['mode'], data, timeout=30)
        if w['mode'] == 'delta' and 'expect_result' not in w:
            return _crashes(r)
        if w.get('expect_lex_error') or w.get('expect_delta_tokens'):
            from . import witness_lexd
            return witness_lexd.replay_fails(w, r)
        if 'expect_l1800' in w:
            if r.get('status') != 'ok':
                return r.get('status') in ('panic', 'crash')
            lints = [c for c in r['result'].get('lints', '[]').strip('[]').split(',') if c]
            codes = [c for c in r['result'].get('errors', '[]').strip('[]').split(',') if c]
            return bool(codes) or sum(1 for c in lints if c == '1800') != w['expect_l1800']
        if 'expect_primary_locations' in w:
            from . import witness_locations
            src, expected = witness_locations.PRIMARY[w['expect_primary_locations']]
            return witness_locations.check_primary(src, expected, r) is not None
        if w.get('expect_locations_ok'):
            from . import witness_locations
            return witness_locations.check(data.decode('utf-8', 'replace'), r) is not None
        if w.get('expect_render_clean'):
            from . import witness_render
            return witness_render.bad(r) is not None
        if w.get('expect_same_verdict_as'):
            acc = r.get('status') == 'ok' and r['result'].get('errors') == '[]'
            return not acc
        if 'expect_literal' in w:
            from . import witness_literals
            return not witness_literals.verdict_ok(w['expect_literal'], r)
        if 'expect_cycle' in w:
            from . import witness_order
            return not witness_order.verdict_ok(w['expect_cycle'], r)
        if 'expect_code_counts' in w:
            if r.get('status') in ('timeout', 'build-failed', 'unknown'):
                return False
            if r.get('status') != 'ok':
                return True
            codes = [c for c in r['result'].get('errors', '[]').strip('[]').split(',') if c]
            return any(codes.count(c) != n for c, n in w['expect_code_counts'].items())
        if 'expect_codes_present' in w:
            if r.get('status') in ('timeout', 'build-failed', 'unknown'):
                return False
            if r.get('status') != 'ok':
                return True
            codes = [c for c in r['result'].get('errors', '[]').strip('[]').split(',') if c]
            return any(c not in codes for c in w['expect_codes_present']) or any(c in codes for c in w.get('expect_codes_absent', []))
        if w.get('expect_scope'):
            from . import witness_scope
            return not witness_scope.replay_ok(w, r)
        if w.get('expect_modules'):
            from . import witness_modules
            return not witness_modules.replay_ok(w, r)
        if w.get('expect_deterministic'):
            from . import witness_determinism
            return witness_determinism.replay_differs(w)
        if w.get('expect_verdict_layout'):
            from . import witness_layout
            return not witness_layout.verdict_ok(w['expect_verdict_layout'], r)
        if w.get('expect_verdict_mut'):
            from . import witness_mut
            return not witness_mut.verdict_ok(w['expect_verdict_mut'], r)
        if w.get('expect_verdict'):
            from . import witness_types
            return not witness_types.verdict_ok(w['expect_verdict'], r)
        exp = w.get('expect_result')
        if exp is not None:
            return r.get('status') != 'ok' or any(str(r['result'].get(k)) != str(v) for k, v in exp.items())
        return _crashes(r)
    except Exception:
        return False
