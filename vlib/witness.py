"""Witness search: decorates a violation with a failing input found by running the real code.
It never decides anything."""


def search(pid, unit, failure):
    return None


def replay(w):
    return False
