"""Run Verus on a generated unit file and map its diagnostics back to named obligations."""
import json
import os
import re
import subprocess
import time
import hashlib

VERIF_FAIL = re.compile(
    r'^(assertion failed|precondition not satisfied|postcondition not satisfied|'
    r'invariant not satisfied before loop|invariant not satisfied at end of loop body|'
    r'loop invariant not preserved|possible arithmetic underflow/overflow|possible division by zero|'
    r'possible bit shift underflow/overflow|decreases not satisfied.*|could not prove termination|'
    r'unable to prove assertion safely|cannot show invariant holds.*|'
    r'.*may fail to meet its declared type invariant.*|assert_by_compute.*failed.*|'
    r'failed to prove.*|recommendation not met.*|possible out of bounds.*|'
    r'cannot prove that call to.*|function body check:.*|'
    r'loop ensures clause not satisfied.*|at the break, loop ensures not satisfied|'
    r'.*arithmetic.*overflow.*|constructed value may fail.*|'
    r'could not show termination.*|precondition not met.*|loop invariant not satisfied.*|unable to prove post-condition of closure.*|.*closure.*not satisfied.*)$')
RLIMIT = re.compile(r'(Resource limit|rlimit|timed out|solver error|incomplete)', re.I)


def slug(msg):
    return re.sub(r'[^a-z0-9]+', '_', msg.lower()).strip('_')[:40]


class GenMap:
    """maps generated line numbers to repo functions / labels using the marker comments"""

    def __init__(self, text):
        self.lines = text.split('\n')
        self.fn_of = [None] * (len(self.lines) + 2)
        self.origin = [None] * (len(self.lines) + 2)
        cur = None
        org = None
        for i, l in enumerate(self.lines, 1):
            s = l.strip()
            if s.startswith('//@fn '):
                key, _, where = s[6:].partition(' | ')
                cur = (key.strip(), where.strip())
            elif s.startswith('//@endfn'):
                self.fn_of[i] = cur
                cur = None
                continue
            elif s.startswith('//@prelude ') or s.startswith('//@spec '):
                org = s[3:]
            elif s.startswith('//@end'):
                org = None
            self.fn_of[i] = cur
            self.origin[i] = org

    def label_at(self, l0, l1):
        for i in range(l0, min(l1, len(self.lines)) + 1):
            m = re.search(r'/\*@L:((?:[^*])+)\*/', self.lines[i - 1])
            if m:
                return m.group(1)
            if '/*@U*/' in self.lines[i - 1]:
                return None
        return None

    def sentinel_at(self, l0, l1):
        for i in range(l0, min(l1, len(self.lines)) + 1):
            m = re.search(r'/\*@S:([^*]+)\*/', self.lines[i - 1])
            if m:
                return m.group(1)
        return None

    def enclosing(self, line):
        f = self.fn_of[line] if 0 < line < len(self.fn_of) else None
        if f:
            return {'kind': 'repo', 'fn': f[0], 'where': f[1]}
        org = self.origin[line] if 0 < line < len(self.origin) else None
        # nearest preceding `fn name`
        name = None
        for i in range(line, max(line - 400, 0), -1):
            m = re.search(r'\bfn\s+([A-Za-z0-9_]+)', self.lines[i - 1])
            if m:
                name = m.group(1)
                break
        return {'kind': 'ghost', 'fn': '%s::%s' % (org or 'generated', name), 'where': org or 'generated'}

    def text(self, l0, l1):
        return '\n'.join(self.lines[l0 - 1:l1])


def run(path, rlimit=None, threads=8, multiple_errors=4, seed=None, extra=(), timeout=1500):
    cmd = ['verus', path, '--output-json', '--time-expanded', '--error-format=json',
           '--multiple-errors', str(multiple_errors), '--triggers-mode', 'silent', '--num-threads', str(threads)]
    if rlimit:
        cmd += ['--rlimit', str(rlimit)]
    if seed is not None:
        cmd += ['--smt-option', 'smt.random_seed=%d' % seed]
    cmd += list(extra)
    t0 = time.time()
    env = dict(os.environ)
    try:
        p = subprocess.run(cmd, capture_output=True, text=True, timeout=timeout, env=env, cwd=os.path.dirname(path))
        rc, so, se = p.returncode, p.stdout, p.stderr
    except subprocess.TimeoutExpired as e:
        rc, so, se = -9, (e.stdout or b'').decode() if isinstance(e.stdout, bytes) else (e.stdout or ''), 'TIMEOUT'
    wall = time.time() - t0
    res = None
    try:
        res = json.loads(so)
    except Exception:
        # output-json may be preceded by noise
        i = so.find('{')
        try:
            res = json.loads(so[i:]) if i >= 0 else None
        except Exception:
            res = None
    diags = []
    other = []
    for l in se.split('\n'):
        l = l.strip()
        if not l:
            continue
        try:
            j = json.loads(l)
        except Exception:
            other.append(l)
            continue
        diags.append(j)
    return {'cmd': ' '.join(cmd), 'rc': rc, 'json': res, 'diags': diags, 'stderr_other': other, 'wall': wall}


def classify(r, gm, gen_name=''):
    """returns (failures, tool_errors, rlimit_hits, notes).  failure = dict(fn, where, obligation, kind, message, line, text)"""
    failures, tool, rl = [], [], []
    gen_name = gen_name or os.path.basename(r['cmd'].split()[1])
    for d in r['diags']:
        lvl = d.get('level')
        msg = d.get('message', '')
        if lvl != 'error':
            continue
        if msg.startswith('aborting due to'):
            continue
        spans = [s for s in d.get('spans', []) if os.path.basename(s.get('file_name', gen_name)) == gen_name] or d.get('spans', [])
        prim = [s for s in spans if s.get('is_primary')] or spans
        if RLIMIT.search(msg):
            ln = prim[0]['line_start'] if prim else 0
            enc = gm.enclosing(ln) if ln else {'fn': '?', 'where': '?', 'kind': '?'}
            rl.append({'fn': enc['fn'], 'message': msg, 'line': ln})
            continue
        if not VERIF_FAIL.match(msg):
            tool.append({'message': msg, 'code': (d.get('code') or {}).get('code') if d.get('code') else None,
                         'line': prim[0]['line_start'] if prim else None,
                         'text': gm.text(prim[0]['line_start'], prim[0]['line_end']) if prim else '',
                         'rendered': (d.get('rendered') or '')[:1500]})
            continue
        ps = prim[0] if prim else None
        if ps is None:
            tool.append({'message': msg, 'code': None, 'line': None, 'text': '', 'rendered': d.get('rendered', '')[:1500]})
            continue
        enc = gm.enclosing(ps['line_start'])
        label = None
        sent = None
        for s in spans:
            sent = sent or gm.sentinel_at(s['line_start'], s['line_end'])
        # which span names the failed clause: for a postcondition it is the PRIMARY span (the ensures clause; the secondary
        # span is the function body / return site); for a precondition, invariant etc. it is the secondary span that Verus
        # labels "failed ..." (the clause), the primary being the call site / loop
        sec = [x for x in spans if not x.get('is_primary')]
        if msg.startswith('postcondition') or msg.startswith('loop ensures') or msg.startswith('at the break'):
            order = prim + [x for x in sec if 'failed' in (x.get('label') or '')]
        else:
            order = [x for x in sec if 'failed' in (x.get('label') or '')] + prim + [x for x in sec if 'failed' not in (x.get('label') or '')]
        for s in order:
            label = gm.label_at(s['line_start'], s['line_end'])
            if label:
                break
        ptxt = gm.text(ps['line_start'], ps['line_end'])
        norm = re.sub(r'/\*@[^*]*\*/', '', re.sub(r'\s+', ' ', ptxt)).strip()
        h = hashlib.sha1(norm.encode()).hexdigest()[:8]
        if label:
            obl = label
            # a precondition label is reported per call site
            if msg.startswith('precondition'):
                obl = '%s@%s' % (label, h)
        else:
            obl = '%s.%s@%s' % (enc['fn'], slug(msg), h)
        body_fn = None
        for x in sec:
            if 'end of the function body' in (x.get('label') or '') or 'at this exit' in (x.get('label') or ''):
                e2 = gm.enclosing(x['line_start'])
                if e2 and e2.get('fn') and e2['fn'] != enc['fn']:
                    body_fn = e2['fn']   # a trait-level postcondition failed in this implementation
        failures.append({'body_fn': body_fn, 'fn': enc['fn'], 'where': enc['where'], 'origin': enc['kind'], 'obligation': obl, 'label': label,
                         'kind': slug(msg), 'message': msg, 'line': ps['line_start'], 'text': ptxt[:600], 'sentinel': sent,
                         'spans': [{'l0': s['line_start'], 'l1': s['line_end'], 'primary': s.get('is_primary'), 'label': s.get('label'),
                                    'text': gm.text(s['line_start'], s['line_end'])[:300]} for s in spans],
                         'rendered': (d.get('rendered') or '')[:3000]})
    return failures, tool, rl


def fn_breakdown(res):
    out = []
    try:
        for m in res['times-ms']['smt']['smt-run-module-times']:
            for f in m.get('function-breakdown', []):
                out.append({'function': f['function'], 'mode': f.get('mode:') or f.get('mode'), 'ms': f['time'], 'rlimit': f.get('rlimit'), 'success': f['success']})
    except Exception:
        pass
    return out
