"""Witness search for the first-generation lexer (C09 literal values, C14 tokens and spans): token sequences are built
from atoms whose expected token, payload and span are known BY CONSTRUCTION (the property statement: "any sequence of
tokens, written in any legal spelling and separated by any whitespace or // comments, is split into exactly those tokens
with the right payloads and with spans covering exactly the token's characters on the right line"), run through the real
lexer (replay runner, mode alphatok) and compared.  Only used to attach a failing input to a violation the verifier has
already reported; it never decides anything."""
import time
from . import replayrun

KEYWORDS = {'fn': 'Fn', 'var': 'Var', 'const': 'Const', 'if': 'If', 'goto': 'Goto', 'loop': 'Loop', 'else': 'Else', 'cast': 'Cast',
            'as': 'As', 'import': 'Import', 'pub': 'Pub', 'extern': 'Extern', 'struct': 'Struct', 'word8': 'Word8', 'word16': 'Word16',
            'word32': 'Word32', 'word64': 'Word64', 'word128': 'Word128', '_': 'Placeholder', 'true': 'bool:true', 'false': 'bool:false'}
TYPES = {'void': 'Void', 'i8': 'Int8', 'i16': 'Int16', 'i32': 'Int32', 'i64': 'Int64', 'i128': 'Int128', 'u8': 'Uint8', 'u16': 'Uint16',
         'u32': 'Uint32', 'u64': 'Uint64', 'u128': 'Uint128', 'usize': 'Usize', 'char8': 'Char8', 'bool': 'Bool'}
SUFFIXES = {k: v for k, v in TYPES.items() if k[0] in 'iu' and k != 'usize' or k == 'usize'}
PUNCT = {'(': 'ParenLeft', ')': 'ParenRight', '{': 'BraceLeft', '}': 'BraceRight', '[': 'BracketLeft', ']': 'BracketRight',
         '<': 'AngleLeft', '>': 'AngleRight', '|': 'Pipe', '&': 'Ampersand', '^': 'Caret', '!': 'Exclamation', '+': 'Plus', '-': 'Minus',
         '*': 'Times', '/': 'Divide', '%': 'Modulo', ':': 'Colon', ';': 'Semicolon', '.': 'Dot', ',': 'Comma', '=': 'Assignment',
         '==': 'Equals', '!=': 'DoesNotEqual', '>=': 'IsGE', '<=': 'IsLE', '<<': 'ShiftLeft', '>>': 'ShiftRight', '->': 'Arrow',
         '|:': 'PipeForType', '..': 'Dots'}
SIMPLE_ESC = {'\\n': 0x0a, '\\r': 0x0d, '\\t': 0x09, '\\\\': 0x5c, "\\'": 0x27, '\\"': 0x22, '\\0': 0x00}
BOUNDARY = [0, 1, 2, 9, 10, 127, 128, 255, 256, 2 ** 31 - 1, 2 ** 31, 2 ** 32 - 1, 2 ** 32, 2 ** 63, 2 ** 64 - 1, 2 ** 64, 2 ** 127 - 1, 2 ** 127,
            2 ** 128 - 1]


def _underscored(rng, digits):
    out = ''
    for i, d in enumerate(digits):
        out += d
        if rng.random() < 0.2:
            out += '_' * rng.randint(1, 2)
    return out


def gen_int(rng):
    v = rng.choice(BOUNDARY) if rng.random() < 0.6 else rng.getrandbits(rng.choice([3, 8, 16, 33, 64, 100, 128]))
    if rng.random() < 0.08:
        v = 2 ** 128 + rng.getrandbits(8)   # not representable: must be rejected, never altered
    form = rng.choice(['dec', 'hex', 'bin'])
    if v == 0 and form == 'dec':
        form = 'hex'   # whether a bare 0 is a decimal or a bit literal is not fixed by the property
    if form == 'dec':
        text = _underscored(rng, str(v))
        kind = 'dec'
    elif form == 'hex':
        h = '%x' % v
        h = ''.join(c.upper() if rng.random() < 0.5 else c for c in h)
        text = '0x' + ('_' if rng.random() < 0.1 else '') + _underscored(rng, h)
        kind = 'bit'
    else:
        text = '0b' + _underscored(rng, bin(v)[2:])
        kind = 'bit'
    suffix = rng.choice(sorted(SUFFIXES)) if rng.random() < 0.4 else None
    if suffix:
        text += suffix
    if v >= 2 ** 128:
        return text, 'err:InvalidIntegerLength'
    if suffix:
        return text, 'suf:%d:%s' % (v, SUFFIXES[suffix])
    return text, '%s:%d' % (kind, v)


def gen_element(rng, quote, single_byte=False):
    """(source text, bytes) of one element of a char/string literal"""
    k = rng.random()
    if k < 0.25:
        e = rng.choice(sorted(SIMPLE_ESC))
        return e, bytes([SIMPLE_ESC[e]])
    if k < 0.5:
        b = rng.choice([0, 1, 0x7f, 0x80, 0xc3, 0xff, rng.randrange(256)])
        h = '%02x' % b
        h = ''.join(c.upper() if rng.random() < 0.5 else c for c in h)
        return '\\x' + h, bytes([b])
    if k < 0.62 and not single_byte:
        cp = rng.choice([0x41, 0x7f, 0x80, 0xe9, 0x7ff, 0x800, 0xffff, 0x10000, 0x1f600, 0x10ffff, 0xd7ff, 0xe000])
        return '\\u{%x}' % cp, chr(cp).encode('utf-8')
    if k < 0.7 and not single_byte:
        c = rng.choice('é€😀ß')
        return c, c.encode('utf-8')
    while True:
        c = chr(rng.randrange(0x20, 0x7f))
        if c not in ('\\', '"', "'"):
            return c, c.encode()


def gen_atom(rng):
    k = rng.random()
    if k < 0.22:
        return gen_int(rng)
    if k < 0.37:
        n = rng.randint(0, 5)
        parts = [gen_element(rng, '"') for _ in range(n)]
        return '"' + ''.join(p[0] for p in parts) + '"', 'str:' + b''.join(p[1] for p in parts).hex()
    if k < 0.40:
        # a closed literal with one bad escape: exactly one error token (its own span lies inside the literal and is not
        # compared), and the tokens after it keep their exact spans
        q = rng.choice('"\'')
        return q + rng.choice(['', 'a']) + rng.choice(['\\q', '\\x4', '\\u{110000}', '\\u{d800}', '\\xg0']) + rng.choice(['', 'z']) + q, '?err:InvalidEscapeSequence'
    if k < 0.47:
        t, b = gen_element(rng, "'", single_byte=True)
        return "'" + t + "'", 'chr:%02x' % b[0]
    if k < 0.6:
        w = rng.choice(sorted(KEYWORDS))
        return w, KEYWORDS[w]
    if k < 0.68:
        w = rng.choice(sorted(TYPES))
        return w, 'ty:' + TYPES[w]
    if k < 0.85:
        p = rng.choice(sorted(PUNCT))
        return p, PUNCT[p]
    while True:
        w = rng.choice('abcxyzQ_') + ''.join(rng.choice('abz09_Q') for _ in range(rng.randint(0, 6)))
        if w not in KEYWORDS and w not in TYPES:
            if rng.random() < 0.15:
                return w + '!', 'bi:' + w
            return w, 'id:' + w


def gen_source(rng, n, newline='\n'):
    """source text and the expected (start, end, line, desc) list; char offsets"""
    src = ''
    line = 1
    exp = []
    for _ in range(n):
        # separator
        r = rng.random()
        if r < 0.55:
            sep = ' ' * rng.randint(1, 2)
        elif r < 0.7:
            sep = '\t'
        elif r < 0.88:
            sep = rng.choice(['', ' ']) + newline + rng.choice(['', '\t', '  '])
        else:
            sep = rng.choice([' // ', '//', ' //']) + rng.choice(['c', '"x', "it's", 'é 0x', '', '']) + newline
        if src.endswith('/') and sep.startswith('/'):
            sep = ' ' + sep      # `/` directly followed by `//` would itself start the comment
        text, desc = gen_atom(rng)
        # tokens need no white space between them where the boundary is unambiguous: a word directly followed by punctuation
        # (not an identifier by `!`, which spells a builtin; not by `.`), punctuation directly followed by a word
        if exp and rng.random() < 0.25:
            import re as _re
            prev_text, prev_desc = src[exp[-1][0]:exp[-1][1]], exp[-1][3] or ''
            word = lambda t: bool(_re.fullmatch(r'[A-Za-z0-9_]+', t))
            if len(src) == exp[-1][1] and ((word(prev_text) and text in PUNCT and not text.startswith('.') and not (text.startswith('!') and prev_desc.startswith('id:')))
                                           or (prev_text in PUNCT and word(text))):
                sep = ''
        if src or rng.random() < 0.5:
            src += sep
            line += sep.count('\n')
        exp.append((len(src), len(src) + len(text), line, desc))
        src += text
    if rng.random() < 0.5:
        src += rng.choice([newline, ' ', ' // end'])
    return src, exp


def mismatch(src, exp, r):
    if r.get('status') in ('timeout', 'build-failed', 'unknown'):
        return None    # inconclusive run: never a mismatch
    if r.get('status') != 'ok':
        return 'lexer %s: %s' % (r.get('status'), r.get('detail'))
    got = [x for x in (r['result'].get('toks') or '').split('|') if x]
    if len(got) != len(exp):
        return 'expected %d tokens, got %d: %s' % (len(exp), len(got), '|'.join(got)[:300])
    for g, (s, e, ln, d) in zip(got, exp):
        gs, ge, gl, gd = g.split('-', 3)
        if d is None:
            ok_desc = gd in ('dec:0', 'bit:0')
        else:
            ok_desc = gd == d
        if d is not None and d.startswith('?'):
            if gd != d[1:] or int(gl) != ln or not (s <= int(gs) <= int(ge) <= e):
                return 'expected token %s inside chars %d..%d line %d, got %s at %s..%s line %s' % (d[1:], s, e, ln, gd, gs, ge, gl)
            continue
        if not ok_desc or (int(gs), int(ge), int(gl)) != (s, e, ln):
            return 'expected token %s at chars %d..%d line %d, got %s at %s..%s line %s' % (d or 'dec:0/bit:0', s, e, ln, gd, gs, ge, gl)
    return None


def search(deadline, rng, newline='\n'):
    if replayrun.build()[0] is None:
        return None
    import concurrent.futures as cf

    def one(case):
        src, exp = case
        r = replayrun.run('alphatok', src.encode('utf-8'), timeout=20)
        m = mismatch(src, exp, r)
        return (src, exp, r, m) if m else None

    with cf.ThreadPoolExecutor(12) as ex:
        while time.time() < deadline:
            cases = [gen_source(rng, rng.choice([1, 1, 2, 3, 6]), newline) for _ in range(96)]
            for hit in ex.map(one, cases):
                if hit:
                    src, exp, r, m = hit
                    # shrink: single atoms first
                    return {'mode': 'alphatok', 'input_utf8_lossy': src, 'input_hex': src.encode('utf-8').hex(),
                            'observed': r, 'expected': m,
                            'expect_result': {'toks': '|'.join('%d-%d-%d-%s' % (s, e, ln, d) for (s, e, ln, d) in exp)} if all(x[3] and not x[3].startswith('?') for x in exp) else None,
                            'how': 'replay_runner alphatok <file>: tokens of penne::alpha::lexer::lex with span, line and payload'}
    return None
