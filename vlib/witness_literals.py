"""Bounded stand-in for the parts of literal handling that are not under contract (C09: alpha parser minus-folding and
suffix split, typer literal typing): integer literals at every width boundary, in several spellings, whose expected verdict
is known BY CONSTRUCTION from the property statement - a literal whose value lies outside the range of its type always
raises the truncation lint L1142, an in-range literal never does, a literal beyond 128 bits is rejected with E140.
Real pipeline through replay mode alpha (lexer, parser, typer, analyzer, linter, resolver)."""
import time
from . import replayrun

SIGNED = {'i8': 8, 'i16': 16, 'i32': 32, 'i64': 64, 'i128': 128}
UNSIGNED = {'u8': 8, 'u16': 16, 'u32': 32, 'u64': 64, 'u128': 128}


def rng_of(t):
    if t in SIGNED:
        b = SIGNED[t]
        return -(2 ** (b - 1)), 2 ** (b - 1) - 1
    b = UNSIGNED[t]
    return 0, 2 ** b - 1


def spell(v, rng, form):
    a = abs(v)
    if form == 'dec':
        s = str(a)
    elif form == 'dec_':
        s = str(a)
        s = '_'.join([s[:1]] + [s[i:i + 3] for i in range(1, len(s), 3)]) if len(s) > 1 else s
    elif form == 'hex':
        s = '0x%x' % a
    elif form == 'HEX':
        s = '0x%X' % a
    else:
        s = '0b' + bin(a)[2:]
    return s


def cases(rng):
    out = []
    for t in list(SIGNED) + list(UNSIGNED):
        lo, hi = rng_of(t)
        vals = {0, 1, hi, hi + 1, hi - 1, 2 ** 31, 2 ** 32, 2 ** 63, 2 ** 64, 2 ** 127, 2 ** 128 - 1, rng.randrange(0, hi + 1)}
        if t in SIGNED:
            vals |= {lo, lo - 1, lo + 1, -1}
        for v in sorted(vals):
            if abs(v) >= 2 ** 128:
                continue
            forms = ['dec', 'dec_'] if t in SIGNED else ['dec', 'dec_', 'hex', 'HEX', 'bin']
            for form in forms:
                lit = spell(v, rng, form)
                if v < 0:
                    lit = '-' + lit
                exp_lint = not (lo <= v <= hi)
                out.append(('fn f()\n{\n\tvar x: %s = %s;\n}\n' % (t, lit), exp_lint, '%s typed %s by its declaration' % (lit, t)))
                if form in ('dec', 'dec_') or t in UNSIGNED:
                    out.append(('fn f()\n{\n\tvar x = %s%s;\n}\n' % (lit, t), exp_lint, '%s%s typed by its suffix' % (lit, t)))
    # the same literal in every position where its type is fixed by the context
    for t in ('u8', 'i8', 'u16', 'i32'):
        lo, hi = rng_of(t)
        for v in (hi, hi + 1):
            exp_lint = v > hi
            ctxs = {
                'assignment': 'fn f()\n{\n\tvar x: %s = 0;\n\tx = %d;\n}\n' % (t, v),
                'argument': 'fn g(a: %s)\n{\n}\n\nfn f()\n{\n\tg(%d);\n}\n' % (t, v),
                'array element': 'fn f()\n{\n\tvar x: [2]%s = [1, %d];\n}\n' % (t, v),
                'operand': 'fn f(a: %s)\n{\n\tvar x: %s = a + %d;\n}\n' % (t, t, v),
                'constant': 'const K: %s = %d;\n' % (t, v),
                'structure member': 'struct S\n{\n\ta: %s,\n}\n\nfn f()\n{\n\tvar s: S = S { a: %d };\n}\n' % (t, v),
                'if condition (right operand)': 'fn f(x: %s)\n{\n\tif x == %d\n\t{\n\t\tgoto end;\n\t}\n\tend:\n}\n' % (t, v),
                'return value': 'fn f() -> %s\n{\n\treturn: %d\n}\n' % (t, v),
                'return value after statements': 'fn f(a: %s) -> %s\n{\n\tvar x: %s = a;\n\treturn: %d\n}\n' % (t, t, t, v),
            }
            for cn, src in ctxs.items():
                out.append((src, exp_lint, '%d of type %s as %s' % (v, t, cn)))
    rng.shuffle(out)
    # just beyond 128 bits (every last digit: a checked multiplication followed by an unchecked addition would wrap here), and far beyond;
    # these come first so that a quick run always includes them
    beyond = []
    for extra in [2 ** 128 + d for d in range(0, 10)] + [2 ** 128 + 10, 2 ** 128 + 55, (2 ** 128 // 10 + 1) * 10, 10 ** 39, 10 ** 40]:
        for spelling in ('%d' % extra, ('%d' % extra)[:20] + '_' + ('%d' % extra)[20:]):
            beyond.append(('fn f()\n{\n\tvar x: u128 = %s;\n}\n' % spelling, 'E140', '%s is beyond 128 bits' % spelling))
            beyond.append(('fn f()\n{\n\tvar x = %su128;\n}\n' % spelling, 'E140', '%su128 is beyond 128 bits' % spelling))
    return beyond + out


def verdict_ok(exp, r):
    if r.get('status') in ('timeout', 'build-failed', 'unknown'):
        return True    # inconclusive run (machine load, tool failure): never a mismatch
    if r.get('status') != 'ok':
        return False
    codes = [c for c in r['result'].get('errors', '[]').strip('[]').split(',') if c]
    lints = [c for c in r['result'].get('lints', '[]').strip('[]').split(',') if c]
    if exp == 'E140':
        return '140' in ''.join(codes) or '140' in r['result'].get('errors', '')
    if codes:
        return False    # every literal of the family is well formed and fits its declared type syntactically
    return ('1142' in lints) == bool(exp)


def search(deadline, rng, limit=None):
    if replayrun.build()[0] is None:
        return None
    import concurrent.futures as cf
    cs = cases(rng)
    if limit:
        cs = cs[:limit]

    def one(c):
        if time.time() > deadline:
            return None
        r = replayrun.run('alpha', c[0].encode(), timeout=20)
        return None if verdict_ok(c[1], r) else (c, r)

    with cf.ThreadPoolExecutor(12) as ex:
        for hit in ex.map(one, cs):
            if hit:
                (src, exp, what), r = hit
                return {'mode': 'alpha', 'input_utf8_lossy': src, 'input_hex': src.encode().hex(), 'observed': r,
                        'expected': '%s: %s' % (what, 'rejected with E140' if exp == 'E140' else ('lint L1142 (out of range)' if exp else 'no error and no L1142 (in range)')),
                        'expect_literal': exp,
                        'how': 'replay_runner alpha <file>: error and lint codes of the first-generation pipeline without the LLVM generator'}
    return None
