"""Rewrite rules R1.. (DESIGN.md 2.3): local, syntactic, semantics-preserving rewrites of sliced text
into the dialect Verus accepts.  Every application is counted in unit.rules and reported in the evidence.
A rule that is asked for but does not find its pattern raises LostAnchor (exit 2, never an alarm).
Rules are functions (unit, key, text) -> text."""
import re
from . import rsparse
from .rsparse import LostAnchor, tokenize, match_brackets


# set by Unit._emit_fn while the rules of one function run: inferred pure renames of its locals since the baseline
CURRENT = {'renames': {}}


def follow_renames(ghost_text, but_not=()):
    """ghost text a rule brings along (closure contracts) may name locals of the function: follow their inferred renames"""
    ren = {k: v for k, v in CURRENT['renames'].items() if k not in but_not}
    if not ren or not ghost_text:
        return ghost_text
    from .unit import rename_line
    return '\n'.join(rename_line(l, ren) for l in ghost_text.split('\n'))

def _seq(toks, i, texts):
    if i < 0 or i + len(texts) > len(toks):
        return False
    return all(toks[i + k].text == t for k, t in enumerate(texts))


def _receiver_start(toks, dot_idx):
    """walk back from the '.' at dot_idx over a postfix chain `a.b.c` / `self.x`; returns index of first token"""
    j = dot_idx - 1
    while True:
        if toks[j].kind == 'id':
            if j - 1 >= 0 and toks[j - 1].text == '.' and toks[j - 2].kind == 'id':
                j -= 2
                continue
            return j
        raise LostAnchor('receiver of iterator chain is not a simple path')


def _postfix_start(toks, match, dot_idx):
    """walk back from the '.' at dot_idx over a postfix expression: paths `a::b`, fields `.f`, calls `f(..)`, method calls
    `.m(..)`, indexing `a[..]`, a parenthesised expression; returns the index of its first token"""
    inv = {v: k for k, v in match.items()}
    j = dot_idx - 1
    while j >= 0:
        t = toks[j]
        if t.text in (')', ']') and j in inv:
            o = inv[j]
            if o - 1 >= 0 and (toks[o - 1].kind == 'id' or toks[o - 1].text in (')', ']')):
                j = o - 1
                continue
            if t.text == ')':
                return o  # parenthesised expression
            raise LostAnchor('receiver of method chain starts with an array literal')
        if t.kind in ('id', 'num', 'str'):
            if j - 1 >= 0 and toks[j - 1].text == '.':
                j -= 2
                continue
            if j - 2 >= 0 and toks[j - 1].text == ':' and toks[j - 2].text == ':':
                j -= 3
                continue
            return j
        raise LostAnchor('receiver of method chain is not a postfix expression')
    raise LostAnchor('receiver of method chain not found')


def r26_map_or_match(u, key, text):
    """R26: RECV.map_or(D, |p| BODY)  ->  match RECV { Some(p) => BODY, None => D }   where D is a literal or a path
    (so that evaluating it lazily instead of eagerly is unobservable).  Wanted because Verus rejects closures that
    capture `&mut`; the match arm has the same captures without a closure."""
    while True:
        toks = tokenize(text)
        match = match_brackets(toks)
        site = None
        for i, t in enumerate(toks):
            if t.text == '.' and _seq(toks, i, ['.', 'map_or', '(']):
                mopen = i + 2
                # first argument: tokens up to the top-level comma
                k = mopen + 1
                while k < match[mopen] and toks[k].text != ',':
                    if toks[k].text in ('(', '[', '{'):
                        k = match[k]
                    k += 1
                dflt = toks[mopen + 1:k]
                if k < match[mopen] and toks[k + 1].text == '|' and dflt and all(d.kind in ('id', 'num', 'str') or d.text == ':' for d in dflt):
                    site = (i, mopen, k)
                    break
        if site is None:
            return text
        i, mopen, k = site
        rs = _postfix_start(toks, match, i)
        recv = text[toks[rs].start:toks[i].start].strip()
        d = text[toks[mopen + 1].start:toks[k].start].strip()
        j = k + 2
        while toks[j].text != '|':
            j += 1
        param = text[toks[k + 1].end:toks[j].start].strip()
        mclose = match[mopen]
        body = text[toks[j].end:toks[mclose].start].strip().rstrip(',').strip()
        new = 'match %s { Some(%s) => %s, None => %s }' % (recv, param, _as_block(body), d)
        text = text[:toks[rs].start] + new + text[toks[mclose].end:]
        u.rules['R26'] += 1


def _closure(text, toks, match, open_paren):
    """closure directly inside call parens at open_paren: returns (param_text, body_text)"""
    i = open_paren + 1
    if toks[i].text != '|':
        raise LostAnchor('expected closure')
    j = i + 1
    while toks[j].text != '|':
        j += 1
    param = text[toks[i].end:toks[j].start].strip()
    close = match[open_paren]
    body = text[toks[j].end:toks[close].start].strip()
    return param, body


def _as_block(body):
    return body if body.startswith('{') else '{ ' + body + ' }'


def r1_r2_map_collect(min_count=1, names=None, with_decreases=False):
    """R1: E.into_iter().map(|p| BODY).collect()        -> explicit loop over reversed vector with pop()
       R2: E.into_iter().rev().map(|p| BODY).collect()  -> same without the reverse()
    The n-th rewritten site uses variables r<n>_in / r<n>_out."""
    def rule(u, key, text):
        count = 0
        while True:
            toks = tokenize(text)
            match = match_brackets(toks)
            site = None
            for i, t in enumerate(toks):
                if t.text == '.' and _seq(toks, i, ['.', 'into_iter', '(', ')']):
                    k = i + 4
                    rev = False
                    if _seq(toks, k, ['.', 'rev', '(', ')']):
                        rev = True
                        k += 4
                    if not _seq(toks, k, ['.', 'map', '(']):
                        continue
                    mclose = match[k + 2]
                    if not _seq(toks, mclose + 1, ['.', 'collect', '(', ')']):
                        continue
                    site = (i, k + 2, mclose, rev)
                    break
            if site is None:
                break
            i, mopen, mclose, rev = site
            rs = _receiver_start(toks, i)
            recv = text[toks[rs].start:toks[i].start].strip()
            param, body = _closure(text, toks, match, mopen)
            n = count + 1
            tag = 'r%d' % n
            new = ('{\n\t\t\tlet mut %s_in = %s;\n' % (tag, re.sub(r'\s+', '', recv))
                   + ('' if rev else '\t\t\t%s_in.reverse();\n' % tag)
                   + '\t\t\tlet mut %s_out = Vec::new();\n' % tag
                   + '\t\t\twhile let Some(%s) = %s_in.pop()\n%s\t\t\t{\n' % (param, tag, ('\t\t\t\tdecreases %s_in@.len(),\n' % tag) if with_decreases else '')
                   + '\t\t\t\tlet %s_item = %s;\n' % (tag, _as_block(body))
                   + '\t\t\t\t%s_out.push(%s_item);\n\t\t\t}\n\t\t\t%s_out\n\t\t}' % (tag, tag, tag))
            text = text[:toks[rs].start] + new + text[toks[mclose + 4].end:]
            u.rules['R2' if rev else 'R1'] += 1
            count += 1
        if count < min_count:
            raise LostAnchor('%s: rule R1/R2 found %d sites, expected >= %d' % (key, count, min_count))
        return text
    return rule


def r3_option_map(receivers):
    """R3: OPT.map(|p| BODY)  ->  match OPT { Some(p) => Some(BODY), None => None }   for the named receivers"""
    def rule(u, key, text):
        for recv in receivers:
            toks = tokenize(text)
            match = match_brackets(toks)
            found = False
            for i, t in enumerate(toks):
                if t.kind == 'id' and t.text == recv and _seq(toks, i + 1, ['.', 'map', '(']) and toks[i + 4].text == '|' \
                        and (i == 0 or toks[i - 1].text != '.'):
                    mopen = i + 3
                    mclose = match[mopen]
                    param, body = _closure(text, toks, match, mopen)
                    new = 'match %s { Some(%s) => Some(%s), None => None }' % (recv, param, _as_block(body))
                    text = text[:t.start] + new + text[toks[mclose].end:]
                    u.rules['R3'] += 1
                    found = True
                    break
            if not found:
                raise LostAnchor('%s: rule R3 found no `%s.map(|..| ..)`' % (key, recv))
        return text
    return rule


def only_for(keys, rule):
    """apply rule only to functions whose key ends with one of keys"""
    def r(u, key, text):
        if any(key.endswith(k) for k in keys):
            return rule(u, key, text)
        return text
    return r


def r13_assert_eq(u, key, text):
    """R13: assert_eq!(a, b) -> assert!(a == b); assert_ne!(a, b) -> assert!(a != b); debug_ variants alike"""
    def repl(m):
        u.rules['R13'] += 1
        return m.group(0)
    out = []
    pos = 0
    for m in re.finditer(r'\b(debug_)?assert_(eq|ne)!\(', text):
        start = m.end()
        # split top-level comma
        toks = tokenize(text[start:])
        depth = 0
        comma = None
        endp = None
        for t in toks:
            if t.kind == 'p' and t.text in '([{':
                depth += 1
            elif t.kind == 'p' and t.text in ')]}':
                if depth == 0:
                    endp = t.start
                    break
                depth -= 1
            elif t.kind == 'p' and t.text == ',' and depth == 0 and comma is None:
                comma = t.start
        a = text[start:start + comma].strip()
        rest = text[start + comma + 1:start + endp]
        # b may be followed by a format message: cut at next top-level comma
        toks2 = tokenize(rest)
        depth = 0
        cut = len(rest)
        for t in toks2:
            if t.kind == 'p' and t.text in '([{':
                depth += 1
            elif t.kind == 'p' and t.text in ')]}':
                depth -= 1
            elif t.kind == 'p' and t.text == ',' and depth == 0:
                cut = t.start
                break
        b = rest[:cut].strip()
        op = '==' if m.group(2) == 'eq' else '!='
        out.append(text[pos:m.start()])
        out.append('%sassert!((%s) %s (%s))' % (m.group(1) or '', a, op, b))
        pos = start + endp + 1
        u.rules['R13'] += 1
    out.append(text[pos:])
    return ''.join(out)


def r3_option_map_if_present(receivers):
    """R3 applied where the pattern occurs (functions of an impl that do not contain it are left alone)"""
    inner = r3_option_map(receivers)

    def rule(u, key, text):
        for recv in receivers:
            if re.search(r'\b%s\s*\.\s*map\s*\(\s*\|' % recv, text):
                text = r3_option_map([recv])(u, key, text)
        return text
    return rule


def r14_iter_find(elem_type, ensures, written_for=None):
    """R14: S.iter().find(|x| P)  ->  slice_find(S.as_slice(), |x: &&T| -> (b: bool) ensures ENS { P })
    slice_find is a verified helper (prelude/slice_find.rs) whose postcondition is "first element satisfying the closure".
    ENS is the closure's ghost contract (checked by Verus against the real closure body P)."""
    def rule(u, key, text):
        while True:
            toks = tokenize(text)
            match = match_brackets(toks)
            site = None
            for i, t in enumerate(toks):
                if t.text == '.' and _seq(toks, i, ['.', 'iter', '(', ')', '.', 'find', '(']) and toks[i + 7].text == '|':
                    site = i
                    break
            if site is None:
                break
            i = site
            rs = _receiver_start(toks, i)
            recv = text[toks[rs].start:toks[i].start].strip()
            mopen = i + 6
            mclose = match[mopen]
            param, body = _closure(text, toks, match, mopen)
            ens = ensures if not written_for or written_for == param else re.sub(r'(?<![\w.])%s\b' % re.escape(written_for), param, ensures)
            new = 'slice_find(%s.as_slice(), |%s: &&%s| -> (b: bool) ensures %s %s)' % (recv, param, elem_type, ens, _as_block(body))
            text = text[:toks[rs].start] + new + text[toks[mclose].end:]
            u.rules['R14'] += 1
        return text
    return rule


def r4_inline_closure(name):
    """R4: a local, non-escaping closure `let [mut] NAME = |P| BODY;` (capturing `&mut` locals, which Verus rejects)
    is removed and every call `NAME(ARG)` becomes `{ let P = ARG; BODY' }` where BODY' is BODY without its outer braces.
    Only single-parameter closures without type annotation; calls must be expression statements."""
    def rule(u, key, text, name=name):
        m = re.search(r'let\s+(?:mut\s+)?%s\s*=\s*\|\s*([A-Za-z_][A-Za-z0-9_]*)\s*\|' % re.escape(name), text)
        if not m:
            # the closure may have been renamed: if the function defines exactly one local single-parameter block closure, take it
            ms = list(re.finditer(r'let\s+(?:mut\s+)?([A-Za-z_][A-Za-z0-9_]*)\s*=\s*\|\s*([A-Za-z_][A-Za-z0-9_]*)\s*\|\s*\{', text))
            if len(ms) != 1:
                return text
            name = ms[0].group(1)
            m = re.search(r'let\s+(?:mut\s+)?%s\s*=\s*\|\s*([A-Za-z_][A-Za-z0-9_]*)\s*\|' % re.escape(name), text)
            u.relaxed.append('%s: rule R4 follows the renamed local closure `%s`' % (key, name))
        param = m.group(1)
        rest = text[m.end():]
        toks = tokenize(rest)
        match = rsparse.match_brackets_lenient(toks)
        if not toks or toks[0].text != '{':
            raise LostAnchor('%s: R4 closure %s has no block body' % (key, name))
        close = match[0]
        body = rest[toks[0].end:toks[close].start].strip()
        if toks[close + 1].text != ';':
            raise LostAnchor('%s: R4 closure %s not terminated by ;' % (key, name))
        # remove the definition (whole lines)
        ls = text.rfind('\n', 0, m.start()) + 1
        le = m.end() + toks[close + 1].end
        text = text[:ls] + '\t\t/* R4: closure `%s` inlined at its call sites */' % name + text[le:]
        # calls
        n = 0
        while True:
            mm = re.search(r'(?<![A-Za-z0-9_.])%s\s*\(' % re.escape(name), text)
            if not mm:
                break
            r2 = text[mm.end() - 1:]
            t2 = tokenize(r2)
            m2 = rsparse.match_brackets_lenient(t2)
            c2 = m2[0]
            arg = r2[t2[0].end:t2[c2].start].strip()
            text = text[:mm.start()] + '{ let %s = %s; %s }' % (param, arg, body) + text[mm.end() - 1 + t2[c2].end:]
            n += 1
        if n == 0:
            raise LostAnchor('%s: R4 closure %s is never called' % (key, name))
        u.rules['R4'] += 1
        return text
    return rule


def r17_for_enumerate(u, key, text):
    """R17: `for (I, X) in V.iter().enumerate() { BODY }` -> `let mut I = 0; while I < V.len() { let X = &V[I]; BODY I += 1; }`
    (only for bodies without `continue`)."""
    while True:
        m = re.search(r'for\s*\(\s*(\w+)\s*,\s*(\w+)\s*\)\s*in\s+([\w.]+)\.iter\(\)\.enumerate\(\)\s*\{', text)
        if not m:
            return text
        i, x, v = m.group(1), m.group(2), m.group(3)
        rest = text[m.end() - 1:]
        toks = tokenize(rest)
        match = rsparse.match_brackets_lenient(toks)
        close = match[0]
        body = rest[toks[0].end:toks[close].start]
        if re.search(r'\bcontinue\b', body):
            raise LostAnchor('%s: R17 body contains continue' % key)
        new = ('let mut %s: usize = 0;\n\t\twhile %s < %s.len()\n\t\t{\n\t\t\tlet %s = &%s[%s];%s\t%s += 1;\n\t\t}'
               % (i, i, v, x, v, i, body, i))
        text = text[:m.start()] + new + text[m.end() - 1 + toks[close].end:]
        u.rules['R17'] += 1


def r18_annotate(var, ty):
    """R18: `let [mut] VAR = E;` -> `let [mut] VAR: TY = E;`  (explicit type for a binding whose type rustc infers from
    later uses; Verus' spliced invariants mention the variable before those uses).  rustc rejects a wrong annotation."""
    def rule(u, key, text):
        pat = re.compile(r'(let\s+(?:mut\s+)?%s)(\s*=)' % re.escape(var))
        if not pat.search(text):
            return text
        u.rules['R18'] += 1
        return pat.sub(lambda m: '%s: %s%s' % (m.group(1), ty, m.group(2)), text, count=1)
    return rule


def r19_with_capacity(u, key, text):
    """R19: `Vec::with_capacity(n)` -> `vec_with_capacity(n)`: a trusted wrapper (prelude/delta_uninit.rs) around the same
    std call whose spec adds `vec_cap(v) == n` (vstd already specifies with_capacity, without the capacity; a second
    assume_specification is rejected as duplicate).  ASSUMPTION: the allocation has capacity exactly n (true of the pinned
    std for sized element types; the code's own assert_eq! on capacities relies on it)."""
    n = len(re.findall(r'\bVec::with_capacity\(', text))
    if n:
        u.rules['R19'] += n
        text = re.sub(r'\bVec::with_capacity\(', 'vec_with_capacity(', text)
    return text


def flatten_paths(mods):
    """single-file unit: `tokens::X` / `digits::X` module prefixes of sliced sibling modules are dropped"""
    def rule(u, key, text):
        for m in mods:
            n = len(re.findall(r'(?<![A-Za-z0-9_:])%s::' % m, text))
            if n:
                u.rules['module-path-flattened'] += n
                text = re.sub(r'(?<![A-Za-z0-9_:])%s::' % m, '', text)
        return text
    return rule


def r20_param_patterns(u, key, text):
    """R20: a tuple-struct pattern in parameter position `Name(x): Name` (unsupported by the Verus macro) becomes
    a plain parameter `r20_x: Name` and `let Name(x) = r20_x;` as first statement of the body."""
    head_end = text.index('{')
    head = text[:head_end]
    _h, _r, _w, _b = rsparse.fn_signature_split(text)
    head_end = len(text) - len(_b)
    head = text[:head_end]
    found = []

    def repl(m):
        found.append((m.group(1), m.group(2)))
        return 'r20_%s: %s' % (m.group(2), m.group(1))
    head2 = re.sub(r'\b([A-Z]\w*)\((\w+)\)\s*:\s*\1\b', repl, head)
    found2 = []

    def repl2(m):
        found2.append((m.group(1), m.group(2).strip()))
        return 'r20_s%d: %s' % (len(found2), m.group(1))
    head2 = re.sub(r'\b([A-Z]\w*)\s*\{([^{}]*)\}\s*:\s*\1\b', repl2, head2)
    if not found and not found2:
        return text
    lets = ''.join('\n\t\tlet %s(%s) = r20_%s;' % (ty, x, x) for ty, x in found)
    lets += ''.join('\n\t\tlet %s { %s } = r20_s%d;' % (ty, flds, k + 1) for k, (ty, flds) in enumerate(found2))
    found = found + found2
    u.rules['R20'] += len(found)
    return head2 + '{' + lets + text[head_end + 1:]


def r21_cmp_minmax(u, key, text):
    """R21: `std::cmp::max(a, b)` / `std::cmp::min(a, b)` on usize operands -> verified helpers usize_max / usize_min
    (core::cmp::{max,min} are generic over Ord; vstd has no spec for them)."""
    n = len(re.findall(r'\bstd::cmp::(max|min)\(', text))
    if n:
        u.rules['R21'] += n
        text = re.sub(r'\bstd::cmp::(max|min)\(', r'usize_\1(', text)
    return text


def r22_filter_count(ghost_pred):
    """R22: `S.iter().filter(|&&x| F(x)).count()` -> `slice_count(S, F, Ghost(P))` with the VERIFIED helper slice_count
    (prelude/slice_count.rs); P is the ghost predicate that the exec function F computes (checked by Verus at the call:
    F's postcondition must imply b == P(x))."""
    pat = re.compile(r'(\w+(?:\s*\.\s*\w+\(\))*?)\s*\.iter\(\)\s*\.filter\(\|&&(\w+)\|\s*(\w+)\(\2\)\)\s*\.count\(\)', re.S)

    def rule(u, key, text):
        m = pat.search(text)
        if not m:
            return text
        u.rules['R22'] += 1
        recv = re.sub(r'\s+', '', m.group(1))
        return text[:m.start()] + 'slice_count(%s, %s, Ghost(%s))' % (recv, m.group(3), ghost_pred) + text[m.end():]
    return rule


def r23_push_within_capacity(recv):
    """R23: `RECV.push(x)` directly after `assert!(RECV.len() < RECV.capacity())` -> `vec_push_within_capacity(RECV, x)`, a trusted
    wrapper around the same std call whose spec adds "the capacity is unchanged" (std: no reallocation when len < capacity;
    vstd's push spec is silent about the capacity)."""
    def rule(u, key, text):
        pat = re.compile(r'(assert!\(\(?%s\.len\(\)\)? < \(?%s\.capacity\(\)\)?\);\s*)%s\.push\((\w+)\);' % (re.escape(recv), re.escape(recv), re.escape(recv)))
        m = pat.search(text)
        if not m:
            return text
        u.rules['R23'] += 1
        return text[:m.start()] + m.group(1) + 'vec_push_within_capacity(&mut %s, %s);' % (recv, m.group(2)) + text[m.end():]
    return rule
