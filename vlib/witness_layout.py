"""Witness search for word layout (C11, E380): words with 1..5 integer members; the expected verdict follows from the
documented C-style layout (each member at the next multiple of its own size, total rounded up to the largest member
alignment): E380 exactly when the laid-out size exceeds the declared word size.  Real pipeline through replay mode alpha."""
import itertools
import time
from . import replayrun

SIZES = {'u8': 1, 'i8': 1, 'bool': 1, 'u16': 2, 'i16': 2, 'u32': 4, 'i32': 4, 'u64': 8, 'i64': 8}
WORDS = {'word8': 1, 'word16': 2, 'word32': 4, 'word64': 8, 'word128': 16}


def layout(members):
    off = 0
    al = 1
    for m in members:
        s = SIZES[m]
        off = (off + s - 1) // s * s + s
        al = max(al, s)
    return (off + al - 1) // al * al


def cases(rng):
    out = []
    tys = sorted(SIZES)
    for n in range(1, 6):
        combos = list(itertools.product(tys, repeat=n)) if n <= 2 else [tuple(rng.choice(tys) for _ in range(n)) for _ in range(160)]
        for ms in combos:
            size = layout(ms)
            for w, ws in WORDS.items():
                if abs(ws - size) > 8 and rng.random() < 0.7:
                    continue
                src = '%s W\n{\n%s}\n' % (w, ''.join('\tm%d: %s,\n' % (i, t) for i, t in enumerate(ms)))
                out.append((src, 'reject:380' if size > ws else 'accept', '%s { %s } lays out to %d bytes' % (w, ', '.join(ms), size)))
    rng.shuffle(out)
    return out[:900]


def verdict_ok(exp, r):
    if r.get('status') in ('timeout', 'build-failed', 'unknown'):
        return True    # inconclusive run (machine load, tool failure): never a mismatch
    if r.get('status') != 'ok':
        return False
    codes = [c for c in r['result'].get('errors', '[]').strip('[]').split(',') if c]
    if exp == 'accept':
        return '380' not in codes
    return '380' in codes


def search(deadline, rng):
    if replayrun.build()[0] is None:
        return None
    import concurrent.futures as cf

    def one(c):
        if time.time() > deadline:
            return None
        r = replayrun.run('alpha', c[0].encode(), timeout=20)
        return None if verdict_ok(c[1], r) else (c, r)

    with cf.ThreadPoolExecutor(12) as ex:
        for hit in ex.map(one, cases(rng)):
            if hit:
                (src, exp, what), r = hit
                return {'mode': 'alpha', 'input_utf8_lossy': src, 'input_hex': src.encode().hex(), 'observed': r,
                        'expected': '%s: %s (E380 exactly when the laid-out size exceeds the declared size)' % (what, exp),
                        'expect_verdict_layout': exp,
                        'how': 'replay_runner alpha <file>: error codes of the first-generation pipeline without the LLVM generator'}
    return None
