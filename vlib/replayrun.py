"""Builds and runs the replay runner (a scratch crate with a path dependency on the repo's working tree)."""
import os, subprocess, shutil, hashlib, tempfile
from .engine import VERIF, REPO, WORK, unit_lock

_built = {}
RUNS = [0]   # executions of the real code by this process (reported per bounded suite in the evidence)


def crate_dir():
    d = os.path.join(WORK, 'replay_runner')
    os.makedirs(os.path.join(d, 'src'), exist_ok=True)
    def put(path, text):
        # written only when different: an unchanged crate keeps its timestamps, so that a concurrent `cargo build` of another
        # check is a no-op and does not replace the binary while this process runs it
        try:
            if open(path).read() == text:
                return
        except OSError:
            pass
        open(path, 'w').write(text)
    put(os.path.join(d, 'src', 'main.rs'), open(os.path.join(VERIF, 'replay_runner', 'src', 'main.rs')).read())
    put(os.path.join(d, 'Cargo.toml'),
        '[package]\nname = "replay_runner"\nversion = "0.0.0"\nedition = "2021"\n\n[dependencies]\npenne = { path = "%s" }\nariadne = "0.6"\n\n[workspace]\n' % REPO)
    lock = os.path.join(REPO, 'Cargo.lock')
    return d


def build():
    if REPO in _built:
        return _built[REPO]
    with unit_lock('replay_runner_build'):
        d = crate_dir()
        # one target directory per work directory (a clean build of the library and the runner takes about 10 s and 225 MB)
        tdir = os.path.join(WORK, 'replay_target')
        env = dict(os.environ, CARGO_NET_OFFLINE='true', CARGO_TARGET_DIR=tdir, CARGO_INCREMENTAL='0')
        p = subprocess.run(['cargo', 'build', '--offline', '-q'], cwd=d, env=env, capture_output=True, text=True, timeout=1800)
        exe = os.path.join(tdir, 'debug', 'replay_runner')
        ok = p.returncode == 0 and os.path.exists(exe)
        _built[REPO] = (exe if ok else None, p.stderr[-2000:])
    return _built[REPO]


def run(mode, data, timeout=60):
    exe, err = build()
    if exe is None:
        return {'status': 'build-failed', 'detail': err}
    os.makedirs(WORK, exist_ok=True)
    fd, path = tempfile.mkstemp(dir=WORK, suffix='.pn')
    os.write(fd, data if isinstance(data, bytes) else data.encode())
    os.close(fd)
    RUNS[0] += 1
    try:
        for attempt in range(4):
            try:
                p = subprocess.run([exe, mode, path], capture_output=True, text=True, timeout=timeout)
                break
            except (FileNotFoundError, PermissionError, OSError) as e:
                if isinstance(e, subprocess.TimeoutExpired) or attempt == 3:
                    raise
                # another check is relinking the runner right now: wait for its build lock, then try again
                import time as _t
                with unit_lock('replay_runner_build'):
                    pass
                _t.sleep(0.2 * (attempt + 1))
        out = p.stdout.strip().split('\n')[-1] if p.stdout.strip() else ''
        if p.returncode != 0 and not out:
            return {'status': 'crash', 'detail': 'exit %d: %s' % (p.returncode, p.stderr[-300:])}
        if out.startswith('PANIC'):
            return {'status': 'panic', 'detail': out[6:]}
        if out.startswith('RESULT'):
            kv = dict(x.split('=', 1) for x in out[7:].split() if '=' in x)
            return {'status': 'ok', 'result': kv}
        return {'status': 'unknown', 'detail': (out or p.stderr)[-300:]}
    except subprocess.TimeoutExpired:
        # a timeout is believed only if it repeats with six times the budget (a loaded machine is not a hang)
        try:
            p = subprocess.run([exe, mode, path], capture_output=True, text=True, timeout=timeout * 6)
            out = p.stdout.strip().split('\n')[-1] if p.stdout.strip() else ''
            if out.startswith('RESULT'):
                kv = dict(x.split('=', 1) for x in out[7:].split() if '=' in x)
                return {'status': 'ok', 'result': kv, 'note': 'first attempt timed out after %ds' % timeout}
            if out.startswith('PANIC'):
                return {'status': 'panic', 'detail': out[6:]}
            if p.returncode != 0 and not out:
                return {'status': 'crash', 'detail': 'exit %d: %s' % (p.returncode, p.stderr[-300:])}
            return {'status': 'unknown', 'detail': (out or p.stderr)[-300:]}
        except subprocess.TimeoutExpired:
            return {'status': 'timeout', 'detail': 'timeout %ds, and again with %ds' % (timeout, timeout * 6)}
    finally:
        os.unlink(path)
