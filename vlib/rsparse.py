"""Minimal Rust tokenizer / item slicer (stdlib only).

Purpose: cut items (fn, impl, enum, struct, const, trait, ...) verbatim out of /repo sources, with
their line ranges, so that no repository code is ever typed by hand into /verif.  This is NOT a Rust
parser; it understands exactly as much lexical structure as is needed to match braces reliably:
line/block (nested) comments, string / raw string / byte string literals, char literals vs lifetimes.
"""
import re

IDENT_START = re.compile(r'[A-Za-z_]')
IDENT = re.compile(r'[A-Za-z_][A-Za-z0-9_]*')
NUM = re.compile(r'[0-9][A-Za-z0-9_]*(?:\.[0-9][A-Za-z0-9_]*)?')
RAWSTR = re.compile(r'b?r(#*)"')


class Tok:
    __slots__ = ('kind', 'text', 'start', 'end')

    def __init__(self, kind, text, start, end):
        self.kind = kind  # 'id' 'num' 'str' 'chr' 'life' 'p' (punct) 'com' (comment)
        self.text = text
        self.start = start
        self.end = end

    def __repr__(self):
        return 'Tok(%s,%r,%d)' % (self.kind, self.text, self.start)


def tokenize(src, keep_comments=False):
    toks = []
    i = 0
    n = len(src)
    while i < n:
        c = src[i]
        if c in ' \t\r\n':
            i += 1
            continue
        if src.startswith('//', i):
            j = src.find('\n', i)
            j = n if j < 0 else j
            if keep_comments:
                toks.append(Tok('com', src[i:j], i, j))
            i = j
            continue
        if src.startswith('/*', i):
            d = 1
            j = i + 2
            while j < n and d > 0:
                if src.startswith('/*', j):
                    d += 1
                    j += 2
                elif src.startswith('*/', j):
                    d -= 1
                    j += 2
                else:
                    j += 1
            if keep_comments:
                toks.append(Tok('com', src[i:j], i, j))
            i = j
            continue
        m = RAWSTR.match(src, i)
        if m and (i == 0 or not (src[i - 1].isalnum() or src[i - 1] == '_')):
            h = m.group(1)
            end = src.find('"' + h, m.end())
            if end < 0:
                raise ValueError('unterminated raw string at %d' % i)
            j = end + 1 + len(h)
            toks.append(Tok('str', src[i:j], i, j))
            i = j
            continue
        if c == '"' or (c == 'b' and src.startswith('b"', i)):
            j = i + 1 if c == '"' else i + 2
            while j < n and src[j] != '"':
                j += 2 if src[j] == '\\' else 1
            j += 1
            toks.append(Tok('str', src[i:j], i, j))
            i = j
            continue
        if c == "'" or (c == 'b' and src.startswith("b'", i)):
            k = i + 1 if c == "'" else i + 2
            if k < n and src[k] == '\\':
                j = src.find("'", k + 2)
                toks.append(Tok('chr', src[i:j + 1], i, j + 1))
                i = j + 1
                continue
            if k + 1 < n and src[k + 1] == "'":
                toks.append(Tok('chr', src[i:k + 2], i, k + 2))
                i = k + 2
                continue
            m2 = IDENT.match(src, k)
            if c == "'" and m2:
                toks.append(Tok('life', src[i:m2.end()], i, m2.end()))
                i = m2.end()
                continue
            # multibyte char literal
            j = src.find("'", k)
            toks.append(Tok('chr', src[i:j + 1], i, j + 1))
            i = j + 1
            continue
        if IDENT_START.match(c):
            m = IDENT.match(src, i)
            toks.append(Tok('id', m.group(0), i, m.end()))
            i = m.end()
            continue
        if c.isdigit():
            m = NUM.match(src, i)
            # do not swallow range operators: `0..9`
            txt = m.group(0)
            toks.append(Tok('num', txt, i, i + len(txt)))
            i += len(txt)
            continue
        toks.append(Tok('p', c, i, i + 1))
        i += 1
    return toks


OPEN = {'(': ')', '[': ']', '{': '}'}
CLOSE = {')': '(', ']': '[', '}': '{'}


def match_brackets(toks):
    """returns dict index->matching index for ( [ { tokens"""
    stack = []
    match = {}
    for idx, t in enumerate(toks):
        if t.kind != 'p':
            continue
        if t.text in OPEN:
            stack.append(idx)
        elif t.text in CLOSE:
            if not stack:
                raise ValueError('unbalanced close at %d' % t.start)
            o = stack.pop()
            if OPEN[toks[o].text] != t.text:
                raise ValueError('mismatched bracket at %d' % t.start)
            match[o] = idx
            match[idx] = o
    if stack:
        raise ValueError('unbalanced open at %d' % toks[stack[-1]].start)
    return match


def match_brackets_lenient(toks):
    """like match_brackets but tolerates unmatched closers (used on text suffixes)"""
    stack = []
    match = {}
    for idx, t in enumerate(toks):
        if t.kind != 'p':
            continue
        if t.text in OPEN:
            stack.append(idx)
        elif t.text in CLOSE:
            if stack and OPEN[toks[stack[-1]].text] == t.text:
                o = stack.pop()
                match[o] = idx
                match[idx] = o
    return match


class LostAnchor(Exception):
    pass


ITEM_KW = ('fn', 'struct', 'enum', 'trait', 'impl', 'const', 'static', 'type', 'mod', 'use', 'union')
QUALIFIERS = ('pub', 'unsafe', 'async', 'extern', 'default', 'const')


class Item:
    def __init__(self, src, kind, name, header, start, end, body_open, body_close, children=None):
        self.src = src  # Source
        self.kind = kind
        self.name = name
        self.header = header  # normalized header text (whitespace collapsed)
        self.start = start  # char offsets incl. attributes / doc comments
        self.end = end
        self.body_open = body_open  # char offset of '{' or None
        self.body_close = body_close
        self.children = children or []

    @property
    def text(self):
        return self.src.text[self.start:self.end]

    @property
    def lines(self):
        return (self.src.line_of(self.start), self.src.line_of(self.end - 1))

    def child(self, kind, name):
        r = [c for c in self.children if c.kind == kind and c.name == name]
        if len(r) != 1:
            raise LostAnchor('%s: %d matches for %s %s in %s' % (self.src.path, len(r), kind, name, self.header))
        return r[0]

    def __repr__(self):
        return 'Item(%s %s @%s)' % (self.kind, self.name, self.lines)


def norm_ws(s):
    return re.sub(r'\s+', ' ', s).strip()


class Source:
    def __init__(self, path, text=None):
        self.path = path
        self.text = open(path).read() if text is None else text
        self.toks = tokenize(self.text)
        self.match = match_brackets(self.toks)
        self._nl = [i for i, ch in enumerate(self.text) if ch == '\n']
        self.items = self._items(0, len(self.toks))

    def line_of(self, off):
        import bisect
        return bisect.bisect_left(self._nl, off) + 1

    # ---- item scanning over a token range (top level of a file / impl / trait / mod body)
    def _items(self, lo, hi):
        toks = self.toks
        items = []
        i = lo
        item_start_tok = None  # first token of attrs/qualifiers
        while i < hi:
            t = toks[i]
            if item_start_tok is None:
                item_start_tok = i
            if t.kind == 'p' and t.text == '#':
                # attribute: # [ ... ]  or # ! [ ... ]
                j = i + 1
                if toks[j].text == '!':
                    j += 1
                assert toks[j].text == '[', (self.path, t.start)
                i = self.match[j] + 1
                if toks[i - 1 if False else j - 1].text == '!':
                    item_start_tok = None
                continue
            if t.kind == 'id' and t.text in QUALIFIERS and not (t.text == 'const' and self._is_const_item(i)):
                i += 1
                if t.text == 'pub' and toks[i].text == '(':
                    i = self.match[i] + 1
                if t.text == 'extern' and toks[i].kind == 'str':
                    i += 1
                continue
            if t.kind == 'id' and t.text in ITEM_KW:
                it, i = self._one_item(item_start_tok, i, hi)
                items.append(it)
                item_start_tok = None
                continue
            if t.kind == 'id' and toks[i + 1].text == '!':
                # macro invocation item: name ! ( ... ) ; or { ... }
                j = i + 2
                if toks[j].kind == 'id':
                    j += 1
                e = self.match[j]
                i = e + 1
                if i < hi and toks[i].text == ';':
                    i += 1
                item_start_tok = None
                continue
            if t.kind == 'p' and t.text == ';':
                i += 1
                item_start_tok = None
                continue
            raise ValueError('%s: unexpected token %r at line %d' % (self.path, t.text, self.line_of(t.start)))
        return items

    def _is_const_item(self, i):
        # `const NAME :` or `const _ :` is an item, `const fn` / `const unsafe fn` is a qualifier
        nxt = self.toks[i + 1]
        return nxt.kind == 'id' and nxt.text not in ('fn', 'unsafe', 'extern', 'async')

    def _start_offset(self, tok_idx):
        """char offset where the item starting at token tok_idx begins, extended backwards over
        directly preceding comment lines (doc comments) and to the beginning of the line."""
        off = self.toks[tok_idx].start
        # go to line start
        ls = self.text.rfind('\n', 0, off) + 1
        if self.text[ls:off].strip() == '':
            off = ls
        # absorb preceding `///` or `//` comment lines
        while True:
            pe = off - 1
            if pe <= 0:
                break
            pls = self.text.rfind('\n', 0, pe) + 1
            line = self.text[pls:pe]
            if line.strip().startswith('//'):
                off = pls
            else:
                break
        return off

    def _one_item(self, start_tok, kw_idx, hi):
        toks = self.toks
        kw = toks[kw_idx].text
        # find end: first `;` or `{...}` at depth 0 after kw (skipping bracket groups)
        j = kw_idx + 1
        name = None
        if kw in ('fn', 'struct', 'enum', 'trait', 'const', 'static', 'type', 'mod', 'union'):
            name = toks[j].text
        body_open = body_close = None
        children = []
        eq_seen = False
        while j < hi:
            t = toks[j]
            if t.kind == 'p' and t.text in ('(', '['):
                j = self.match[j] + 1
                continue
            if t.kind == 'p' and t.text == '=' and kw in ('const', 'static', 'type'):
                eq_seen = True
            if t.kind == 'p' and t.text == '{':
                if eq_seen:
                    j = self.match[j] + 1
                    continue
                body_open = j
                body_close = self.match[j]
                j = body_close + 1
                # struct Foo { .. } has no trailing ;   (tuple structs end by ;)
                break
            if t.kind == 'p' and t.text == ';':
                j += 1
                break
            j += 1
        end_tok = j - 1
        start = self._start_offset(start_tok)
        end = toks[end_tok].end
        hdr_end = toks[body_open].start if body_open is not None else toks[end_tok].start
        header = norm_ws(self.text[toks[kw_idx].start:hdr_end]).rstrip(',').strip()
        if kw == 'impl':
            name = header
        if kw in ('impl', 'trait', 'mod') and body_open is not None:
            children = self._items(body_open + 1, body_close)
        it = Item(self, kw, name, header, start, end,
                  toks[body_open].start if body_open is not None else None,
                  toks[body_close].start if body_close is not None else None, children)
        return it, j

    # ---- addressing
    def find(self, spec):
        """spec examples:
             'fn align'                         top-level fn
             'enum ValueType'
             'impl Analyzable for Block'        whole impl (header matched modulo whitespace,
                                                generics kept: 'impl<I> ValueType<I> where I: Identifier')
             'impl Analyzer :: fn use_label'    item inside impl
           A header may be given as a prefix followed by '*'."""
        parts = [p.strip() for p in spec.split('::fn ')] if False else None
        path = [p.strip() for p in re.split(r'\s+::\s+', spec.strip())]
        items = self.items
        cur = None
        for p in path:
            nth = None
            m_n = re.search(r'\s#(\d+)$', p)
            if m_n:
                nth = int(m_n.group(1))
                p = p[:m_n.start()].strip()
            kind = re.match(r'[a-z]+', p).group(0)
            rest = p[len(kind):].strip()
            cands = []
            for it in items:
                if it.kind != kind:
                    continue
                if kind == 'impl':
                    h = it.header
                    if p.endswith('*'):
                        if h.startswith(p[:-1].strip()):
                            cands.append(it)
                    elif h == norm_ws(p):
                        cands.append(it)
                elif it.name == rest:
                    cands.append(it)
            if nth is not None:
                if nth >= len(cands):
                    raise LostAnchor('%s: only %d matches for %r, #%d wanted' % (self.path, len(cands), p, nth))
                cands = [cands[nth]]
            if len(cands) != 1:
                raise LostAnchor('%s: %d matches for %r (of %r)' % (self.path, len(cands), p, spec))
            cur = cands[0]
            items = cur.children
        return cur


def fn_signature_split(text):
    """for the text of one fn item: returns (head, ret, where, body) where
    head = everything up to and including the closing paren of the parameter list,
    ret = return type text without '->' (or None), where = where clause text incl. 'where' (or ''),
    body = '{ ... }' text.  Text before `fn` (attrs, qualifiers) is part of head."""
    toks = tokenize(text)
    match = match_brackets(toks)
    k = None
    for idx, t in enumerate(toks):
        if t.kind == 'id' and t.text == 'fn':
            k = idx
            break
        if t.kind == 'p' and t.text in ('(', '[', '{'):
            # attribute brackets: skip
            pass
    assert k is not None
    # generics: skip < ... > after name (count angle depth; no shifts in signatures)
    j = k + 2
    if toks[j].text == '<':
        d = 0
        while True:
            if toks[j].text == '<':
                d += 1
            elif toks[j].text == '>' and toks[j - 1].text != '-':
                d -= 1
                if d == 0:
                    j += 1
                    break
            j += 1
    assert toks[j].text == '(', (toks[j], text[:200])
    pclose = match[j]
    head = text[:toks[pclose].end]
    j = pclose + 1
    ret = None
    where = ''
    # find body open: first '{' at depth 0 not inside brackets
    b = j
    while not (toks[b].kind == 'p' and toks[b].text == '{'):
        if toks[b].kind == 'p' and toks[b].text in ('(', '['):
            b = match[b] + 1
        else:
            b += 1
    w = None
    for q in range(j, b):
        if toks[q].kind == 'id' and toks[q].text == 'where':
            w = q
            break
    sig_end = toks[w].start if w is not None else toks[b].start
    if toks[j].text == '-' and toks[j + 1].text == '>':
        ret = text[toks[j + 1].end:sig_end].strip()
    if w is not None:
        where = text[toks[w].start:toks[b].start].strip()
    body = text[toks[b].start:]
    return head, ret, where, body


def find_loops(body_text):
    """returns list of (kw_start, header_text_normalized, body_open_offset) for every loop in textual
    order inside body_text (closures and nested fns included)."""
    toks = tokenize(body_text)
    match = match_brackets(toks)
    res = []
    for idx, t in enumerate(toks):
        if t.kind == 'id' and t.text in ('loop', 'while', 'for'):
            if t.text == 'for' and idx > 0 and toks[idx - 1].text in ('impl', '>') and False:
                continue
            # `for<'a>` HRTB or `impl X for Y` cannot occur inside fn bodies we slice; guard anyway
            if t.text == 'for' and toks[idx + 1].text == '<':
                continue
            j = idx + 1
            while not (toks[j].kind == 'p' and toks[j].text == '{'):
                if toks[j].kind == 'p' and toks[j].text in ('(', '['):
                    j = match[j] + 1
                else:
                    j += 1
            res.append((t.start, norm_ws(body_text[t.start:toks[j].start]), toks[j].start))
    return res


if __name__ == '__main__':
    import glob, sys
    tot = 0
    for f in sorted(glob.glob('/repo/src/**/*.rs', recursive=True)):
        s = Source(f)

        def count(items):
            c = 0
            for it in items:
                if it.kind == 'fn':
                    c += 1
                c += count(it.children)
            return c
        n = count(s.items)
        tot += n
        print(f.replace('/repo/src/', ''), 'items', len(s.items), 'fns', n)
    print('total fns', tot)
