"""Bounded stand-in for the traversal and goto-pruning half of C05 (the Analyzable impls and prepare_to_prune_at_goto /
prune_at_label of src/alpha/scoper/variable_references.rs keep their state in HashMap/HashSet with entry/retain closures and
are not under contract): random function bodies built from nested blocks, typed declarations, uses, labels, conditional
gotos, if/else and loops.  The expected verdict is computed BY AN INDEPENDENT ORACLE from the property statement, not from
the compiler's algorithm:
  * E402 - a use whose name has no textually earlier declaration in the same or an enclosing block (constants: anywhere);
  * E422 - a declaration whose name is visible at that point (variable, parameter or constant);
  * E482 - a use that some control-flow path from the function entry reaches without passing the declaration it names
           (one forward pass of a definitely-declared dataflow over the control-flow graph: intersection at labels over the
           fall-through edge and every goto edge; the compiler instead intersects in-scope sets per label and prunes a layer).
Generated bodies contain no unreachable statement (an unconditional goto only ends an if-block, a loop block is followed
by its exit label), so the path-based and the syntactic reading of "a forward jump can skip the declaration" coincide.
Real pipeline through replay mode alpha (lexer, parser, expander, scoper, typer, analyzer, linter, resolver)."""
import time
from . import replayrun

PARAMS = ['p0', 'p1']
CONSTS = ['K0', 'K1']     # K0 is declared before the function, K1 after it: constants are visible throughout the module
VARS = ['v0', 'v1', 'v2', 'v3', 'v4', 'v5', 'v6', 'v7']


class G:
    def __init__(self, rng, size):
        self.rng = rng
        self.budget = size
        self.nlabel = 0
        self.ndecl = 0
        self.scopes = [[]]      # names declared so far, per open block: most uses name a visible variable, most declarations a free name

    def visible(self):
        return [n for sc in self.scopes for n in sc]

    def use_name(self):
        r = self.rng
        vis = self.visible()
        if r.random() < 0.03:
            return r.choice(VARS)       # possibly not visible
        return r.choice(vis) if vis else 'acc'

    def decl_name(self):
        r = self.rng
        free = [n for n in VARS if n not in self.visible()]
        if free and r.random() < 0.96:
            return r.choice(free)
        return r.choice(VARS + PARAMS[:1] + CONSTS[:1])

    def fresh_label(self):
        self.nlabel += 1
        return 'l%d' % self.nlabel

    def expr(self):
        r = self.rng
        atoms = []
        for _ in range(r.choice([1, 1, 2, 3])):
            k = r.random()
            if k < 0.25:
                atoms.append(('lit', str(r.randint(0, 9))))
            elif k < 0.40:
                atoms.append(('name', r.choice(PARAMS + CONSTS)))
            elif k < 0.55:
                atoms.append(('name', 'acc'))
            else:
                atoms.append(('name', self.use_name()))
        return atoms

    def block(self, depth, avail, top=False):
        """list of statements; avail = labels that a goto placed here may target (later in an enclosing block)"""
        r = self.rng
        n = r.randint(2, 6) if top else r.choice([0, 1, 2, 2, 3, 3, 4])      # nested blocks may be empty
        kinds = []
        for _ in range(n):
            k = r.random()
            if k < 0.28:
                kinds.append('decl')
            elif k < 0.40:
                kinds.append('assign')
            elif k < 0.58:
                kinds.append('ifgoto')
            elif k < 0.72:
                kinds.append('label')
            elif k < 0.82 and depth < 3:
                kinds.append('block')
            elif k < 0.94 and depth < 3:
                kinds.append('if')
            elif depth < 3:
                kinds.append('loopblock')
            else:
                kinds.append('assign')
        # a loop block is immediately followed by its exit label
        out = []
        for k in kinds:
            out.append([k, None])
            if k == 'loopblock':
                out.append(['label', None])
        for s in out:
            if s[0] == 'label':
                s[1] = self.fresh_label()
        stmts = []
        self.scopes.append([])
        for i, (k, lab) in enumerate(out):
            later = [l for (kk, l) in out[i + 1:] if kk == 'label']
            here = later + avail
            self.budget -= 1
            if self.budget < 0 and k not in ('label',):
                k = 'assign'
            if k == 'decl':
                self.ndecl += 1
                e = self.expr()
                n = self.decl_name()
                stmts.append(('decl', n, e, self.ndecl))
                self.scopes[-1].append(n)
            elif k == 'assign':
                stmts.append(('assign', self.use_name() if r.random() < 0.7 else 'acc', self.expr()))
            elif k == 'ifgoto':
                if here:
                    stmts.append(('ifgoto', r.choice(PARAMS), r.randint(0, 5), r.choice(here)))
                else:
                    stmts.append(('assign', 'acc', self.expr()))
            elif k == 'label':
                stmts.append(('label', lab))
                stmts.append(('assign', 'acc', [('name', 'acc'), ('name', self.use_name())]))    # a label is always followed by a statement
            elif k == 'block':
                stmts.append(('block', self.block(depth + 1, here)))
            elif k == 'if':
                then = self.block(depth + 1, here)
                if here and r.random() < 0.3:
                    then.append(('goto', r.choice(here)))     # an unconditional goto only as the last statement of an if-block
                els = self.block(depth + 1, here) if r.random() < 0.35 else None
                stmts.append(('if', r.choice(PARAMS), r.randint(0, 5), then, els))
            elif k == 'loopblock':
                exit_label = out[i + 1][1]
                body = self.block(depth + 1, [exit_label] + here)
                # make sure there is a way out, then loop
                body.insert(r.randint(0, len(body)), ('ifgoto', r.choice(PARAMS), r.randint(0, 5), exit_label))
                body.append(('loop',))
                stmts.append(('block', body))
        self.scopes.pop()
        return stmts


def render_expr(atoms):
    return ' + '.join(a[1] for a in atoms)


def render_block(stmts, ind):
    t = '\t' * ind
    out = ''
    for s in stmts:
        k = s[0]
        if k == 'decl':
            out += '%svar %s: i32 = %s;\n' % (t, s[1], render_expr(s[2]))
        elif k == 'declarr':
            out += '%svar %s: [2]i32 = [1, 2];\n' % (t, s[1])
        elif k == 'assign':
            out += '%s%s = %s;\n' % (t, s[1], render_expr(s[2]))
        elif k == 'ifgoto':
            out += '%sif %s == %d\n%s\tgoto %s;\n' % (t, s[1], s[2], t, s[3])
        elif k == 'goto':
            out += '%sgoto %s;\n' % (t, s[1])
        elif k == 'label':
            out += '%s%s:\n' % (t, s[1])
        elif k == 'loop':
            out += '%sloop;\n' % t
        elif k == 'block':
            out += '%s{\n%s%s}\n' % (t, render_block(s[1], ind + 1), t)
        elif k == 'if':
            out += '%sif %s == %d\n%s{\n%s%s}\n' % (t, s[1], s[2], t, render_block(s[3], ind + 1), t)
            if s[4] is not None:
                out += '%selse\n%s{\n%s%s}\n' % (t, t, render_block(s[4], ind + 1), t)
    return out


def render(body):
    return ('const K0: i32 = 7;\n\nfn f(p0: i32, p1: i32) -> i32\n{\n\tvar acc: i32 = 0;\n' + render_block(body, 1)
            + '\treturn: acc\n}\n\nconst K1: i32 = 9;\n')


class Oracle:
    """expected error codes of a body, from the property statement (see module docstring)"""

    def __init__(self):
        self.expect = set()
        self.may = set()                    # codes that may or may not be reported next to the expected ones (see stmt: decl)
        self.why = []
        self.dups = False
        self.scopes = [{'acc': 0}]          # name -> declaration id; parameters and constants are checked separately
        self.pending = {}                   # label -> list of definitely-declared sets carried by the gotos seen so far

    def visible(self, name):
        for sc in reversed(self.scopes):
            if name in sc:
                return sc[name]
        return None

    def use(self, name, cur, optional=False):
        if name in PARAMS or name in CONSTS:
            return
        d = self.visible(name)
        if d is None:
            (self.may if optional else self.expect).add('402')
            self.why.append('use of %s without a visible declaration' % name)
        elif cur is not None and d not in cur:
            (self.may if optional else self.expect).add('482')
            self.why.append('use of %s (declaration #%d) reachable on a path that skips the declaration' % (name, d))

    def block(self, stmts, cur):
        self.scopes.append({})
        for s in stmts:
            cur = self.stmt(s, cur)
        self.scopes.pop()
        return cur

    @staticmethod
    def meet(a, b):
        if a is None:
            return b
        if b is None:
            return a
        return a & b

    def stmt(self, s, cur):
        k = s[0]
        if k == 'decl':
            name = s[1]
            dup = name in PARAMS or name in CONSTS or self.visible(name) is not None
            # the compiler replaces a rejected declaration by its E422 alone: errors of its initial value may be left unreported
            for a in s[2]:
                if a[0] == 'name':
                    self.use(a[1], cur, optional=dup)
            if dup:
                self.expect.add('422')
                self.dups = True
                self.why.append('declaration of %s while that name is visible' % name)
            self.scopes[-1][name] = s[3]
            return None if cur is None else cur | {s[3]}
        if k == 'declarr':
            if s[1] in PARAMS or s[1] in CONSTS or self.visible(s[1]) is not None:
                self.expect.add('422')
                self.dups = True
            self.scopes[-1][s[1]] = s[2]
            return None if cur is None else cur | {s[2]}
        if k == 'assign':
            self.use(s[1], cur)
            for a in s[2]:
                if a[0] == 'name':
                    self.use(a[1], cur)
            return cur
        if k == 'ifgoto':
            self.use(s[1], cur)
            if cur is not None:
                self.pending.setdefault(s[3], []).append(cur)
            return cur
        if k == 'goto':
            if cur is not None:
                self.pending.setdefault(s[1], []).append(cur)
            return None
        if k == 'label':
            for p in self.pending.pop(s[1], []):
                cur = self.meet(cur, p)
            return cur
        if k == 'loop':
            return None
        if k == 'block':
            return self.block(s[1], cur)
        if k == 'if':
            self.use(s[1], cur)
            a = self.block(s[3], cur)
            b = self.block(s[4], cur) if s[4] is not None else cur
            return self.meet(a, b)
        raise ValueError(k)


def expected(body):
    o = Oracle()
    o.block(body, frozenset([0]))
    return o


def judge(o, r):
    """None if the observed verdict agrees with the oracle, else a description"""
    if r.get('status') in ('timeout', 'build-failed', 'unknown'):
        return None    # inconclusive run: never a mismatch
    if r.get('status') != 'ok':
        return 'pipeline %s: %s' % (r.get('status'), r.get('detail'))
    codes = set(c for c in r['result'].get('errors', '[]').strip('[]').split(',') if c)
    exp = set(o.expect)
    relevant = {'402', '422', '424', '482'}
    if not exp:
        # "programs without them are not rejected on these grounds": only the scoping codes count here, other errors are other properties' business
        return None if not (codes & relevant) else 'the body breaks none of the scoping rules and must not be rejected on these grounds, got errors %s' % sorted(codes)
    if not codes:
        return 'the body must be rejected (%s), got no error' % '; '.join(o.why[:3])
    want = set(exp)
    got = codes & relevant
    may = set(o.may)
    if o.dups:
        # which declaration a later use names is ambiguous once a name is declared twice (and a use that then names a constant
        # or parameter can draw errors of later stages that replace the statement with its other errors): only the E422 is required
        may |= want | {'482'}
        want = want & {'422', '424'}
    if not (want <= got and got <= (want | may)):
        return 'expected the scoping errors %s%s (%s), got %s' % (sorted(want), (' and possibly %s' % sorted(may - want)) if may - want else '', '; '.join(o.why[:3]), sorted(codes))
    return None


FIXED = [
    # (source, expected codes, what)
    ('fn f(x: i32, x: i32) -> i32\n{\n\treturn: x\n}\n', {'424'}, 'two parameters with the same name'),
    ('const x: i32 = 1;\n\nfn f(x: i32) -> i32\n{\n\treturn: x\n}\n', {'424'}, 'a parameter named like a constant'),
    ('fn f(x: i32) -> i32\n{\n\treturn: x\n}\n\nconst x: i32 = 1;\n', {'424'}, 'a parameter named like a constant declared later in the module'),
    ('fn f(x: i32) -> i32\n{\n\tvar y: i32 = x;\n\treturn: y\n}\n\nfn g(x: i32) -> i32\n{\n\tvar y: i32 = x;\n\treturn: y\n}\n', set(), 'the same names in two functions'),
    ('fn f() -> i32\n{\n\tvar y: i32 = 1;\n\treturn: y\n}\n\nfn g() -> i32\n{\n\treturn: y\n}\n', {'402'}, 'a variable of another function'),
    ('fn f(x: i32) -> i32\n{\n\tvar y: i32 = y;\n\treturn: x\n}\n', {'402'}, 'a variable used in its own initial value'),
    ('fn f(x: i32) -> i32\n{\n\tvar r: i32 = 0;\n\tif x == 1\n\t\tgoto return;\n\tvar a: i32 = 2;\n\tr = a;\n\treturn: a\n}\n', {'482'}, 'goto return skips a declaration used in the return value'),
    ('fn f(x: i32) -> i32\n{\n\tvar r: i32 = 0;\n\tif x == 1\n\t\tgoto return;\n\tvar a: i32 = 2;\n\tr = a;\n\treturn: r\n}\n', set(), 'goto return skips a declaration that is not used afterwards'),
    ('fn f(x: i32) -> i32\n{\n\tvar r: i32 = 0;\n\t{\n\t\tif x == 1\n\t\t\tgoto next;\n\t}\n\tvar a: i32 = 2;\n\tnext:\n\t{\n\t\t{\n\t\t\tr = a;\n\t\t}\n\t}\n\treturn: r\n}\n', {'482'}, 'jump out of a block over a declaration, use in a nested block'),
    ('fn f(x: i32) -> i32\n{\n\tvar r: i32 = 0;\n\tif x == 1\n\t\tgoto next;\n\tvar a: i32 = 2;\n\tnext:\n\tvar a: i32 = 3;\n\treturn: r\n}\n', {'422'}, 'a skipped declaration still occupies its name'),
    ('fn f(x: i32) -> i32\n{\n\tvar r: i32 = 0;\n\tvar a: i32 = 2;\n\tif x == 1\n\t\tgoto next;\n\tif x == 2\n\t\tgoto next;\n\tvar b: i32 = 2;\n\tnext:\n\tr = a;\n\treturn: r\n}\n', set(), 'two gotos, the used variable is declared before both'),
    ('fn f(x: i32) -> i32\n{\n\tvar r: i32 = 0;\n\tif x == 1\n\t\tgoto next;\n\tvar a: i32 = 2;\n\tif x == 2\n\t\tgoto next;\n\tnext:\n\tr = a;\n\treturn: r\n}\n', {'482'}, 'two gotos, the first one skips the declaration'),
    ('fn f(x: i32) -> i32\n{\n\tvar r: i32 = 0;\n\tvar a: i32 = 2;\n\tif x == 2\n\t\tgoto next;\n\tvar b: i32 = 2;\n\tif x == 1\n\t\tgoto next;\n\tnext:\n\tr = b;\n\treturn: r\n}\n', {'482'}, 'two gotos, only the first one skips the declaration'),
    ('fn f(x: i32) -> i32\n{\n\tvar r: i32 = 0;\n\tif x == 1\n\t\tgoto a;\n\tvar v: i32 = 2;\n\ta:\n\tr = 1;\n\tif x == 2\n\t\tgoto b;\n\tr = 2;\n\tb:\n\tr = v;\n\treturn: r\n}\n', {'482'}, 'the doubt survives a second label'),
    # the parameters of a function head WITHOUT body live in a scope of their own, like those of a function with a body
    ('extern fn h(p: i32);\n\nfn f() -> i32\n{\n\treturn: p\n}\n', {'402'}, 'a parameter of a function head without body is not visible in a later function'),
    ('extern fn h(p: i32);\n\nfn f(p: i32) -> i32\n{\n\treturn: p\n}\n', set(), 'a later parameter may reuse the name of a parameter of a function head without body'),
    ('extern fn h(p: i32);\nextern fn k(p: i32);\n\nfn f() -> i32\n{\n\tvar p: i32 = 1;\n\treturn: p\n}\n', set(), 'two function heads and a later local variable share a parameter name'),
    ('fn f() -> i32\n{\n\tvar p: i32 = 1;\n\treturn: p\n}\n\nextern fn h(p: i32);\n\nfn g() -> i32\n{\n\treturn: p\n}\n', {'402'}, 'a function head between two functions leaks nothing'),
]


def skip_family():
    """the doubt about a skipped declaration must reach the first use whatever stands in between: goto placement x declaration
    before/after the goto x what stands between the label and the use x where the use stands (400 bodies, verdict by the oracle)"""
    one = [('lit', '1')]
    bump = ('assign', 'acc', [('name', 'acc'), ('lit', '1')])
    gotos = {
        'same block': [('ifgoto', 'p0', 1, 'l1')],
        'nested block': [('block', [('ifgoto', 'p0', 1, 'l1')])],
        'doubly nested block': [('block', [bump, ('block', [('ifgoto', 'p0', 1, 'l1')])])],
        'closing goto of an if-block': [('if', 'p1', 2, [bump, ('goto', 'l1')], None)],
        'nested block that has a local of the same name': [('block', [('decl', 'v0', one, 903), ('ifgoto', 'p0', 1, 'l1'), ('assign', 'acc', [('name', 'v0')])])],
    }
    interludes = {
        'nothing': [],
        'an empty block': [('block', [])],
        'a block': [('block', [bump])],
        'an if-block': [('if', 'p1', 3, [bump], None)],
        'an if/else with an empty branch': [('if', 'p1', 3, [], [bump])],
        'a second label': [('ifgoto', 'p1', 4, 'l2'), ('label', 'l2'), bump],
        'a block with its own variable': [('block', [('decl', 'v1', one, 901), ('assign', 'acc', [('name', 'v1')])])],
        'an array declaration': [('declarr', 'v2', 902)],
        'nested empty blocks': [('block', [('block', [])])],
        'a loop block': [('block', [('ifgoto', 'p1', 9, 'l9'), bump, ('loop',)]), ('label', 'l9'), bump],
    }
    uses = {
        'a plain use': [('assign', 'acc', [('name', 'acc'), ('name', 'v0')])],
        'a use in a nested block': [('block', [('assign', 'acc', [('name', 'v0')])])],
        'a use in a condition': [('if', 'v0', 1, [bump], None)],
        'an assignment to it, then a second use': [('assign', 'v0', [('lit', '3')]), ('assign', 'acc', [('name', 'v0')])],
    }
    for gn, g in gotos.items():
        for skipped in (True, False):
            for inn, it in interludes.items():
                for un, us in uses.items():
                    d = [('decl', 'v0', one, 900)]
                    body = (g + d if skipped else d + g) + [('label', 'l1'), bump] + it + us
                    yield body, 'goto in %s, declaration %s the goto, then %s, then %s' % (gn, 'after' if skipped else 'before', inn, un)


def exhaustive(maxlen):
    """every body of <= maxlen items over {declare a, declare b, use a, use b, conditional goto l1, label l1, open block, close block}
    with balanced blocks, at most one label, and every goto before the label in the label's block or one nested in it"""
    import itertools
    alpha = ['Da', 'Db', 'Ua', 'Ub', 'G', 'L', '{', '}']
    ndecl = [0]

    def build(seq):
        stack = [[]]
        # positions: a goto is valid iff the label comes later and the label's block encloses the goto
        open_blocks = [0]          # ids of the blocks open at each point
        nblock = 0
        goto_blocks = []
        label_block = None
        for t in seq:
            if t == '{':
                nblock += 1
                open_blocks.append(nblock)
                stack.append([])
            elif t == '}':
                if len(stack) == 1:
                    return None
                b = stack.pop()
                open_blocks.pop()
                stack[-1].append(('block', b))      # possibly empty
            elif t == 'G':
                if label_block is not None:
                    return None     # goto after the label: a backward jump
                goto_blocks.append(list(open_blocks))
                stack[-1].append(('ifgoto', 'p0', 1, 'l1'))
            elif t == 'L':
                if label_block is not None:
                    return None
                label_block = open_blocks[-1]
                if any(label_block not in g for g in goto_blocks):
                    return None     # a jump into a block that does not enclose the goto
                stack[-1].append(('label', 'l1'))
                stack[-1].append(('assign', 'acc', [('name', 'acc'), ('lit', '1')]))
            elif t[0] == 'D':
                ndecl[0] += 1
                stack[-1].append(('decl', 'v' + t[1], [('lit', '1')], ndecl[0]))
            else:
                stack[-1].append(('assign', 'acc', [('name', 'acc'), ('name', 'v' + t[1])]))
        if len(stack) != 1 or (goto_blocks and label_block is None):
            return None
        return stack[0]

    for n in range(1, maxlen + 1):
        for seq in itertools.product(alpha, repeat=n):
            b = build(seq)
            if b is not None:
                yield b


def search(deadline, rng, bodies=400, exhaustive_len=0):
    if replayrun.build()[0] is None:
        return None
    import concurrent.futures as cf
    cases = []
    for src, exp, what in FIXED:
        o = Oracle()
        o.expect = set(exp)
        o.why = [what]
        cases.append((src, o))
    for body, what in skip_family():
        o = expected(body)
        o.why = [what] + o.why
        cases.append((render(body), o))
    for i in range(bodies):
        g = G(rng, rng.choice([6, 10, 16, 24]))
        body = g.block(0, ['return'], top=True)
        cases.append((render(body), expected(body)))
    for body in (exhaustive(exhaustive_len) if exhaustive_len else ()):
        cases.append((render(body), expected(body)))

    def one(c):
        if time.time() > deadline:
            return None
        r = replayrun.run('alpha', c[0].encode(), timeout=20)
        m = judge(c[1], r)
        return (c, r, m) if m else None

    with cf.ThreadPoolExecutor(12) as ex:
        for hit in ex.map(one, cases):
            if hit:
                (src, o), r, m = hit
                return {'mode': 'alpha', 'input_utf8_lossy': src, 'input_hex': src.encode().hex(), 'observed': r,
                        'expected': m, 'expect_scope': {'codes': sorted(o.expect), 'may': sorted(o.may), 'dups': o.dups, 'why': o.why[:5]},
                        'how': 'replay_runner alpha <file>: error codes of the first-generation pipeline without the LLVM generator'}
    return None


def replay_ok(w, r):
    o = Oracle()
    o.expect = set(w['expect_scope']['codes'])
    o.may = set(w['expect_scope'].get('may', []))
    o.dups = w['expect_scope']['dups']
    o.why = w['expect_scope']['why']
    return judge(o, r) is None
