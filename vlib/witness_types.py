"""Witness search for the type rules (C07): programs built so that the expected verdict is known BY CONSTRUCTION from the
property statement ("no implicit conversions": an operator is accepted exactly on its documented operand class with
identical operand types; a call is accepted exactly when the argument count equals the parameter count and every argument
type is identical to the parameter type), run through the real first-generation pipeline (replay runner, mode alpha).
Only attaches a failing input to a verdict of the verifier, or decides a case the verifier left undecided by exhibiting a
failing input; it never turns a discharged obligation into an alarm."""
import itertools
import time
from . import replayrun

SIGNED = ['i8', 'i16', 'i32', 'i64', 'i128']
UNSIGNED = ['u8', 'u16', 'u32', 'u64', 'u128']
INTS = SIGNED + UNSIGNED + ['usize']
PRIMS = INTS + ['bool']       # char8 is left out: it aliases u8 in one direction of the equality relation
PTRS = ['&i32', '&u8']
ALL = PRIMS + PTRS

ARITH = ['+', '-', '*', '/', '%']
BITS = ['&', '|', '^', '<<', '>>']
ORDER = ['<', '>', '<=', '>=']
EQ = ['==', '!=']


def in_class(op, t):
    if op in ARITH:
        return t in INTS
    if op in BITS:
        return t in UNSIGNED
    if op in ORDER:
        return t in PRIMS
    if op in EQ:
        return t in PRIMS or t in PTRS
    raise ValueError(op)


def binary_case(op, t1, t2):
    # a variable of pointer type denotes the pointee; the pointer itself is written &a
    ea = '&a' if t1 in PTRS else 'a'
    eb = '&b' if t2 in PTRS else 'b'
    if op in ARITH or op in BITS:
        src = 'fn f(a: %s, b: %s)\n{\n\tvar r = %s %s %s;\n}\n' % (t1, t2, ea, op, eb)
    else:
        src = 'fn f(a: %s, b: %s)\n{\n\tif %s %s %s\n\t{\n\t\tgoto end;\n\t}\n\tend:\n}\n' % (t1, t2, ea, op, eb)
    if t1 == t2:
        exp = 'accept' if in_class(op, t1) else 'reject:550'
    elif in_class(op, t1) and in_class(op, t2):
        exp = 'reject:551'
    else:
        exp = 'reject'
    return src, exp, '%s %s %s' % (t1, op, t2)


def unary_case(op, t):
    src = 'fn f(a: %s)\n{\n\tvar r = %sa;\n}\n' % (t, op)
    ok = (t in SIGNED) if op == '-' else (t == 'bool' or t in UNSIGNED)
    return src, 'accept' if ok else 'reject:550', '%s%s' % (op, t)


def call_case(params, args, kind, noaddr=None):
    ps = ', '.join('p%d: %s' % (i, t) for i, t in enumerate(params))
    xs = ', '.join('x%d: %s' % (i, t) for i, t in enumerate(sorted(set(params + args))))
    names = {t: 'x%d' % i for i, t in enumerate(sorted(set(params + args)))}
    call = ', '.join(('&' + names[t]) if (t in PTRS and i != noaddr) else names[t] for i, t in enumerate(args))
    src = 'fn g(%s)\n{\n}\n\nfn f(%s)\n{\n\tg(%s);\n}\n' % (ps, xs, call)
    if len(args) < len(params):
        exp = 'reject:510'
    elif len(args) > len(params):
        exp = 'reject:511'
    elif noaddr is not None:
        exp = 'reject:512|513'
    elif list(args) == list(params):
        exp = 'accept'
    else:
        exp = 'reject:512|513'
    return src, exp, 'g(%s) called with (%s)' % (', '.join(params), ', '.join(args))


def cases(rng):
    out = []
    for op in ARITH + BITS + ORDER + EQ:
        for t in ALL:
            out.append(binary_case(op, t, t))
        for _ in range(6):
            t1, t2 = rng.sample(PRIMS, 2)
            out.append(binary_case(op, t1, t2))
    for op in ['-', '!']:
        for t in PRIMS:
            out.append(unary_case(op, t))
    for n in range(0, 4):
        for _ in range(6):
            params = [rng.choice(PRIMS + PTRS) for _ in range(n)]
            out.append(call_case(params, list(params), 'ok'))
            if n > 0:
                out.append(call_case(params, params[:-1], 'few'))
                k = rng.randrange(n)
                out.append(call_case(params, params[:k] + params[k + 1:], 'few'))
                other = rng.choice([t for t in PRIMS if t != params[k]])
                out.append(call_case(params, params[:k] + [other] + params[k + 1:], 'type'))
            out.append(call_case(params, params + [rng.choice(PRIMS)], 'many'))
            ptr_pos = [i for i, t in enumerate(params) if t in PTRS]
            for i in ptr_pos:
                c = call_case(params, list(params), 'noaddr', noaddr=i)
                out.append((c[0], c[1], c[2] + ' with the & missing on argument %d' % i))
    # literal operands: a suffixed literal has the type of its suffix, a naked decimal takes the type of the other operand
    for t in INTS:
        for suf in rng.sample(INTS, 3) + [t]:
            for op in ('+', '=='):
                if op == '+':
                    src = 'fn f(a: %s)\n{\n\tvar r = a + 5%s;\n}\n' % (t, suf)
                else:
                    src = 'fn f(a: %s)\n{\n\tif a == 5%s\n\t{\n\t\tgoto end;\n\t}\n\tend:\n}\n' % (t, suf)
                out.append((src, 'accept' if suf == t else 'reject:551', '%s %s 5%s (literal typed by its suffix)' % (t, op, suf)))
        out.append(('fn f(a: %s)\n{\n\tvar r = a + 5;\n}\n' % t, 'accept', '%s + 5 (naked literal takes the type of the other operand)' % t))
    out.append(('fn f(a: bool)\n{\n\tif a == 1\n\t{\n\t\tgoto end;\n\t}\n\tend:\n}\n', 'reject:551', 'bool == 1 (an integer literal is not a bool)'))
    # `as` casts: only integer <-> integer, u8 <-> char8, bool -> integer (and the identity)
    CT = INTS + ['bool', 'char8']
    for a in CT:
        for b in CT:
            ok = a == b or (a in INTS and b in INTS) or (a, b) in (('u8', 'char8'), ('char8', 'u8')) or (a == 'bool' and b in INTS)
            out.append(('fn f(c: %s)\n{\n\tvar r = c as %s;\n}\n' % (a, b), 'accept' if ok else 'reject:552', '%s as %s' % (a, b)))
    # assignments through member/element chains are type-checked like any other assignment
    out.append(('struct S\n{\n\tarr: [4]i32,\n}\n\nfn main()\n{\n\tvar s: S = S { arr: [1, 2, 3, 4] };\n\tvar u: u8 = 1;\n\ts.arr[1] = u;\n}\n',
                'reject:504', 'a u8 assigned to an element of an [4]i32 member'))
    out.append(('struct S\n{\n\tarr: [4]i32,\n\tb: bool,\n}\n\nfn main()\n{\n\tvar s: S = S { arr: [1, 2, 3, 4], b: true };\n\ts.arr[0] = s.b;\n}\n',
                'reject:504', 'a bool member assigned to an element of an [4]i32 member'))
    out.append(('struct S\n{\n\tx: i32,\n}\n\nfn main()\n{\n\tvar s: S = S { x: 1 };\n\tvar u: u8 = 1;\n\ts.x = u;\n}\n', 'reject:504', 'a u8 assigned to an i32 member'))
    out.append(('fn main()\n{\n\tvar a: [3]i32 = [1, 2, 3];\n\tvar u: u8 = 1;\n\ta[1] = u;\n}\n', 'reject:504', 'a u8 assigned to an element of an [3]i32 array'))
    # pointers to sized arrays: the length is part of the type
    for (la, lb) in ((3, 5), (5, 3), (1, 2)):
        out.append(('fn g(p: &[%d]i32)\n{\n}\n\nfn f()\n{\n\tvar m: [%d]i32 = [%s];\n\tg(&m);\n}\n' % (lb, la, ', '.join('1' for _ in range(la))),
                    'reject:512|513', 'address of a [%d]i32 passed for a parameter of type &[%d]i32' % (la, lb)))
        out.append(('fn f()\n{\n\tvar m: [%d]i32 = [%s];\n\tvar q: &[%d]i32 = &m;\n}\n' % (la, ', '.join('1' for _ in range(la)), lb),
                    'reject:504', 'address of a [%d]i32 stored in a variable of type &[%d]i32' % (la, lb)))
    out.append(('fn g(p: &[3]i32)\n{\n}\n\nfn f()\n{\n\tvar m: [3]i32 = [1, 1, 1];\n\tg(&m);\n}\n', 'accept', 'address of a [3]i32 passed for &[3]i32'))
    # unary minus on a LITERAL: negation is defined on signed integers only, whatever the magnitude or the spelling of the literal
    for lit, ty, exp in [('5u32', 'u32', 'reject:550'), ('170141183460469231731687303715884105728u128', 'u128', 'reject:550'),
                         ('170141183460469231731687303715884105727u128', 'u128', 'reject:550'), ('0x80000000000000000000000000000000', 'u128', 'reject:550'),
                         ('0x7F', 'u8', 'reject:550'), ('255u8', 'u8', 'reject:550'), ('128i8', 'i8', 'accept'), ('170141183460469231731687303715884105728i128', 'i128', 'accept'),
                         ('170141183460469231731687303715884105728', 'i128', 'accept'), ('5', 'i32', 'accept'), ('0b101', 'u8', 'reject:550')]:
        out.append(('fn f()\n{\n\tvar x: %s = -%s;\n}\n' % (ty, lit), exp, 'unary minus before the literal %s in a context of type %s' % (lit, ty)))
    # bit casts: only between (thin) pointers, or to the identical type; never between an array-view pointer and a pointer
    pre = 'fn first(x: &u8)\n{\n}\n\nfn many(x: &[]u8)\n{\n}\n\nfn g(y: &[]u8, b: &u8)\n{\n\tvar a: i32 = 10;\n\tvar p: &i32 = &a;\n'
    for stmt, exp, what in [
            ('var q: &u32 = cast &p as &u32;', 'accept', 'bit cast of a pointer to another pointer type'),
            ('var q: &u8 = cast &p as &u8;', 'accept', 'bit cast of a pointer to a pointer to a smaller type'),
            ('var q: &&i32 = cast &p as &&i32;', 'accept', 'bit cast of a pointer to a pointer to a pointer'),
            ('var q: i32 = cast a as i32;', 'accept', 'bit cast to the identical type'),
            ('var q: &u32 = cast p as &u32;', 'reject:553', 'bit cast of an integer (address forgotten) to a pointer'),
            ('var q: &i32 = cast a as &i32;', 'reject:553', 'bit cast of an integer to a pointer'),
            ('var q: usize = cast &p as usize;', 'reject:553', 'bit cast of a pointer to usize'),
            ('var q: u32 = cast a as u32;', 'reject:553', 'bit cast between different integer types'),
            ('var q: bool = cast a as bool;', 'reject:553', 'bit cast of an integer to bool'),
            ('first(cast &y as &u8);', 'reject:553', 'bit cast of a pointer to an array view (pointer and length) to a plain pointer'),
            ('first(cast &y);', 'reject:553', 'bit cast of a pointer to an array view to the plain pointer the parameter asks for'),
            ('many(cast &b as &[]u8);', 'reject', 'bit cast of a plain pointer to a pointer to an array view')]:
        out.append((pre + '\t' + stmt + '\n}\n', exp, what))
    rng.shuffle(out)
    return out


def verdict_ok(exp, r):
    if r.get('status') in ('timeout', 'build-failed', 'unknown'):
        return True    # inconclusive run (machine load, tool failure): never a mismatch
    if r.get('status') != 'ok':
        return False
    codes = [c for c in r['result'].get('errors', '[]').strip('[]').split(',') if c]
    if exp == 'accept':
        return codes == []
    if not codes:
        return False
    if ':' in exp:
        want = exp.split(':')[1].split('|')
        return any(c in want for c in codes)
    return True


def search(deadline, rng, only=None):
    if replayrun.build()[0] is None:
        return None
    import concurrent.futures as cf

    def one(c):
        src, exp, what = c
        if time.time() > deadline:
            return None
        r = replayrun.run('alpha', src.encode(), timeout=20)
        return None if verdict_ok(exp, r) else (src, exp, what, r)

    with cf.ThreadPoolExecutor(12) as ex:
        for hit in ex.map(one, [c for c in cases(rng) if only is None or only in c[2]]):
            if hit:
                src, exp, what, r = hit
                return {'mode': 'alpha', 'input_utf8_lossy': src, 'input_hex': src.encode().hex(), 'observed': r,
                        'expected': '%s: %s (accept = no error; reject:N = error code N among the reported ones)' % (what, exp),
                        'expect_verdict': exp,
                        'how': 'replay_runner alpha <file>: error codes of the first-generation pipeline without the LLVM generator'}
    return None
