"""Bounded stand-in for the token classification of the second-generation lexer and for the agreement of the two lexers
(C14; U-LEXD proves digit values, suffix table, spans and safety, not the classification of every lexeme): the same token
sequences that vlib/witness_lexa.py builds for the first-generation lexer - kind and payload known BY CONSTRUCTION - are
run through the second-generation lexer (replay mode deltatok) and compared.  Both lexers being compared with the same
expectation on the same input is the agreement the property asks for.  Also: an input that contains an invalid lexeme
(a control character in a literal, a bad escape) must be rejected by both lexers."""
import time
from . import replayrun
from . import witness_lexa as A


def delta_xml(desc):
    """expected XML element of the second-generation lexer for the description used by witness_lexa (None: not compared)"""
    if desc is None:
        return None
    if desc.startswith('?err:') or desc.startswith('err:'):
        return '<Error />'
    k, _, v = desc.partition(':')
    if k == 'dec':
        return '<NakedDecimal value="%s" />' % v
    if k == 'bit':
        return '<BitInteger value="%s" />' % v
    if k == 'suf':
        val, ty = v.split(':')
        return '<SuffixedInteger type="%s" value="%s" />' % (ty, val)
    if k == 'chr':
        return '<CharLiteral value="%d" />' % int(v, 16)
    if k == 'str':
        return '<StringLiteral'          # prefix: the element carries the raw source text, not the decoded bytes
    if k == 'id':
        return '<Identifier src="%s" />' % v
    if k == 'bi':
        return '<Builtin src="%s!" />' % v
    if k == 'bool':
        return '<BoolLiteral value="%d" />' % (1 if v == 'true' else 0)
    if k == 'ty':
        return '<ValueTypeKeyword type="%s" />' % v
    return '<%s />' % desc


def mismatch(exp, r):
    if r.get('status') in ('timeout', 'build-failed', 'unknown'):
        return None
    if r.get('status') != 'ok':
        return 'lexer %s: %s' % (r.get('status'), r.get('detail'))
    try:
        got = [l for l in bytes.fromhex(r['result'].get('toks', '')).decode('utf-8', 'replace').split('\n') if l]
    except ValueError:
        return None
    want = [delta_xml(d) for (_s, _e, _l, d) in exp] + ['<EndOfSource />', '<EndOfSource />']
    if len(got) != len(want):
        return 'expected %d tokens (incl. the two EndOfSource), got %d: %s' % (len(want), len(got), ' '.join(got)[:300])
    for i, (g, w) in enumerate(zip(got, want)):
        if w is not None and not (g == w or (w == '<StringLiteral' and g.startswith(w))):
            return 'token %d: expected %s, got %s' % (i, w, g)
    # byte span and line of every token (the second-generation lexer counts bytes; expected offsets are converted)
    src = r.get('_source')
    locs = [x for x in (r['result'].get('locs') or '').split('|') if x]
    if src is not None and len(locs) == len(want):
        for i, ((cs, ce, ln, d), loc) in enumerate(zip(exp, locs)):
            if d is not None and d.startswith('?'):
                continue
            bs, be = len(src[:cs].encode('utf-8')), len(src[:ce].encode('utf-8'))
            gs, ge, gl, _gc = (int(x) for x in loc.split('-'))
            if (gs, ge, gl) != (bs, be, ln):
                return 'token %d (%s): expected bytes %d..%d on line %d, got %d..%d on line %d' % (i, want[i], bs, be, ln, gs, ge, gl)
    has_err = any(d and 'err:' in d for (_s, _e, _l, d) in exp)
    codes = r['result'].get('errors', '[]')
    if has_err != (codes != '[]'):
        return 'expected %s, got error codes %s' % ('at least one lexing error' if has_err else 'no lexing error', codes)
    return None


CONTROL = ['\x01', '\x08', '\x0b', '\x1f', '\x7f']


def invalid_lexeme_cases(rng):
    """(source, what): inputs that contain an invalid lexeme and must be rejected by both lexers"""
    out = []
    for c in CONTROL:
        out.append(('var x = "a%sb";' % c, 'control character 0x%02x inside a string literal' % ord(c)))
        out.append(("var x = '%s';" % c, 'control character 0x%02x as a character literal' % ord(c)))
        out.append(('var %sx = 1;' % c, 'control character 0x%02x between tokens' % ord(c)))
    for bad in ('"\\q"', '"\\x4"', '"\\xg0"', '"\\u{110000}"', '"\\u{d800}"', "''", "'ab'", '"abc', "'a", '0x', '0b', '12abc', '1u7', '0xffzz', '@', '$', '`', '#',
                '"\\u{41"', "'\\u{41'", '"\\u{20ac x"', '"\\u41"', '1bool', '65char8', '0void', '0b1bool', '0x1void', '1i63', '1u', '1I32', '1f32', '1usiz', '1i1288',
                '340282366920938463463374607431768211456u129', '9' * 50 + 'q', '0x1' + '0' * 32 + 'zz', '340282366920938463463374607431768211456', '"\\u{d7ff}\\u{dfff}"', '"long enough \\u{dc00}"'):
        out.append(('var x = %s;' % bad, 'invalid lexeme %s' % bad))
    # literals with TWO faults: a first fault inside, and no closing quote; the first fault is the one that is reported
    for q in ('"', "'"):
        for first, code in (('\\q', 162), ('\\x4', 162), ('\\u{110000}', 162), ('\x01', 110), ('a\\zb', 162) if q == '"' else ('\\z', 162)):
            for tail in ('', ';', ' + 1;'):
                src = 'var x = %s%s%s' % (q, first, tail)
                out.append((src, 'a literal with the fault %r and no closing quote' % first, code))
    return [c if len(c) == 3 else (c[0], c[1], None) for c in out]


ALPHA_CODES = {'UnexpectedZeroByteFile': 101, 'TooManySourceBytes': 102, 'TooManyTokens': 103, 'UnexpectedCharacter': 110, 'InvalidIntegerLength': 140,
               'InvalidIntegerTypeSuffix': 141, 'MissingClosingQuote': 160, 'UnexpectedTrailingBackslash': 161, 'InvalidEscapeSequence': 162, 'InvalidCharLiteral': 163}


def _inv(case):
    src, what, first_code = case
    rd = replayrun.run('deltatok', src.encode('utf-8'), timeout=20)
    ra = replayrun.run('alphatok', src.encode('utf-8'), timeout=20)
    bad = []
    if rd.get('status') == 'ok' and rd['result'].get('errors', '[]') == '[]':
        bad.append('the second-generation lexer reports no error')
    if ra.get('status') == 'ok' and 'err:' not in ra['result'].get('toks', ''):
        bad.append('the first-generation lexer reports no error')
    if not bad and rd.get('status') == 'ok' and ra.get('status') == 'ok':
        # the same lexical grammar: both lexers name the same faults, in the same order
        import re
        dc = [int(c) for c in rd['result'].get('errors', '[]').strip('[]').split(',') if c]
        kinds = re.findall(r'err:(\w+)', ra['result'].get('toks', ''))
        ac = [ALPHA_CODES.get(k) for k in kinds]
        if None not in ac and ac != dc:
            bad.append('the first-generation lexer reports %s (%s), the second-generation lexer %s' % (ac, ','.join(kinds), dc))
        if first_code is not None and (dc[:1] != [first_code] or ac[:1] != [first_code]):
            bad.append('the first fault of the literal is E%d; reported: first generation %s, second generation %s' % (first_code, ac, dc))
    return (src, what, rd, ra, bad) if bad else None



def _pair_disagrees(case):
    return _inv(case) is not None


def search(deadline, rng, newline='\n', only_invalid=False):
    if replayrun.build()[0] is None:
        return None
    import concurrent.futures as cf

    def one(case):
        src, exp = case
        r = replayrun.run('deltatok', src.encode('utf-8'), timeout=20)
        r['_source'] = src
        m = mismatch(exp, r)
        r.pop('_source', None)
        return (src, exp, r, m) if m else None

    inv = _inv

    with cf.ThreadPoolExecutor(12) as ex:
        for hit in ex.map(inv, invalid_lexeme_cases(rng)):
            if hit:
                src, what, rd, ra, bad = hit
                return {'mode': 'deltatok', 'input_utf8_lossy': src, 'input_hex': src.encode('utf-8').hex(), 'observed': {'delta': rd, 'alpha': ra},
                        'expected': '%s: every input containing an invalid lexeme is rejected by both lexers; %s' % (what, '; '.join(bad)),
                        'expect_lex_error': True, 'expect_lexers_agree': True, 'how': 'replay_runner deltatok / alphatok <file>'}
        while time.time() < deadline and not only_invalid:
            cases = [A.gen_source(rng, rng.choice([1, 1, 2, 3, 6]), newline) for _ in range(96)]
            for hit in ex.map(one, cases):
                if hit:
                    src, exp, r, m = hit
                    return {'mode': 'deltatok', 'input_utf8_lossy': src, 'input_hex': src.encode('utf-8').hex(), 'observed': r, 'expected': m,
                            'expect_delta_tokens': [delta_xml(d) for (_s, _e, _l, d) in exp],
                            'how': 'replay_runner deltatok <file>: XML element of every token of penne::delta::lexer::lex, and its error codes'}
    return None


def replay_fails(w, r):
    if w.get('expect_lexers_agree'):
        # re-run the pair of lexers on the stored input
        src = bytes.fromhex(w['input_hex']).decode('utf-8', 'replace')
        import random
        for case in invalid_lexeme_cases(random.Random(0)):
            if case[0] == src:
                return _pair_disagrees(case)
        return _pair_disagrees((src, 'stored input', None))
    if w.get('expect_lex_error'):
        return r.get('status') == 'ok' and r['result'].get('errors', '[]') == '[]'
    exp = [(0, 0, 0, None)] * 0
    want = w.get('expect_delta_tokens') or []
    if r.get('status') != 'ok':
        return r.get('status') in ('panic', 'crash')
    got = [l for l in bytes.fromhex(r['result'].get('toks', '')).decode('utf-8', 'replace').split('\n') if l]
    want = want + ['<EndOfSource />', '<EndOfSource />']
    if len(got) != len(want):
        return True
    return any(x is not None and not (g == x or (x == '<StringLiteral' and g.startswith(x))) for g, x in zip(got, want))
