"""Bounded stand-in for rendering (C13; error.rs build_report/write and ariadne are not under contract): every diagnostic of
inputs that are rejected by construction (the failing cases of the other suites) and of the repository's invalid samples is
rendered in the four colour/charset configurations as StdOut::new builds them.  Expected from the property statement: no
rendering fails; and the configuration is honoured - no escape sequence when colour is off, plain ASCII when colour is off
and the arrows are ascii (for ASCII sources)."""
import glob
import os
import time
from . import replayrun
from .engine import REPO


def inputs(rng, n_samples):
    pool = []
    from . import witness_types, witness_mut, witness_literals
    for src, exp, what in witness_types.cases(rng):
        if exp != 'accept':
            pool.append((str(exp), what, src))
    for src, exp, what in witness_mut.cases() + witness_mut.aggregate_cases():
        if exp != 'accept':
            pool.append((str(exp), what, src))
    for src, exp, what in witness_literals.cases(rng)[:60]:
        pool.append(('literal:' + str(exp), what, src))
    rng.shuffle(pool)
    # rendering is cheap: every by-construction program is rendered, so every kind of diagnostic the families can provoke is covered
    out = [(what, src) for exp, what, src in pool]
    files = sorted(glob.glob(os.path.join(REPO, 'tests', 'samples', 'invalid', '*.pn')))
    rng.shuffle(files)
    for f in files[:n_samples]:
        try:
            t = open(f, 'rb').read().decode('utf-8')
            if '\x1b' not in t:      # an escape character of the source itself would be echoed in the snippet
                out.append((os.path.relpath(f, REPO), t))
        except Exception:
            pass
    return out


def bad(r):
    if r.get('status') in ('timeout', 'build-failed', 'unknown'):
        return None
    if r.get('status') != 'ok':
        # a panic of the pipeline itself (typer etc.) is not a rendering failure
        return None
    res = r['result']
    for k, msg in (('panics', 'rendering panicked'), ('write_errors', 'rendering returned an error'),
                   ('escapes_when_colourless', 'an escape sequence was written although colour is off'),
                   ('nonascii_when_ascii', 'a non-ASCII character was written although colour is off and the arrows are ascii')):
        if int(res.get(k, 0) or 0) > 0:
            return '%s (%s of %s renderings)' % (msg, res[k], res.get('reports'))
    return None


def search(deadline, rng, n_samples=40):
    if replayrun.build()[0] is None:
        return None
    import concurrent.futures as cf

    def one(item):
        what, src = item
        if time.time() > deadline:
            return None
        r = replayrun.run('alpharender', src.encode('utf-8'), timeout=30)
        m = bad(r)
        return (what, src, r, m) if m else None

    with cf.ThreadPoolExecutor(12) as ex:
        for hit in ex.map(one, inputs(rng, n_samples)):
            if hit:
                what, src, r, m = hit
                return {'mode': 'alpharender', 'input_utf8_lossy': src[:3000], 'input_hex': src.encode('utf-8').hex()[:12000], 'observed': r,
                        'expected': 'the diagnostics of `%s` render in all four colour/charset configurations, honouring the configuration; %s' % (what[:120], m),
                        'expect_render_clean': True,
                        'how': 'replay_runner alpharender <file>: build_report + write for every diagnostic x (colour on/off) x (unicode/ascii)'}
    return None
