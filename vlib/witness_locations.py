"""Bounded stand-in for the locations of diagnostics (C13; the alpha parser's span bookkeeping - Tokens::location_of_span,
combined_with - and error.rs are not under contract): EVERY Location that occurs in the diagnostics of an input must lie
inside the source, and its span must start on the reported line at the reported column:
    0 <= span.start <= span.end <= number of characters,  line_number == 1 + number of line feeds before span.start
(the column `line_offset` is not part of the property and is not compared: for escape errors inside a literal the lexer
reports the column of the end of the escape).
Inputs: the repository's invalid samples, by-construction rejected programs, the same with CRLF line ends, and programs whose
offending construct is spread over several lines."""
import glob
import os
import re
import time
from . import replayrun
from .engine import REPO

LOC = re.compile(r'Location \{ source_filename: "replay\.pn", span: (\d+)\.\.(\d+), line_number: (\d+), line_offset: (\d+) \}')

MULTILINE = [
    'fn f()\n{\n\tvar x: &\n\t\t[:]i32 = 0;\n}\n',
    'fn f(a:\n\t[]\n\t[:]i32)\n{\n}\n',
    'fn f()\n{\n\tvar n: usize = |:\n\t\t[]i32|;\n}\n',
    'extern fn f(a: [4]\n\tbool);\n',
    'fn f()\n{\n\tvar x: i32 = 1\n\t\t+ true;\n}\n',
    'fn f()\n{\n\tvar a: [3]i32 = [1,\n\t\t2,\n\t\ttrue];\n}\n',
    'fn g(a: i32, b: i32)\n{\n}\n\nfn f()\n{\n\tg(1,\n\t\ttrue);\n}\n',
    'fn f() -> i32\n{\n\tvar x: u8 = 1;\n\treturn:\n\t\tx\n}\n',
    'struct S\n{\n\ta: i32,\n\ta:\n\t\tu8,\n}\n',
    'fn f()\n{\n\tif 1\n\t\t== true\n\t{\n\t\tgoto end;\n\t}\n\tend:\n}\n',
    'fn f()\n{\n\tvar a: i32 = 1;\n\tvar p: &i32 = &a;\n\tvar b: bool = true;\n\tb = cast\n\t\t&p as &u8;\n}\n',
    'fn g(x: bool)\n{\n}\n\nfn f()\n{\n\tvar a: i32 = 1;\n\tvar p: &i32 = &a;\n\tg(cast\n\t\t&p\n\t\tas &u8);\n}\n',
    'fn f()\n{\n\tvar a: i32 = 1;\n\tvar b: bool = true;\n\tb = a\n\t\tas\n\t\tu8;\n\tb = -\n\t\ta;\n\tb = !\n\t\ta;\n}\n',
]


TRUNCATED = ('import "other.pn";\n\nconst N: usize = 3;\n\nstruct P\n{\n\tx: i32,\n\tname: [N]char8,\n}\n\n'
             'pub fn f(a: i32, p: &P) -> i32\n{\n\tvar s = "héllo\\n";\n\tvar t: [N]i32 = [1, 2, 3];\n\tif a == 0x1F\n\t{\n\t\tgoto end;\n\t}\n'
             '\telse if p.x > |t|\n\t\tgoto end;\n\tt[0] = -a as i32;\n\tend:\n\treturn: t[0]\n}\n')


def truncations(rng, n):
    """prefixes of one module that uses most constructs, cut at arbitrary characters: the file then ENDS at its last token
    (no line end, no space after it), which is where an end-of-file diagnostic has nowhere to point but inside the source"""
    cuts = list(range(1, len(TRUNCATED)))
    rng.shuffle(cuts)
    return [('module cut after %d characters (no line end at the end of the file)' % c, TRUNCATED[:c]) for c in sorted(cuts[:n])]


# programs in which every offending construct stands on a line of its own: (source, [(error variant, line of its primary location, the text the span must start with)])
PRIMARY = [
    ('fn g(a: i32, b: i32)\n{\n}\n\nfn f()\n{\n\tvar x: i32 = 1;\n\tg(x);\n\tg(x, x, x);\n\tvar y: i32 = g(x, x);\n}\n',
     [('TooFewArguments', 8, 'g'), ('TooManyArguments', 9, 'g'), ('ConflictingTypesInAssignment', 10, 'g')]),
    ('fn g(a: i32)\n{\n}\n\nfn f()\n{\n\tg("abc"\n\t\t"def"\n\t\t"ghi");\n\tvar x: i32 = "abc"\n\t\t"def";\n}\n',
     [('ArgumentTypeMismatch', 7, '"abc"'), ('ConflictingTypesInAssignment', 10, '"abc"')]),
    ('fn h() -> i32\n{\n\treturn: 1\n}\n\nfn g(p: &i32)\n{\n}\n\nfn f()\n{\n\tvar b: bool = true;\n\tb =\n\t\th();\n\tg(\n\t\th());\n}\n',
     [('ConflictingTypesInAssignment', 14, 'h'), ('ArgumentTypeMismatch', 16, 'h')]),
    ('fn f()\n{\n\tvar x: i32 = 1;\n\tx = undefined_function(x);\n\tx =\n\t\tundefined_variable;\n\tgoto nowhere;\n}\n',
     [('UndefinedFunction', 4, 'undefined_function'), ('UndefinedVariable', 6, 'undefined_variable'), ('UndefinedLabel', 7, 'nowhere')]),
    # a chain of one operator over several lines: the operator whose operands differ is the LAST one
    ('fn f(a: u8, b: u8, c: u16)\n{\n\tvar r = a\n\t\t| b\n\t\t| c;\n\tvar s = a\n\t\t& b\n\t\t& b\n\t\t& c;\n}\n',
     [('MismatchedOperandTypes', 5, '| c', 'location_of_op')]),
    # a type that is not part of the external ABI, directly, behind one and behind two pointers: the type is what is located
    ('extern fn f(\n\tp: &bool,\n\tq: &&u128,\n\tr: bool\n);\n',
     [('TypeNotAllowedInExtern', 2, ': &bool', 'location_of_type')]),
    ('extern fn g(\n\tq: &&u128\n);\n', [('TypeNotAllowedInExtern', 2, ': &&u128', 'location_of_type')]),
    ('extern fn h(\n\tr: bool\n) -> &u128;\n', [('TypeNotAllowedInExtern', 2, ': bool', 'location_of_type')]),
    # the SECONDARY location of E358 ("declaration marked external here") is the declaration: its keyword or the modifier before it, on that
    # line - also when the declaration is not the first of the file and follows a body, a constant or another head
    ('fn first()\n{\n}\n\nextern fn g(\n\tr: bool\n);\n', [('TypeNotAllowedInExtern', 5, 'extern', 'location_of_declaration')]),
    ('const A: i32 = 1;\n\n\nextern fn g(r: bool);\n', [('TypeNotAllowedInExtern', 4, 'extern', 'location_of_declaration')]),
    ('extern fn ok(x: i32);\n\npub\nextern fn g(r: bool);\n', [('TypeNotAllowedInExtern', (3, 4), ('pub', 'extern'), 'location_of_declaration')]),
    ('struct S\n{\n\tx: i32,\n}\n\nextern fn g() -> bool;\n', [('TypeNotAllowedInExtern', 6, 'extern', 'location_of_declaration')]),
]


def check_primary(src, expected, r):
    if r.get('status') != 'ok':
        return None
    try:
        dump = bytes.fromhex(r['result'].get('dump', '')).decode('utf-8', 'replace')
    except ValueError:
        return None
    for entry in expected:
        variant, line, text = entry[:3]
        field = entry[3] if len(entry) > 3 else 'location'
        i = dump.find(variant + ' {')
        if i < 0:
            return 'the diagnostic %s is not reported' % variant
        j = dump.find(' %s: Location {' % field, i)
        m = LOC.search(dump, j) if j >= 0 else None
        if not m:
            return 'the diagnostic %s has no primary location' % variant
        a, b, ln, lo = (int(x) for x in m.groups())
        lines = line if isinstance(line, tuple) else (line,)
        texts = text if isinstance(text, tuple) else (text,)
        if not any(ln == l_ and src[a:].startswith(t_) for l_, t_ in zip(lines, texts)):
            line, text = lines[0], texts[0]
            return 'the primary location of %s is line %d, text %r; the offending construct %r stands on line %d' % (variant, ln, src[a:b][:30], text, line)
    return None


def inputs(rng, n_samples):
    out = [('multi-line construct #%d' % i, s) for i, s in enumerate(MULTILINE)]
    out += truncations(rng, 120 if n_samples <= 60 else len(TRUNCATED))
    from . import witness_types, witness_mut
    by = [(what, src) for src, exp, what in witness_types.cases(rng) if exp != 'accept'] + \
         [(what, src) for src, exp, what in witness_mut.cases() + witness_mut.aggregate_cases() if exp != 'accept']
    rng.shuffle(by)
    out += by[:80]
    files = sorted(glob.glob(os.path.join(REPO, 'tests', 'samples', 'invalid', '*.pn')))
    rng.shuffle(files)
    for f in files[:n_samples]:
        try:
            out.append((os.path.relpath(f, REPO), open(f, 'rb').read().decode('utf-8')))
        except Exception:
            pass
    out += [(w + ' (CRLF line ends)', s.replace('\n', '\r\n')) for (w, s) in out[:40]]
    return out


def check(src, r):
    if r.get('status') != 'ok':
        return None
    try:
        dump = bytes.fromhex(r['result'].get('dump', '')).decode('utf-8', 'replace')
    except ValueError:
        return None
    n = len(src)
    for m in LOC.finditer(dump):
        a, b, ln, lo = (int(x) for x in m.groups())
        if a == 0 and b == 0 and n == 0:
            continue    # the placeholder token of an empty file
        if not (0 <= a <= b <= n):
            return 'location %s lies outside the source of %d characters' % (m.group(0), n)
        line = 1 + src.count('\n', 0, a)
        if ln != line:
            return 'the span of %s starts on line %d of the source' % (m.group(0), line)
    return None


def search(deadline, rng, n_samples=60):
    if replayrun.build()[0] is None:
        return None
    import concurrent.futures as cf

    def one(item):
        what, src = item
        if time.time() > deadline:
            return None
        r = replayrun.run('alphadump', src.encode('utf-8'), timeout=30)
        m = check(src, r)
        return (what, src, r, m) if m else None

    for k, (src, expected) in enumerate(PRIMARY):
        r = replayrun.run('alphadump', src.encode('utf-8'), timeout=30)
        m = check_primary(src, expected, r)
        if m:
            return {'mode': 'alphadump', 'input_utf8_lossy': src, 'input_hex': src.encode('utf-8').hex(),
                    'observed': {'status': r.get('status'), 'errors': (r.get('result') or {}).get('errors')},
                    'expected': 'every diagnostic points at the construct it is about (program #%d, each offending construct on a line of its own); %s' % (k, m),
                    'expect_primary_locations': k,
                    'how': 'replay_runner alphadump <file>: Debug form of all diagnostics; the `location:` field of each expected diagnostic is compared with the line and text of the construct'}
    with cf.ThreadPoolExecutor(12) as ex:
        for hit in ex.map(one, inputs(rng, n_samples)):
            if hit:
                what, src, r, m = hit
                return {'mode': 'alphadump', 'input_utf8_lossy': src[:3000], 'input_hex': src.encode('utf-8').hex()[:12000],
                        'observed': {'status': r.get('status'), 'errors': (r.get('result') or {}).get('errors')},
                        'expected': 'every location in the diagnostics of `%s` lies inside the source and starts on the reported line; %s' % (what[:100], m),
                        'expect_locations_ok': True,
                        'how': 'replay_runner alphadump <file>: Debug form of all diagnostics; every `Location { .. }` in it is checked against the source'}
    return None
