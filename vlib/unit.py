"""Unit builder: slices real items from /repo, applies logged rewrite rules, splices contracts.

The generated file carries marker comments that let the runner map a Verus diagnostic back to
  * the repository function it concerns          //@fn <key> | <repo file>:<l0>-<l1>   ...   //@endfn
  * the named contract clause (obligation)       /*@L:<label>*/
  * the origin of non-repository text            //@prelude <file>, //@spec <file>   ...   //@end
"""
import os
import re
import collections

from . import rsparse, vc
from .rsparse import LostAnchor


class Unsupported(Exception):
    pass


KEEP_DERIVES = ('Clone', 'Copy', 'PartialEq', 'Eq', 'PartialOrd', 'Ord', 'Default')
DROP_ATTRS = re.compile(
    r'^[ \t]*#\[(?:inline[^\]]*|cold|must_use(?:\s*=\s*"[^"]*")?|allow\([^\]]*\)|strum\((?:[^\]"]|"[^"]*")*\)|serde\((?:[^\]"]|"[^"]*")*\)|'
    r'enumset\([^\]]*\)|doc[^\]]*|cfg\(not\(tarpaulin_include\)\)|cfg_attr\([^\]]*\)|non_exhaustive|repr\(transparent\))\][ \t]*\n', re.M)
DERIVE = re.compile(r'#\[derive\(([^\]]*)\)\]')


def normalized_lines(text, inverse_renames=None, keep_order=False):
    """the lines of a function text without comments and layout, sorted: two texts with the same list differ only in the
    ORDER of their lines (reordered match arms, swapped independent statements)"""
    out = []
    for line in text.split('\n'):
        toks = [t.text for t in rsparse.tokenize(line) if t.kind != 'com']
        if inverse_renames:
            toks = [inverse_renames.get(t, t) for t in toks]
        # a trailing comma after the last arm/element is layout
        if toks and toks[-1] == ',':
            toks = toks[:-1]
        if toks:
            out.append(' '.join(toks))
    return out if keep_order else sorted(out)


CLOSURE_HEAD = re.compile(r'[(,=]\s*(?:move\s+)?\|[^|\n]*\|')
def _norm_tokens(text):
    """token texts without comments and without a trailing comma before a closing bracket (formatting only)"""
    toks = [t for t in rsparse.tokenize(text) if t.kind != 'com']
    out = []
    for k, t in enumerate(toks):
        if t.text == ',' and k + 1 < len(toks) and toks[k + 1].text in (')', ']', '}'):
            continue
        out.append(t)
    return out


def _locate_anchor(body, blines, anchor, nth):
    """(first line index, last line index, note) of the nth occurrence of the anchor statement in body.
    1. a line that equals the anchor; 2. the anchor's token sequence anywhere (the statement was re-wrapped);
    3. approximately: the lines / token windows closest to it (an operand was renamed, a temporary introduced)."""
    idxs = [i for i, l in enumerate(blines) if l.strip() == anchor]
    if nth < len(idxs):
        return idxs[nth], idxs[nth], None
    if idxs:
        return None
    import difflib, bisect
    at = [t.text for t in _norm_tokens(anchor)]
    if not at:
        return None
    bt = _norm_tokens(body)
    texts = [t.text for t in bt]
    starts = [0]
    for l in blines:
        starts.append(starts[-1] + len(l) + 1)
    line_of = lambda off: bisect.bisect_right(starts, off) - 1
    n = len(at)
    # only whole statements: the match must begin where a statement or block begins (fragments such as `);` are matched
    # by exact line only)
    def at_start(k):
        return k == 0 or texts[k - 1] in (';', '{', '}', '=>') or texts[k - 1] == ','
    if at[0] in (')', ']', '}', ';', ',', '.'):
        return None
    hits = [k for k in range(len(texts) - n + 1) if texts[k] == at[0] and texts[k:k + n] == at and at_start(k)]
    if nth < len(hits):
        k = hits[nth]
        return line_of(bt[k].start), line_of(bt[k + n - 1].start), 're-wrapped statement matched token-wise'
    if hits:
        return None
    cand = []
    for k in range(len(texts)):
        if texts[k] != at[0] or not at_start(k):
            continue
        best = None
        for m in range(max(1, n - 4), n + 5):
            if k + m > len(texts):
                break
            r = difflib.SequenceMatcher(None, at, texts[k:k + m]).ratio()
            if best is None or r > best[0]:
                best = (r, m)
        if best and best[0] >= 0.72:
            if cand and k < cand[-1][0] + cand[-1][1]:
                if best[0] > cand[-1][2]:
                    cand[-1] = (k, best[1], best[0])
                continue
            cand.append((k, best[1], best[0]))
    if nth < len(cand):
        k, m, r = cand[nth]
        l0, l1 = line_of(bt[k].start), line_of(bt[k + m - 1].start)
        return l0, l1, 'matched approximately to %r' % ' '.join(texts[k:k + m])[:90]
    return None


RUST_KW = set('as break const continue crate else enum extern false fn for if impl in let loop match mod move mut pub ref return self Self static struct super trait true type unsafe use where while async await dyn'.split())


def first_occurrence_idents(text):
    """lower-case-initial identifiers of a function text in order of first occurrence, leaving out keywords, field/method
    names (after `.`), path segments (next to `::`), macro and function names in call position"""
    toks = [t for t in rsparse.tokenize(text) if t.kind != 'com']
    seen = []
    have = set()
    stack = []
    inner = []      # innermost open bracket at each token
    for t in toks:
        inner.append(stack[-1] if stack else '')
        if t.kind == 'p' and t.text in '([{':
            stack.append(t.text)
        elif t.kind == 'p' and t.text in ')]}' and stack:
            stack.pop()
    for i, t in enumerate(toks):
        if t.kind != 'id' or t.text in RUST_KW or not (t.text[0].islower() or t.text[0] == '_'):
            continue
        prev = toks[i - 1].text if i > 0 else ''
        nxt = toks[i + 1].text if i + 1 < len(toks) else ''
        nxt2 = toks[i + 2].text if i + 2 < len(toks) else ''
        if prev == '.' or (prev == ':' and i > 1 and toks[i - 2].text == ':') or (nxt == ':' and nxt2 == ':') or nxt in ('(', '!'):
            continue
        if prev == "'":
            continue
        if nxt == ':' and nxt2 != ':' and inner[i] == '{' and prev in ('{', ','):
            continue    # `field: value` in a struct literal or pattern names a field, not a local
        if t.text not in have:
            have.add(t.text)
            seen.append(t.text)
    return seen


def rename_line(line, ren):
    """token-aware renaming of one line of ghost text (see rename_contract)"""
    import types
    return rename_contract(types.SimpleNamespace(clauses=[('x', [line])], loops=[], inserts=[], body_prefix=[], closures=[]), ren).clauses[0][1][0]


def rename_contract(c, ren):
    import copy
    def f(line):
        """rename free-standing uses (not a field/method name after `.`, not a path segment, not in call or macro position);
        a struct-literal/pattern field given in shorthand (`Variant { start }`) becomes `start: new_name`"""
        toks = rsparse.tokenize(line)
        if not any(t.kind == 'id' and t.text in ren for t in toks):
            return line
        out = []
        pos = 0
        stack = []   # (bracket, text of the token before it)
        for i, t in enumerate(toks):
            prev = toks[i - 1].text if i > 0 else ''
            prev2 = toks[i - 2].text if i > 1 else ''
            nxt = toks[i + 1].text if i + 1 < len(toks) else ''
            nxt2 = toks[i + 2].text if i + 2 < len(toks) else ''
            if t.kind == 'p' and t.text in '([{':
                stack.append((t.text, prev))
            elif t.kind == 'p' and t.text in ')]}' and stack:
                stack.pop()
            if t.kind == 'id' and t.text in ren and t.kind != 'com':
                skip = prev == '.' or (prev == ':' and prev2 == ':') or (nxt == ':' and nxt2 == ':') or nxt == '(' or (nxt == '!' and nxt2 != '=')
                in_struct = bool(stack) and stack[-1][0] == '{' and stack[-1][1][:1].isupper()
                if not skip and in_struct and nxt == ':' and nxt2 != ':' and prev in ('{', ','):
                    skip = True    # an explicit field name
                if not skip:
                    new = ren[t.text]
                    if in_struct and prev in ('{', ',') and nxt in ('}', ','):
                        new = '%s: %s' % (t.text, new)
                    out.append(line[pos:t.start] + new)
                    pos = t.end
        out.append(line[pos:])
        return ''.join(out)
    c2 = copy.deepcopy(c)
    c2.clauses = [(sec, [f(l) for l in lines]) for sec, lines in c2.clauses]
    for lc in c2.loops:
        lc.clauses = [(sec, [f(l) for l in lines]) for sec, lines in lc.clauses]
        lc.fingerprint = f(lc.fingerprint)
        if lc.bind:
            lc.bind = lc.bind
    c2.inserts = [(w, n, f(a), [f(l) for l in lines]) for (w, n, a, lines) in c2.inserts]
    c2.body_prefix = [f(l) for l in c2.body_prefix]
    for cc in c2.closures:
        cc.header = f(cc.header)
        cc.new_header = f(cc.new_header)
        cc.clauses = [(sec, [f(l) for l in lines]) for sec, lines in cc.clauses]
    return c2


class Unit:
    def __init__(self, name, repo, verif, sentinel=False):
        self.name = name
        self.sentinel = sentinel
        self.sentinels = []
        self.relaxed = []
        self.fn_lines = {}     # key -> sorted normalized lines of the function text (is a change a pure permutation of lines?)
        self.fn_renames = {}   # key -> renames inferred for this function (old name -> new name)
        self.fn_closures = {}  # key -> number of closure expressions in the function text (a NEW closure has no contract)
        self.fn_idents = {}   # key -> identifiers of the function text in order of first occurrence (rename inference)
        self._base_idents = None
        self.disabled_hints = set()
        self.repo = repo
        self.verif = verif
        self.work_rel = os.environ.get('VERIF_WORK_REL', '.work')   # set by engine.build_unit
        self.work = os.path.join(verif, self.work_rel)
        self.out = []
        self.rules = collections.Counter()
        self.dropped = collections.Counter()
        self.fns = []  # (key, repo_file, l0, l1, has_contract)
        self.contracts = {}
        self.sources = {}
        self.opaque = []
        self.notes = []
        self.features = []
        self.verus_args = []
        self.sentinel_fns = []
        self.item_log = []

    # ---------------------------------------------------------------- inputs
    def source(self, rel):
        if rel not in self.sources:
            p = os.path.join(self.repo, rel)
            if not os.path.exists(p):
                raise LostAnchor('missing file ' + rel)
            self.sources[rel] = rsparse.Source(p)
        return self.sources[rel]

    def load_contracts(self, rel):
        c = vc.parse(os.path.join(self.verif, rel))
        for k, v in c.items():
            if k in self.contracts:
                raise ValueError('duplicate contract key ' + k)
            self.contracts[k] = v

    # ---------------------------------------------------------------- raw text
    def raw(self, text):
        self.out.append(text.rstrip('\n') + '\n')

    def include(self, rel, kind='prelude'):
        p = os.path.join(self.verif, rel)
        self.out.append('//@%s %s\n' % (kind, rel))
        self.out.append(open(p).read().rstrip('\n') + '\n')
        self.out.append('//@end\n')

    # ---------------------------------------------------------------- generic cleaning (rule R0)
    def clean(self, text):
        def drop(m):
            self.dropped['attr:' + re.sub(r'\(.*', '', m.group(0).strip()[2:-1])] += 1
            return ''
        text = DROP_ATTRS.sub(drop, text)

        def derive(m):
            names = [x.strip() for x in m.group(1).replace('\n', ' ').split(',') if x.strip()]
            keep = [x for x in names if x in KEEP_DERIVES or x in getattr(self, '_extra_keep', ())]
            for x in names:
                if x not in keep:
                    self.dropped['derive:' + x] += 1
            if not keep:
                return ''
            return '#[derive(%s)]' % ', '.join(keep)
        text = DERIVE.sub(derive, text)
        # visibility widening (Verus refuses private items in public specs)
        text2 = re.sub(r'\bpub\((?:super|crate|in [a-z_:]+)\)', 'pub', text)
        if text2 != text:
            self.dropped['visibility-widened'] += 1
        return text2

    # ---------------------------------------------------------------- item emission
    def emit(self, rel, spec, rules=(), key_prefix='', only=None, skip=(), derive_drop=(), pub_fields=False,
             pre=None, widen=True, derive_add=(), key_tag='', keep_derives=()):
        """emit the item addressed by `spec` from file `rel`.  For impl/trait items every fn child is
        processed separately (rules + contract splice).  `only`/`skip`: restrict fn children by name.
        `pre`: optional function(text)->text applied to the whole item before anything else (for
        item-level rules; must log itself in self.rules)."""
        src = self.source(rel)
        it = src.find(spec)
        self._extra_keep = tuple(keep_derives)
        self.item_log.append('%s :: %s (lines %d-%d)' % (rel, spec, it.lines[0], it.lines[1]))
        text = self._emit_item(src, it, rel, rules, key_prefix, only, skip, key_tag)
        if derive_add:
            # derives that a dropped third-party derive (e.g. enumset's EnumSetType) used to provide
            text = re.sub(r'(?m)^((?:pub )?(?:struct|enum) )', '#[derive(%s)]\n\\1' % ', '.join(derive_add), text, count=1)
            self.dropped['derive-readded:' + '+'.join(derive_add)] += 1
        for d in derive_drop:
            text = re.sub(r'(#\[derive\([^\]]*?)\b%s\b,?\s*' % d, r'\1', text)
            self.dropped['derive-replaced-by-trusted-spec:' + d] += 1
        if pub_fields:
            text = self._pub_fields(text)
        if widen:
            text = self._widen(text, it)
        if pre:
            text = pre(text)
        self.out.append(text.rstrip('\n') + '\n')

    def _widen(self, text, it):
        # private items become pub (Verus refuses private items in public specs); semantics of a single-file unit unchanged
        def f(m):
            self.dropped['visibility-widened'] += 1
            return m.group(1) + 'pub ' + m.group(2)
        text = re.sub(r'(?m)^()((?:unsafe |const )*(?:struct|enum|trait|fn|const|type|static) )', f, text)
        if it.kind == 'impl' and ' for ' not in it.header:
            text = re.sub(r'(?m)^(\t)((?:unsafe |const )*fn )', f, text)
        return text

    def _pub_fields(self, text):
        # make struct fields public:  `\tname: Type,` at depth 1 of a struct body
        def f(m):
            self.dropped['visibility-widened'] += 1
            return m.group(1) + 'pub ' + m.group(2)
        return re.sub(r'(?m)^(\t)((?!pub\b)[a-z_][A-Za-z0-9_]*\s*:)', f, text)

    def _emit_item(self, src, it, rel, rules, key_prefix, only, skip, key_tag=''):
        if it.kind == 'fn':
            return self._emit_fn(src, it, rel, key_prefix + 'fn ' + it.name, rules)
        if it.kind in ('impl', 'trait') and it.children:
            parts = []
            pos = it.start
            hdr = (it.header if it.kind == 'impl' else 'trait ' + it.name) + key_tag
            for ch in it.children:
                parts.append(self.clean(src.text[pos:ch.start]))
                if ch.kind == 'fn' and ch.body_open is not None:
                    if (only is not None and ch.name not in only) or ch.name in skip:
                        self.dropped['fn-not-in-unit:%s' % ch.name] += 1
                    else:
                        parts.append(self._emit_fn(src, ch, rel, key_prefix + hdr + ' :: fn ' + ch.name, rules))
                elif ch.kind == 'fn':
                    # trait method declaration without body
                    key = key_prefix + hdr + ' :: fn ' + ch.name
                    parts.append(self._emit_decl(src, ch, rel, key))
                else:
                    parts.append(self.clean(ch.text))
                pos = ch.end
            parts.append(self.clean(src.text[pos:it.end]))
            return ''.join(parts)
        return self.clean(it.text)

    def _emit_decl(self, src, ch, rel, key):
        text = self.clean(ch.text)
        c = self.contracts.get(key)
        if c is None:
            return text
        c.used = True
        assert text.rstrip().endswith(';')
        body = text.rstrip()[:-1]
        m = re.search(r'->\s*([^;{]+)$', body)
        if c.ret and m:
            body = body[:m.start()] + '-> (%s: %s)' % (c.ret, m.group(1).strip())
        l0, l1 = ch.lines
        self.fns.append((key, rel, l0, l1, True))
        return '//@fn %s | %s:%d-%d\n%s\n%s;\n//@endfn\n' % (key, rel, l0, l1, body, vc.render_clauses(c.clauses, '\t\t'))

    def _emit_fn(self, src, it, rel, key, rules):
        l0, l1 = it.lines
        text = self.clean(it.text)
        self.fn_idents[key] = first_occurrence_idents(text)
        self.fn_closures[key] = len(CLOSURE_HEAD.findall(text))
        self.fn_lines[key] = normalized_lines(text, keep_order=True)
        # renames of locals/parameters since the baseline, for rules whose ghost text names locals (see _inferred_renames)
        self.current_renames = self._inferred_renames(key)
        if self.current_renames:
            self.fn_renames[key] = dict(self.current_renames)
        from . import rules as _rules
        _rules.CURRENT['renames'] = dict(self.current_renames or {})    # for ghost text that rules bring along (closure contracts)
        for r in rules:
            text = r(self, key, text)
        _rules.CURRENT['renames'] = {}
        c = self.contracts.get(key)
        if c is not None:
            c.used = True
            ren = self.current_renames
            if ren:
                c = rename_contract(c, ren)
                self.relaxed.append('%s: contract follows renamed locals/parameters: %s' % (key, ', '.join('%s -> %s' % kv for kv in sorted(ren.items()))))
            text = self._splice(key, text, c)
        self.fns.append((key, rel, l0, l1, c is not None))
        return '//@fn %s | %s:%d-%d\n%s\n//@endfn\n' % (key, rel, l0, l1, text.rstrip('\n'))

    def _inferred_renames(self, key):
        """Pure renames of locals/parameters since the baseline: the sequences of identifiers in order of first occurrence have
        the same length and differ only at positions where the old name no longer occurs anywhere in the function and the
        new name did not occur in it before.  Contracts name locals (loop invariants, hints); following a pure rename keeps
        them meaningful.  Anything else (a swap, a removed or added variable) yields no renaming."""
        if self._base_idents is None:
            import json
            try:
                self._base_idents = json.load(open(os.path.join(self.verif, 'baseline', 'obligations.json'))).get(self.name, {}).get('fn_idents', {})
            except Exception:
                self._base_idents = {}
        old = self._base_idents.get(key)
        new = self.fn_idents.get(key)
        if not old or not new or old == new:
            return {}
        olds, news = set(old), set(new)
        gone = [a for a in old if a not in news]     # names that vanished from the function, in order of first occurrence
        fresh = [b for b in new if b not in olds]    # names new to the function, in order of first occurrence
        if not gone or len(gone) > len(fresh):
            return {}
        # align the two sequences; a vanished name is paired with the fresh name that replaced it at the same place
        import difflib
        ren = {}
        sm = difflib.SequenceMatcher(None, old, new, autojunk=False)
        for tag, i1, i2, j1, j2 in sm.get_opcodes():
            if tag != 'replace':
                continue
            g = [a for a in old[i1:i2] if a in gone]
            f = [b for b in new[j1:j2] if b in fresh]
            for a, b in zip(g, f):
                ren[a] = b
        if set(ren) != set(gone):
            return {}
        return ren

    # ---------------------------------------------------------------- contract splice
    def _splice(self, key, text, c):
        head, ret, where, body = rsparse.fn_signature_split(text)
        # --- body-level inserts first (offsets relative to body)
        body = self._splice_body(key, body, c)
        sig = head
        if ret is not None:
            if c.ret:
                sig += ' -> (%s: %s)' % (c.ret, ret)
            else:
                sig += ' -> ' + ret
        elif c.ret:
            raise Unsupported('contract %s names a result but fn returns ()' % key)
        if where:
            sig += '\n' + where
        clauses = vc.render_clauses(c.clauses)
        attrs = ''.join(a.strip() + '\n' for a in c.attrs)
        # attrs go in front of the fn keyword line: put before whole text (after doc comments is fine)
        return attrs + sig + ('\n' + clauses if clauses else '') + '\n' + body

    def _splice_closures(self, key, body, c):
        # closures are addressed by (nth occurrence of the literal head text); the closure body is kept
        # verbatim and wrapped in braces when it is a bare expression
        for cc in sorted(c.closures, key=lambda x: -x.nth):
            pos = -1
            for _ in range(cc.nth + 1):
                pos = body.find(cc.header, pos + 1)
                if pos < 0:
                    break
            if pos < 0:
                # the closure parameter may have been renamed: match the head with the parameter names as wildcards
                m0 = re.match(r'^(.*?)\|\s*(\w+)\s*\|$', cc.header, re.S)
                if m0:
                    hits = list(re.finditer(re.escape(m0.group(1)) + r'\|\s*(\w+)\s*\|', body))
                    if len(hits) > cc.nth:
                        import copy
                        h = hits[cc.nth]
                        oldp, newp = m0.group(2), h.group(1)
                        cc = copy.deepcopy(cc)
                        f = lambda t: re.sub(r'(?<![\w.])%s\b' % re.escape(oldp), newp, t)
                        cc.header = h.group(0)
                        cc.new_header = f(cc.new_header)
                        cc.clauses = [(sec, [f(l) for l in lines]) for sec, lines in cc.clauses]
                        pos = h.start()
                        self.relaxed.append('%s: closure contract follows renamed parameter %s -> %s' % (key, oldp, newp))
            if pos < 0:
                # relaxed anchor: the closure is gone from the current text; its contract is skipped (the obligations that
                # relied on it then fail or the file is rejected, never a silent pass: they are named in the baseline)
                self.relaxed.append('%s: closure %r #%d not found, closure contract skipped' % (key, cc.header, cc.nth))
                continue
            bstart = pos + len(cc.header)
            toks = rsparse.tokenize(body[bstart:])
            match = rsparse.match_brackets_lenient(toks)
            # end of closure expression
            if toks and toks[0].text == '{':
                end = bstart + toks[match[0]].end
                inner = body[bstart:end]
            else:
                j = 0
                end = None
                while j < len(toks):
                    t = toks[j]
                    if t.kind == 'p' and t.text in ('(', '[', '{') and j in match:
                        j = match[j] + 1
                        continue
                    if t.kind == 'p' and t.text in (')', ']', '}', ',', ';'):
                        end = bstart + t.start
                        break
                    j += 1
                if end is None:
                    raise LostAnchor('%s: cannot delimit closure %r' % (key, cc.header))
                inner = '{ ' + body[bstart:end].strip() + ' }'
            clauses = vc.render_clauses(cc.clauses, '\t\t\t')
            body = body[:pos] + cc.new_header + ('\n' + clauses + '\n\t\t\t' if clauses else ' ') + inner + body[end:]
            self.rules['closure-contract'] += 1
        return body

    def _splice_body(self, key, body, c):
        if c.closures:
            body = self._splice_closures(key, body, c)
        # loops: located on the current text; insert from last to first to keep offsets valid
        if c.loops:
            loops = rsparse.find_loops(body)
            edits = []
            # anchor resolution: (1) same ordinal and same header text; (2) relaxed: an unclaimed loop with the same header text
            # (loops were added or removed before it); (3) relaxed: same ordinal, header text changed; (4) skipped
            claimed = {}
            for lc in c.loops:
                if lc.ordinal < len(loops) and loops[lc.ordinal][1] == lc.fingerprint:
                    claimed[id(lc)] = lc.ordinal
            used = set(claimed.values())
            for lc in c.loops:
                if id(lc) in claimed:
                    continue
                cand = [k for k, l in enumerate(loops) if l[1] == lc.fingerprint and k not in used]
                if cand:
                    k = min(cand, key=lambda k: abs(k - lc.ordinal))
                    claimed[id(lc)] = k
                    used.add(k)
                    self.relaxed.append('%s: loop contract #%d %r moved to loop #%d (same header text)' % (key, lc.ordinal, lc.fingerprint[:50], k))
            for lc in c.loops:
                if id(lc) in claimed:
                    continue
                if lc.ordinal < len(loops) and lc.ordinal not in used:
                    claimed[id(lc)] = lc.ordinal
                    used.add(lc.ordinal)
                    self.relaxed.append('%s: loop #%d header is %r, contract written for %r' % (key, lc.ordinal, loops[lc.ordinal][1][:60], lc.fingerprint[:60]))
                else:
                    self.relaxed.append('%s: loop #%d %r not found (%d loops), loop contract skipped' % (key, lc.ordinal, lc.fingerprint[:50], len(loops)))
            for lc in c.loops:
                if id(lc) not in claimed:
                    continue
                lc_ord = claimed[id(lc)]
                kw, hdr, bopen = loops[lc_ord]
                sent = ''
                if self.sentinel and any(sec.startswith('invariant') for sec, _ in lc.clauses) and not any('loop_isolation(false)' in a for a in c.attrs):
                    tag = '%s#loop%d' % (key, lc.ordinal)
                    self.sentinels.append(tag)
                    sent = '\n\t\tassert(false); /*@S:%s*/' % tag
                edits.append((bopen, '\n' + vc.render_clauses(lc.clauses, '\t\t') + '\n', sent, kw, lc.bind))
            for off, ins, sent, kw, bind in sorted(edits, reverse=True):
                # strip whitespace before '{' so that clauses sit between header and brace
                body = body[:off].rstrip() + ins + '\t\t{' + sent + body[off + 1:]
                if bind:
                    # `for x in EXPR` -> `for x in <bind>: EXPR` (Verus syntax naming the ghost iterator)
                    m = re.compile(r'\bin\s+').search(body, kw)
                    if not m or m.start() > off:
                        raise LostAnchor('%s: cannot bind iterator of loop' % key)
                    body = body[:m.end()] + bind + ': ' + body[m.end():]
        for where_, nth, anchor, lines in c.inserts:
            blines = body.split('\n')
            loc = _locate_anchor(body, blines, anchor, nth)
            if loc is None:
                # relaxed anchor: a proof hint whose anchor line is gone is skipped (hints are ghost; skipping one can
                # only make the proof harder, never make a wrong program verify)
                self.relaxed.append('%s: hint anchor %r #%d not found, hint skipped' % (key, anchor, nth))
                continue
            first_line, last_line, note = loc
            if note:
                self.relaxed.append('%s: hint anchor %r #%d %s' % (key, anchor, nth, note))
            idxs = None
            i = first_line if where_ == 'before' else last_line
            if where_ == 'before' and blines[i].strip().startswith('else'):
                self.relaxed.append('%s: hint anchor %r #%d now continues an if/else chain, hint skipped' % (key, anchor, nth))
                continue
            hid = '%s#%s%d:%s' % (key, where_, nth, anchor[:40])
            if hid in self.disabled_hints:
                self.relaxed.append('%s: hint %s %d %r dropped (it no longer type-checks in the changed code)' % (key, where_, nth, anchor[:40]))
                continue
            ins = ['//@hint ' + hid] + [l for l in lines]
            while ins and not ins[-1].strip():
                ins.pop()
            ins.append('//@endhint')
            if where_ == 'before':
                blines[i:i] = ins
            else:
                blines[i + 1:i + 1] = ins
            body = '\n'.join(blines)
        prefix = list(c.body_prefix)
        if self.sentinel and any(sec == 'requires' for sec, _ in c.clauses) and not any('external_body' in a for a in c.attrs):
            self.sentinels.append(key)
            prefix.append('\tassert(false); /*@S:%s*/' % key)
        if prefix:
            o = body.index('{')
            body = body[:o + 1] + '\n' + '\n'.join(prefix).rstrip() + body[o + 1:]
        return body

    # ---------------------------------------------------------------- finish
    def text(self):
        unused = [k for k, v in self.contracts.items() if not v.used]
        if unused:
            raise LostAnchor('contracts without a sliced function: ' + ', '.join(unused))
        feats = ''.join('#![feature(%s)]\n' % f for f in self.features)
        hdr = feats + '#![allow(unused_imports, dead_code, unused_variables, unused_mut, unused_parens, non_snake_case, unreachable_code, unused_assignments, unreachable_patterns, unused_braces)]\n' \
            'use vstd::prelude::*;\nuse vstd::std_specs::cmp::{PartialEqSpec, PartialEqSpecImpl};\nverus! {\nglobal size_of usize == 8;\n'
        body = ''.join(self.out)
        return hdr + body + '\n} // verus!\nfn main() {}\n'
