"""Bounded stand-in for the determinism half of C13 (HashMap/HashSet iteration in scoper/typer/expander is not under contract):
every input is compiled in several FRESH processes (so that the randomly seeded hash tables differ) and the verdict, the list
of error codes and a hash of the complete diagnostics (variants, names, locations, in reported order) must be identical."""
import glob
import json
import os
import time
from . import replayrun
from .engine import REPO

EXTRA = [
    'const A: usize = |:S|;\nconst B: usize = A;\nconst C: usize = B;\n\nstruct S\n{\n\ta: [C]i32,\n\tb: [B]i32,\n\tc: [A]i32,\n}\n\nfn main()\n{\n}\n',
    'const A: i32 = B + C;\nconst B: i32 = C + A;\nconst C: i32 = A + B;\n\nfn main()\n{\n}\n',
    'struct S\n{\n\tt: T,\n\tu: U,\n}\n\nstruct T\n{\n\ts: S,\n}\n\nstruct U\n{\n\ts: S,\n\tt: T,\n}\n\nfn main()\n{\n}\n',
    'fn f(a: i32, b: i32)\n{\n\ta = 1;\n\tb = 2;\n\tc = 3;\n\td = e;\n}\n\nfn f(x: i32)\n{\n}\n\nconst K: i32 = 1;\nconst K: i32 = 2;\n',
]


MULTI = [
    '//// FILE: a.pn\npub const A: i32 = true;\n//// FILE: b.pn\npub const B: i32 = true;\n//// FILE: c.pn\npub const C: u8 = 300 + true;\n'
    '//// FILE: main.pn\nimport "a.pn";\nimport "b.pn";\nimport "c.pn";\n\nfn main() -> i32\n{\n\treturn: A + B\n}\n',
    '//// FILE: a.pn\npub fn fa() -> i32\n{\n\treturn: true\n}\n//// FILE: b.pn\npub struct S\n{\n\tx: Missing,\n}\n'
    '//// FILE: main.pn\nimport "b.pn";\nimport "a.pn";\n\nfn main() -> i32\n{\n\tvar s: S = S { x: 1 };\n\treturn: fa() + undefined\n}\n',
]


def inputs(rng, n):
    files = sorted(glob.glob(os.path.join(REPO, 'tests', 'samples', 'invalid', '*.pn'))) + sorted(glob.glob(os.path.join(REPO, 'tests', 'samples', 'valid', '*.pn')))
    rng.shuffle(files)
    out = [(('constructed #%d' % i), s.encode()) for i, s in enumerate(EXTRA)]
    for f in files[:n]:
        try:
            data = open(f, 'rb').read()
            data.decode('utf-8')
            out.append((os.path.relpath(f, REPO), data))
        except Exception:
            pass
    return out


def search(deadline, rng, n=40, runs=3):
    if replayrun.build()[0] is None:
        return None
    import concurrent.futures as cf

    def one(item):
        name, data = item
        seen = []
        # the constructed modules have several diagnostics whose order or wording can depend on a hash table: they are run more
        # often (two equally likely outcomes agree 3 times in a row with probability 1/4, 8 times with 1/128)
        for _ in range(runs + 5 if name.startswith('constructed') else runs):
            if time.time() > deadline:
                return None
            r = replayrun.run('alpha', data, timeout=30)
            if r.get('status') in ('timeout', 'build-failed', 'unknown'):
                continue    # inconclusive run
            key = (r.get('status'), (r.get('result') or {}).get('errors'), (r.get('result') or {}).get('lints'), (r.get('result') or {}).get('diag'), r.get('detail') if r.get('status') != 'ok' else None)
            seen.append((key, r))
        if len(set(k for k, _ in seen)) > 1:
            return (name, data, [r for _, r in seen])
        return None

    def multi(src):
        seen = set()
        last = None
        for _ in range(runs + 3):
            r = replayrun.run('alphamulti', src.encode(), timeout=30)
            if r.get('status') in ('timeout', 'build-failed', 'unknown'):
                continue
            seen.add((r.get('status'), json.dumps(r.get('result'), sort_keys=True)))
            last = r
        return (src, last, len(seen)) if len(seen) > 1 else None

    for src in MULTI:
        hit = multi(src)
        if hit:
            return {'mode': 'alphamulti', 'input_utf8_lossy': hit[0], 'input_hex': hit[0].encode().hex(), 'observed': {'distinct_outcomes': hit[2], 'one_of_them': hit[1]},
                    'expected': 'a program of several modules compiled %d times in fresh processes: identical error codes and diagnostics (same order) per module' % (runs + 3),
                    'expect_deterministic': runs + 3,
                    'how': 'replay_runner alphamulti <file>, several fresh processes; d<i> is a hash of the complete diagnostics of module i in the order reported'}
    with cf.ThreadPoolExecutor(8) as ex:
        for hit in ex.map(one, inputs(rng, n)):
            if hit:
                name, data, rs = hit
                return {'mode': 'alpha', 'input_utf8_lossy': data.decode('utf-8', 'replace')[:3000], 'input_hex': data.hex()[:12000], 'observed': rs,
                        'expected': '%s compiled %d times in fresh processes: identical verdict, error codes and diagnostics' % (name, runs),
                        'expect_deterministic': runs,
                        'how': 'replay_runner alpha <file>, several fresh processes; `diag` is a hash of the complete sorted diagnostics'}
    return None


def replay_differs(w, runs=6):
    data = bytes.fromhex(w['input_hex'])
    keys = set()
    for _ in range(runs):
        r = replayrun.run(w.get('mode', 'alpha'), data, timeout=30)
        keys.add((r.get('status'), str(r.get('result'))))
    return len(keys) > 1
